"""C06 -- Hamming / Golay / QR block codes: exact codeword sets and correction.

Fully exhaustive in both tiers: all 2^k messages, all 2^n words, all single errors on all
codewords of the five Hamming codes, all double errors on all (16,11,4) codewords.
Oracle: the codes as (shortened/extended) cyclic codes from mc/oracle/gf2.py -- integer
polynomial arithmetic, no numpy, no table shared with the library.
"""
from mc import env  # noqa: F401
from mc import par
from mc.report import Report, Acc, exc_sig
from mc.oracle import gf2

from bitarray import bitarray, frozenbitarray
from bitarray.util import int2ba, ba2int
import numpy

from okdmr.dmrlib.etsi.fec.hamming_7_4_3 import Hamming743
from okdmr.dmrlib.etsi.fec.hamming_13_9_3 import Hamming1393
from okdmr.dmrlib.etsi.fec.hamming_15_11_3 import Hamming15113
from okdmr.dmrlib.etsi.fec.hamming_16_11_4 import Hamming16114
from okdmr.dmrlib.etsi.fec.hamming_17_12_3 import Hamming17123
from okdmr.dmrlib.etsi.fec.golay_20_8_7 import Golay2087
from okdmr.dmrlib.etsi.fec.quadratic_residue_16_7_6 import QuadraticResidue1676

LIB = {
    "hamming_7_4_3": Hamming743,
    "hamming_13_9_3": Hamming1393,
    "hamming_15_11_3": Hamming15113,
    "hamming_16_11_4": Hamming16114,
    "hamming_17_12_3": Hamming17123,
    "golay_20_8_7": Golay2087,
    "qr_16_7_6": QuadraticResidue1676,
}
HAMMING = [n for n in LIB if n.startswith("hamming")]


def to_int(x) -> int:
    """library outputs are numpy arrays / bitarrays of 0/1"""
    if isinstance(x, bitarray):
        return ba2int(x) if len(x) else 0
    v = 0
    for b in list(x):
        b = int(b)
        if b not in (0, 1):
            raise ValueError(f"non-binary element {b}")
        v = (v << 1) | b
    return v


def w_generate(task):
    name, lo, hi = task
    n, k, d, g, ext = gf2.CODES[name]
    cls = LIB[name]
    acc = Acc()
    gen = []
    for m in range(lo, hi):
        case = {"code": name, "message": format(m, f"0{k}b")}
        try:
            mb = int2ba(m, k)
            out = cls.generate(mb)
            if len(out) != n:
                acc.violation("generate_length", case, f"generate returned {len(out)} bits")
                acc.case()
                continue
            c = to_int(out)
            want = gf2.encode_systematic(m, n, k, g, ext)
            if (c >> (n - k)) != m:
                acc.violation("not_systematic", case, "first k bits of the codeword are not the message")
            if c != want:
                acc.violation(
                    "generate_not_standard_codeword",
                    {**case, "got": format(c, f"0{n}b"), "want": format(want, f"0{n}b")},
                    "encoder output differs from the ETSI (polynomial) codeword",
                )
            if cls.check(int2ba(c, n)) is not True and cls.check(int2ba(c, n)) != True:  # noqa: E712
                acc.violation("encoder_output_rejected", case, "check(generate(m)) is false")
            # the encoder's own return value, handed to the checker as it is, and the same bits in a read-only container
            if not cls.check(out):
                acc.violation("encoder_output_object_rejected", case, "check() of the very object generate() returned is false")
            if not cls.check(frozenbitarray(int2ba(c, n))):
                acc.violation("encoder_output_rejected:frozenbitarray", case)
            if to_int(cls.generate(frozenbitarray(mb))) != want:
                acc.violation("generate_differs_for_frozenbitarray", case)
            if mb != int2ba(m, k):
                acc.violation("generate_mutates_input", case)
            gen.append(c)
            acc.case(nontrivial=True, calls=5, outcome=gf2.weight(c), sample=case if m == lo else None)
        except Exception as e:  # any exception on a valid message is a violation
            acc.violation("exception_generate:" + exc_sig(e), case, repr(e))
            acc.case()
    return acc, gen


def w_check_all(task):
    name, lo, hi = task
    n, k, d, g, ext = gf2.CODES[name]
    cls = LIB[name]
    code = CODESETS[name]
    acc = Acc()
    accepted = 0
    for w in range(lo, hi):
        try:
            got = bool(cls.check(int2ba(w, n)))
        except Exception as e:
            acc.violation("exception_check:" + exc_sig(e), {"code": name, "word": format(w, f"0{n}b")}, repr(e))
            acc.case()
            continue
        want = w in code
        if got:
            accepted += 1
        if got != want:
            acc.violation(
                "accepts_non_codeword" if got else "rejects_codeword",
                {"code": name, "word": format(w, f"0{n}b")},
                "checker verdict differs from codeword membership",
            )
        acc.case(nontrivial=True, outcome=got, sample={"code": name, "word": format(w, f"0{n}b"), "accepted": got} if w == lo else None)
    return acc, accepted


def w_single(task):
    """all single-bit errors (and for 16,11,4 all double errors) on codewords lo..hi"""
    name, lo, hi = task
    n, k, d, g, ext = gf2.CODES[name]
    cls = LIB[name]
    acc = Acc()
    for m in range(lo, hi):
        c = gf2.encode_systematic(m, n, k, g, ext)
        # error-free codeword is returned unchanged
        try:
            ok, out = cls.check_and_correct(int2ba(c, n))
            if not ok or to_int(out) != c:
                acc.violation("codeword_altered_by_correct", {"code": name, "codeword": format(c, f"0{n}b")})
        except Exception as e:
            acc.violation("exception_correct:" + exc_sig(e), {"code": name, "codeword": format(c, f"0{n}b")}, repr(e))
        acc.case(nontrivial=False)
        for i in range(n):
            w = c ^ (1 << (n - 1 - i))
            case = {"code": name, "codeword": format(c, f"0{n}b"), "flipped": [i]}
            try:
                ok, out = cls.check_and_correct(int2ba(w, n))
                if not (ok is True or ok == True) or to_int(out) != c:  # noqa: E712
                    acc.violation("single_error_not_repaired", {**case, "ok": bool(ok), "out": format(to_int(out), f"0{n}b")},
                                  "a codeword with one inverted bit is not repaired to the original")
                arr = cls.correct_numpy_array(numpy.array([int(b) for b in format(w, f"0{n}b")]))
                if to_int(arr) != c:
                    acc.violation("single_error_not_repaired_numpy", case, "correct_numpy_array does not repair a single error")
            except Exception as e:
                acc.violation("exception_correct:" + exc_sig(e), case, repr(e))
            acc.case(nontrivial=True, calls=2, outcome=i, sample=case if (m == lo and i == 0) else None)
        if name == "hamming_16_11_4":
            for i in range(n):
                for j in range(i + 1, n):
                    w = c ^ (1 << (n - 1 - i)) ^ (1 << (n - 1 - j))
                    case = {"code": name, "codeword": format(c, f"0{n}b"), "flipped": [i, j]}
                    try:
                        ok, out = cls.check_and_correct(int2ba(w, n))
                        if ok:
                            acc.violation("double_error_reported_repaired", {**case, "out": format(to_int(out), f"0{n}b")},
                                          "(16,11,4) double error reported as repaired instead of uncorrectable")
                        arr_in = numpy.array([int(b) for b in format(w, f"0{n}b")])
                        arr = cls.correct_numpy_array(arr_in)
                        if to_int(arr) != w:
                            acc.violation("double_error_mis_repaired_numpy", {**case, "out": format(to_int(arr), f"0{n}b")},
                                          "correct_numpy_array alters a (16,11,4) word with two inverted bits instead of leaving it as uncorrectable")
                    except Exception as e:
                        acc.violation("exception_correct:" + exc_sig(e), case, repr(e))
                    acc.case(nontrivial=True, outcome="double", sample=case if (m == lo and i == 0 and j == 1) else None)
    return acc


def w_correct_all_words(task):
    """total characterisation of check_and_correct over all 2^n words of a Hamming code:
    ok => output is a codeword at distance <= 1 from the input; a word within distance 1 of the code => ok"""
    name, lo, hi = task
    n, k, d, g, ext = gf2.CODES[name]
    cls = LIB[name]
    code = CODESETS[name]
    acc = Acc()
    for w in range(lo, hi):
        near = None
        if w in code:
            near = w
        else:
            for i in range(n):
                if (w ^ (1 << i)) in code:
                    near = w ^ (1 << i)
                    break
        case = {"code": name, "word": format(w, f"0{n}b")}
        try:
            ok, out = cls.check_and_correct(int2ba(w, n))
            o = to_int(out)
            if ok:
                if o not in code or gf2.weight(o ^ w) > 1:
                    acc.violation("reports_repaired_but_output_not_nearest_codeword", {**case, "out": format(o, f"0{n}b")},
                                  "check_and_correct says ok but output is no codeword within distance 1")
            elif near is not None:
                acc.violation("correctable_word_reported_uncorrectable", case)
            # the numpy front end of the same corrector (the one BPTC uses): nearest codeword, or the word untouched
            arr = to_int(cls.correct_numpy_array(numpy.array([int(b) for b in format(w, f"0{n}b")])))
            if arr != (near if near is not None else w):
                acc.violation("numpy_corrector_differs:" + ("correctable" if near is not None else "uncorrectable"), {**case, "out": format(arr, f"0{n}b")},
                              "correct_numpy_array does not return the codeword within distance 1, or alters a word that has none")
        except Exception as e:
            acc.violation("exception_correct:" + exc_sig(e), case, repr(e))
        acc.case(nontrivial=True, outcome=("ok" if near is not None else "uncorrectable"), sample=case if w == lo else None)
    return acc


def le(v, n):
    return bitarray(format(v, f"0{n}b"), endian="little")


def w_little(task):
    name, lo, hi = task
    n, k, d, g, ext = gf2.CODES[name]
    cls = LIB[name]
    code = CODESETS[name]
    acc = Acc()
    for m in range(lo, hi):
        c = gf2.encode_systematic(m, n, k, g, ext)
        case = {"code": name, "message": format(m, f"0{k}b"), "storage": "little-endian bitarray"}
        try:
            if to_int(cls.generate(le(m, k))) != c:
                acc.violation("little_endian_generate_differs", case, "generate() of a little-endian bitarray is not the codeword of the same bit string")
            if not cls.check(le(c, n)):
                acc.violation("little_endian_codeword_rejected", case)
            acc.case(nontrivial=True, calls=2, outcome="gen")
            for i in range(n):
                w = c ^ (1 << (n - 1 - i))
                if cls.check(le(w, n)) != (w in code):
                    acc.violation("little_endian_check_differs", {**case, "flipped": [i]})
                if name.startswith("hamming"):
                    ok, out = cls.check_and_correct(le(w, n))
                    if not ok or int(out.to01(), 2) != c:
                        acc.violation("little_endian_single_error_not_repaired", {**case, "flipped": [i], "ok": bool(ok)},
                                      "a codeword with one inverted bit, stored little-endian, is not repaired to the original")
                acc.case(nontrivial=True, calls=2, outcome=i, sample={**case, "flipped": [i]} if (m == lo and i == 0) else None)
        except Exception as e:  # noqa: BLE001
            acc.violation("exception_little_endian:" + exc_sig(e), case, repr(e))
            acc.case()
    return acc


def w_check_interleaved(task):
    """codes that work on words of the same length share helpers (syndrome computation): the same word goes through both, in both orders"""
    a, b, lo, hi = task
    n = gf2.CODES[a][0]
    acc = Acc()
    for w in range(lo, hi):
        for order in ((a, b, a), (b, a, b)):
            for name in order:
                try:
                    got = bool(LIB[name].check(int2ba(w, n)))
                except Exception as e:  # noqa: BLE001
                    acc.violation("exception_check:" + exc_sig(e), {"code": name, "word": format(w, f"0{n}b"), "order": list(order)}, repr(e))
                    continue
                if got != (w in CODESETS[name]):
                    acc.violation("verdict_differs_after_the_same_word_went_through_another_code:" + ("accepts_non_codeword" if got else "rejects_codeword"),
                                  {"code": name, "word": format(w, f"0{n}b"), "order": list(order)},
                                  "checker verdict differs from codeword membership when the same word was checked by the other code of that length just before")
        acc.case(nontrivial=True, calls=6, outcome="interleaved", sample={"codes": [a, b], "word": format(w, f"0{n}b")} if w == lo == 0 else None)
    return acc


CODESETS = {}


def run(only=None):
    rep = Report("C06")
    rep.explanation = (
        "Complete enumeration on the real encoder/checker/corrector functions: every message, every received word, "
        "every single error (every double error for 16,11,4). state = one enumerated word/error case; transition = "
        "one real library call on it; every case is an implementation execution (traces_validated = cases)."
    )
    rep.assumptions = [
        "reference codes: shortened/extended cyclic codes with generator polynomials x^3+x+1, x^4+x+1, x^5+x^2+1, "
        "Golay x^11+x^10+x^6+x^5+x^4+x^2+1, QR x^8+x^5+x^4+x^3+1 (ETSI TS 102 361-1 B.3.1-B.3.5), evaluated with "
        "integer polynomial division in the harness",
        "CPython, bitarray, numpy behave as documented",
    ]
    for name in LIB:
        CODESETS[name] = gf2.codeword_set(name)
        n, k, d, g, ext = gf2.CODES[name]
        # the reference itself: 2^k distinct words, minimum non-zero weight == advertised distance
        ws = [gf2.weight(c) for c in CODESETS[name] if c]
        assert len(CODESETS[name]) == 1 << k and min(ws) >= d, (name, min(ws))

    nw = env.workers()
    # 1. generate: all 2^k messages
    s = rep.sub("generate_all_messages", "all 2^k messages of each of the 7 codes; non-trivial: every message (distinct codeword)")
    tasks = []
    for name in LIB:
        k = gf2.CODES[name][1]
        tasks += [(name, lo, hi) for lo, hi in par.chunks(1 << k, 8)]
    s.declared = sum(1 << gf2.CODES[n][1] for n in LIB)
    generated = {n: [] for n in LIB}
    for t, (acc, gen) in zip(tasks, par.pmap(w_generate, tasks, nw)):
        s.merge(acc)
        generated[t[0]] += gen
    for name in LIB:
        n, k, d, g, ext = gf2.CODES[name]
        gs = set(generated[name])
        if len(gs) != 1 << k:
            s.violation("generated_set_size", {"code": name, "distinct": len(gs)}, "encoder does not produce 2^k distinct codewords")
        nz = [gf2.weight(c) for c in gs if c]
        if nz and min(nz) < d:
            s.violation("minimum_distance", {"code": name, "min_weight": min(nz), "advertised": d},
                        "two codewords closer than the advertised minimum distance")
        # closure under xor of the generated set (linearity) -- all pairs for small codes, basis x all for large
        lst = sorted(gs)
        basis = [c for c in lst if c and (c >> (n - k)) & ((c >> (n - k)) - 1) == 0]
        bad = 0
        for b in basis:
            for c in lst:
                if (b ^ c) not in gs:
                    bad += 1
        if bad:
            s.violation("not_linear", {"code": name, "pairs": bad}, "generated set is not closed under xor")
        s.extra.setdefault("min_weight", {})[name] = min(nz) if nz else None
    s.done()

    # 2. check: all 2^n words
    s = rep.sub("check_all_words", "all 2^n received words of each code; verdict must equal membership in the reference code")
    tasks = []
    for name in LIB:
        n = gf2.CODES[name][0]
        tasks += [(name, lo, hi) for lo, hi in par.chunks(1 << n, max(1, min(64, (1 << n) // 2048)))]
    s.declared = sum(1 << gf2.CODES[n][0] for n in LIB)
    accepted = {n: 0 for n in LIB}
    for t, (acc, a) in zip(tasks, par.pmap(w_check_all, tasks, nw)):
        s.merge(acc)
        accepted[t[0]] += a
    for name in LIB:
        k = gf2.CODES[name][1]
        if accepted[name] != 1 << k:
            s.violation("accepted_count", {"code": name, "accepted": accepted[name], "expected": 1 << k})
    s.extra["accepted_words"] = accepted
    s.done()

    # 2b. the same word through the codes of equal length
    same_len = [(a, b) for i, a in enumerate(LIB) for b in list(LIB)[i + 1:] if gf2.CODES[a][0] == gf2.CODES[b][0]]
    s = rep.sub("same_word_through_codes_of_equal_length",
                f"code pairs of equal word length {same_len}: all 2^n words checked by one code, the other, the first again (both orders): every verdict equals membership "
                "in that code (a helper cache keyed by the word alone shows here)")
    tasks = []
    for a, b in same_len:
        n = gf2.CODES[a][0]
        tasks += [(a, b, lo, hi) for lo, hi in par.chunks(1 << n, 64)]
    s.declared = sum(1 << gf2.CODES[a][0] for a, _ in same_len)
    for acc in par.pmap(w_check_interleaved, tasks, nw):
        s.merge(acc)
    s.done()

    # 3. correction: all single errors on all codewords; all double errors on (16,11,4)
    s = rep.sub("hamming_all_single_errors", "all codewords x all single-bit errors for the 5 Hamming codes via check_and_correct and correct_numpy_array; all C(16,2) double errors on all 2048 (16,11,4) codewords")
    tasks = []
    decl = 0
    for name in HAMMING:
        n, k = gf2.CODES[name][:2]
        tasks += [(name, lo, hi) for lo, hi in par.chunks(1 << k, 32)]
        decl += (1 << k) * (n + 1)
        if name == "hamming_16_11_4":
            decl += (1 << k) * (n * (n - 1) // 2)
    s.declared = decl
    for acc in par.pmap(w_single, tasks, nw):
        s.merge(acc)
    s.done()

    # 4. total characterisation of the corrector over all words
    s = rep.sub("hamming_correct_all_words", "all 2^n words of the 5 Hamming codes: ok => output is a codeword within distance 1; word within distance 1 => ok")
    tasks = []
    for name in HAMMING:
        n = gf2.CODES[name][0]
        tasks += [(name, lo, hi) for lo, hi in par.chunks(1 << n, max(1, min(64, (1 << n) // 1024)))]
    s.declared = sum(1 << gf2.CODES[n][0] for n in HAMMING)
    for acc in par.pmap(w_correct_all_words, tasks, nw):
        s.merge(acc)
    s.done()
    # 5. histories of length 2: the caller owns what generate() returns
    s = rep.sub("generate_again_after_caller_used_result", "all 2^k messages of the 7 codes: generate, overwrite the returned array in place, "
                                                           "generate again, then check() of the second result; also check() twice on one word")
    n_cases = 0
    for name, cls in LIB.items():
        n, k, d, g, ext = gf2.CODES[name]
        for m in range(1 << k):
            case = {"code": name, "message": format(m, f"0{k}b")}
            try:
                first = cls.generate(int2ba(m, k))
                want = gf2.encode_systematic(m, n, k, g, ext)
                try:
                    first[:] = 1
                except Exception:  # noqa: BLE001  (immutable result is fine)
                    pass
                again = cls.generate(int2ba(m, k))
                if to_int(again) != want:
                    s.violation("second_generate_differs_after_caller_wrote_first_result", case,
                                "generating the same message again gives another word once the caller has modified the first result")
                w = int2ba(want, n)
                if not (cls.check(w) and cls.check(w)) or w != int2ba(want, n):
                    s.violation("check_not_repeatable_or_modifies_word", case)
            except Exception as e:  # noqa: BLE001
                s.violation("exception_generate_again:" + exc_sig(e), case, repr(e))
            s.case(nontrivial=True, calls=4, outcome=name, sample=case if m == 5 else None)
            n_cases += 1
    s.declared = n_cases
    s.done()
    # 6. the same obligations for words stored as little-endian bitarrays (a bit string is its index order, whatever the storage)
    s = rep.sub("little_endian_storage", "all 2^k messages (generate), all codewords x all single errors (check_and_correct), all 2^n words for n <= 16 "
                                         "(check) supplied as bitarray(endian='little'): same results as for big-endian storage")
    tasks = []
    for name in LIB:
        n, k = gf2.CODES[name][:2]
        tasks += [(name, lo, hi) for lo, hi in par.chunks(1 << k, 16)]
    for acc in par.pmap(w_little, tasks, nw):
        s.merge(acc)
    s.done()

    # 7. histories: out-of-range first calls, and long histories of valid calls
    s = rep.sub("history_with_out_of_range_calls", "generate / check / check_and_correct / correct_numpy_array of the 7 codes x 8 out-of-range arguments "
                                                   "(wrong length, empty, non-bit elements, wrong container); whatever that call does, generate and check of "
                                                   "2 messages per code (and repair of a single error for the Hamming codes) give the reference result afterwards")
    from mc import hist
    funcs = {}
    for name, cls in LIB.items():
        for fn in ("generate", "check", "check_and_correct", "correct_numpy_array"):
            if hasattr(cls, fn):
                funcs[f"{name}.{fn}"] = getattr(cls, fn)
    bad_args = [
        ("empty_bitarray", lambda: bitarray()), ("bitarray_3", lambda: bitarray("101")), ("bitarray_21", lambda: bitarray("101" * 7)),
        ("list_with_2", lambda: [1, 0, 2, 1, 0, 1, 1]), ("numpy_21", lambda: numpy.array([1, 0, 1] * 7)), ("numpy_values_3", lambda: numpy.array([3] * 16)),
        ("bytes", lambda: b"\x01\x00\x01"), ("none", lambda: None),
    ]
    probes = []
    for name, cls in LIB.items():
        n, k, d, g, ext = gf2.CODES[name]
        for i in range(2):
            m = int(env.det_bits(f"c06-oor-{name}-{i}", k), 2)
            c = gf2.encode_systematic(m, n, k, g, ext)
            probes.append((f"{name}.generate", lambda cls=cls, m=m, k=k: to_int(cls.generate(int2ba(m, k)))))
            probes.append((f"{name}.check", lambda cls=cls, c=c, n=n: (bool(cls.check(int2ba(c, n))), bool(cls.check(int2ba(c ^ 5, n))))))
            if name in HAMMING:
                probes.append((f"{name}.check_and_correct", lambda cls=cls, c=c, n=n: (lambda r: (bool(r[0]), to_int(r[1])))(cls.check_and_correct(int2ba(c ^ (1 << (n // 2)), n)))))
                probes.append((f"{name}.correct_numpy_array", lambda cls=cls, c=c, n=n: to_int(cls.correct_numpy_array(numpy.array([int(b) for b in format(c ^ 2, f"0{n}b")])))))
    hist.poisoned_histories(s, funcs, bad_args, probes)
    # valid calls of the public matrix helpers with *other people's* matrices of the same shapes as the library's (a textbook generator,
    # an all-ones parity part): the seven codes must not be affected
    import okdmr.dmrlib.etsi.fec.fec_utils as _fu
    foreign = {}
    for name in LIB:
        n, k, d, g, ext = gf2.CODES[name]
        ident = numpy.identity(k, dtype=int)
        foreign[f"generator_{k}x{n}_ones"] = (lambda ident=ident, n=n, k=k: numpy.concatenate([ident, numpy.ones((k, n - k), dtype=int)], axis=1))
        foreign[f"generator_{k}x{n}_shifted"] = (lambda ident=ident, n=n, k=k: numpy.concatenate([ident, numpy.roll(numpy.eye(k, n - k, dtype=int), 1, axis=1)], axis=1))
    helper_funcs = {}
    for hn in ("derive_parity_check_matrix_from_generator",):
        if hasattr(_fu, hn):
            helper_funcs[f"fec_utils.{hn}"] = getattr(_fu, hn)
    if hasattr(_fu, "get_syndrome_for_word"):
        helper_funcs["fec_utils.get_syndrome_for_word(with the foreign matrix as H)"] = lambda G: _fu.get_syndrome_for_word(numpy.zeros(G.shape[0], dtype=int), G.T)
    if helper_funcs:
        decl_before = s.declared
        hist.poisoned_histories(s, helper_funcs, list(foreign.items()), probes)
        s.declared = (decl_before or 0) + len(helper_funcs) * len(foreign) if not s.viol else None
    s.done()
    s = rep.sub("kept_results", "generate() of all 2^k messages of each code with every returned word kept by the caller until the last call: each is still "
                                "the codeword of its own message; check_and_correct outputs of all single errors of one codeword kept likewise")
    for name, cls in LIB.items():
        n, k, d, g, ext = gf2.CODES[name]
        hist.kept_results(s, f"{name}.generate", [({"code": name, "message": format(m, f"0{k}b")}, (lambda cls=cls, m=m, k=k: cls.generate(int2ba(m, k)))) for m in range(1 << k)],
                          obs=to_int)
        if name in HAMMING:
            c = gf2.encode_systematic((1 << k) - 2, n, k, g, ext)
            hist.kept_results(s, f"{name}.check_and_correct", [({"code": name, "flipped": i}, (lambda cls=cls, c=c, n=n, i=i: cls.check_and_correct(int2ba(c ^ (1 << i), n))[1])) for i in range(n)],
                              obs=to_int)
            hist.kept_results(s, f"{name}.correct_numpy_array", [({"code": name, "flipped": i}, (lambda cls=cls, c=c, n=n, i=i: cls.correct_numpy_array(numpy.array([int(b) for b in format(c ^ (1 << i), f"0{n}b")])))) for i in range(n)],
                              obs=to_int)
    s.done()
    s = rep.sub("callers_buffer_overwritten_in_place",
                "per code: the caller holds the message / the received word in ONE bitarray (for the numpy corrector: one array) that it overwrites in "
                "place between calls, going through ALL 2^k messages (generate) and all single errors of three codewords (check_and_correct, "
                "correct_numpy_array, check where the code has one): each call answers for the buffer's present content")
    for name, cls in LIB.items():
        n, k, d, g, ext = gf2.CODES[name]
        ents = [(f"{name}.generate", (lambda b, cls=cls: to_int(cls.generate(b))), [int2ba(m, k) for m in range(1 << k)], [gf2.encode_systematic(m, n, k, g, ext) for m in range(1 << k)])]
        words = []
        for m in (1, (1 << k) - 2, (0x2B5 & ((1 << k) - 1))):
            c = gf2.encode_systematic(m, n, k, g, ext)
            words += [c] + [c ^ (1 << i) for i in range(n)]
        for fn in ("check", "check_and_correct"):
            f = getattr(cls, fn, None)
            if callable(f):
                ents.append((f"{name}.{fn}", (lambda b, f=f: f(b)), [int2ba(w_, n) for w_ in words], None))
        if name in HAMMING:
            ents.append((f"{name}.correct_numpy_array", (lambda a, cls=cls: to_int(cls.correct_numpy_array(a))), [numpy.array([int(b) for b in format(w_, f"0{n}b")]) for w_ in words], None))
        hist.reused_buffer(s, name, ents, may_write=tuple(f"{name}.{fn}" for fn in ("check_and_correct", "correct_numpy_array")))
    s.done()
    s = rep.sub("long_call_history", "the same valid calls again and again in one process: depth 3 when a call leaves class/module data untouched (observed), "
                                     "2^16+256 calls per entry point when it does not, and always in the thorough tier")
    import okdmr.dmrlib.etsi.fec.hamming_common as _mh, okdmr.dmrlib.etsi.fec.fec_utils as _mu, okdmr.dmrlib.etsi.fec.golay_20_8_7 as _mg
    import okdmr.dmrlib.etsi.fec.quadratic_residue_16_7_6 as _mq
    keep = [p_ for p_ in probes if p_[0].split(".")[0] in ("hamming_16_11_4", "hamming_13_9_3", "golay_20_8_7", "qr_16_7_6")]
    dedup = {}
    for lab, th in keep:
        dedup.setdefault(lab, th)
    hist.long_history(s, list(LIB.values()) + [_mh.HammingCommon, _mh, _mu, _mg, _mq], list(dedup.items()), always=rep.thorough())
    s.done()
    rep.bounds = {"messages": "all 2^k", "words": "all 2^n", "single_errors": "all", "double_errors_16_11_4": "all"}
    return rep.finish()

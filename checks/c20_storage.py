"""C20 -- RepeaterStorage: one record per source address, stable identity, patches are local.

Explicit-state BFS over the real RepeaterStorage / Repeater objects in lock-step with a
list-of-dicts reference model.  The whole public state of the storage (every record's
built-in fields and the dynamic attributes of the key pool) is compared with the model
after *every* transition, so "changes exactly the named fields of exactly the matched
record" is decided as a full-state diff.
"""
from mc import env
from mc import explore
from mc.report import Report, exc_sig
from mc.canon import canon

import copy
import uuid as _uuid

from okdmr.dmrlib.storage.repeater_storage import RepeaterStorage
from okdmr.dmrlib.storage.repeater import Repeater

SEAMS = env.Seams()

A = ("10.0.0.1", 50000)
B = ("10.0.0.2", 50000)
C = ("10.0.0.1", 50001)  # same IP as A, other port
D = ("10.0.0.4", 50000)  # only reachable through address_in patches
OUT = ("172.16.0.9", 3001)

BUILTIN = ("address_in", "address_out", "address_nat", "snmp_enabled", "nat_enabled", "dmr_id", "callsign", "serial")
ATTR_KEYS = ("custom", "p2p_is_registered")

PATCHES = {
    "none": {},
    "callsign": {"callsign": "x"},
    "dmr_id": {"dmr_id": 7},
    # a built-in field named with the value None is set to None (what a storage-created record starts with); None for a *dynamic* attribute
    # means "do not write" in Repeater.attr and stays outside the statement
    "dmr_none": {"dmr_id": None},
    "custom": {"custom": 1},
    "custom2": {"custom": 2},  # a *different* value for an already stored dynamic attribute
    "out": {"address_out": OUT},
    "two": {"callsign": "x", "p2p_is_registered": True},
    # NAT fields: the record is then *sent to* another address, it is still *matched by* the address it sends from
    "nat_on": {"nat_enabled": True, "address_nat": ("10.0.0.2", 40000)},
}
DEFAULT_MATCH_ATTRS = (("callsign", "x"), ("dmr_id", 7), ("callsign", ""))
DEFAULT_IPS = ("10.0.0.1", "10.0.0.2", "10.9.9.9")

# other spellings of an address (the storage matches the address tuple as it is given) and the extreme values of the built-in fields
M4 = ("::ffff:10.0.0.1", 50000)  # IPv4-mapped form of A's host, as a dual-stack socket reports it
V6 = ("2001:db8::1", 50000)
V6B = ("2001:db8:b::1", 50000)  # same last group as V6
E0 = ("", 0)
PATCHES_EDGE = {
    "none": {},
    "dmr_max": {"dmr_id": 0xFFFFFF},
    "dmr_zero": {"dmr_id": 0},
    "callsign_empty": {"callsign": ""},
    "serial_long": {"serial": "S" * 40},
    "snmp_off": {"snmp_enabled": False},
    "out_none_port0": {"address_out": ("", 0)},
}
EDGE_MATCH_ATTRS = (("dmr_id", 0xFFFFFF), ("dmr_id", 0), ("callsign", ""), ("serial", "S" * 40), ("snmp_enabled", False))
EDGE_IPS = ("10.0.0.1", "::ffff:10.0.0.1", "2001:db8::1", "2001:db8:b::1", "", "1")

PATCHES_ADDR = {
    "to_B": {"address_in": B},
    "to_D": {"address_in": D},
}


PRISTINE = {}


class Cfg:
    addrs = [A, C]
    max_recs = 2
    patches = PATCHES
    addr_patches = {}


class StorageSystem(explore.System):
    INITS = ["empty"]
    cfg = Cfg

    def __init__(self, init):
        SEAMS.uid = 0
        self.uid = 0
        self.builtin = tuple(getattr(self.cfg, "builtin", BUILTIN))
        self.impl = getattr(self.cfg, "storage_factory", RepeaterStorage)()
        self.recs = []  # real record objects in order of first appearance
        self.model = []  # dict per record: fields + attrs
        self.last_choice = {}
        self.obs = None
        if init == "three":
            for a in (A, B, C):
                self.step(("mi", self.cfg.addrs.index(a), True, "none"))

    # ---- alphabet ----------------------------------------------------------------
    def events(self):
        cfg = self.cfg
        evs = []
        for ai in range(len(cfg.addrs)):
            for auto in (False, True):
                for p in cfg.patches:
                    evs.append(("mi", ai, auto, p))
                for p in cfg.addr_patches:
                    evs.append(("mi", ai, auto, p))
        n = len(self.model)
        for k in range(n):
            for p in list(cfg.patches) + list(cfg.addr_patches):
                if p != "none":
                    evs.append(("save", k, p))
                    evs.append(("rpatch", k, p))
            evs.append(("save", k, "none"))
            evs.append(("match_uuid", k))
            for key in ATTR_KEYS:
                evs.append(("attr_get", k, key))
                evs.append(("attr_set", k, key, 1 if key == "custom" else True))
                if key == "custom":
                    evs.append(("attr_set", k, key, 2))
                evs.append(("delete_attr", k, key))
        evs += [("match_attr",) + tuple(ma) for ma in getattr(cfg, "match_attrs", DEFAULT_MATCH_ATTRS)]
        for ip in getattr(cfg, "ips", DEFAULT_IPS):
            evs.append(("match_ip", ip))
        evs += [("match_uuid_unknown",), ("len",), ("all",)]
        return evs

    # ---- helpers -------------------------------------------------------------------
    def _patch_dict(self, name):
        d = self.cfg.patches.get(name)
        if d is None:
            d = self.cfg.addr_patches[name]
        # a shallow copy: mutable *values* are the application's own objects (a defaults constant patched into several repeaters)
        self._pristine = copy.deepcopy(PRISTINE.setdefault(id(d), copy.deepcopy(d)))
        return dict(d)

    def _snapshot_impl(self):
        out = []
        for r in self.impl.all():
            d = {f: getattr(r, f) for f in self.builtin}
            d["attrs"] = {k: r.attr(k) for k in ATTR_KEYS}
            d["id"] = r.id
            out.append((id(r), d))
        return out

    def _model_apply_patch(self, k, patch):
        m = self.model[k]
        for key, v in patch.items():
            if key in self.builtin:
                if key == "address_in" and m[key] != v:
                    self.last_choice = {}
                m[key] = copy.deepcopy(v)
            else:
                m["attrs"][key] = copy.deepcopy(v)  # the model keeps values, not the caller's objects

    def _index_of(self, obj):
        for i, r in enumerate(self.recs):
            if r is obj:
                return i
        return None

    def _candidates(self, pred):
        return [i for i, m in enumerate(self.model) if pred(m)]

    def _lookup_queries(self):
        cfg = self.cfg
        qs = [("match_incoming", a) for a in cfg.addrs]
        qs += [("match_attr",) + tuple(ma) for ma in getattr(cfg, "match_attrs", DEFAULT_MATCH_ATTRS)]
        qs += [("match_ip_incoming", ip) for ip in getattr(cfg, "ips", DEFAULT_IPS)]
        return qs

    def _all_lookup_answers(self):
        """the record (object identity) every read-only lookup of the alphabet answers with right now"""
        out = {}
        for q in self._lookup_queries():
            try:
                r = getattr(self.impl, q[0])(*q[1:])
            except Exception:  # noqa: BLE001
                continue
            if isinstance(r, Repeater):
                out[q] = r
        return out

    def _compare_lookup_answers(self, before):
        diff = {}
        for q, r0 in before.items():
            try:
                r1 = getattr(self.impl, q[0])(*q[1:])
            except Exception as e:  # noqa: BLE001
                r1 = e
            if r1 is not r0:
                diff[q] = (self._index_of(r0), self._index_of(r1) if isinstance(r1, Repeater) else repr(r1))
        return diff

    # ---- one transition ------------------------------------------------------------------
    def step(self, ev):
        SEAMS.uid = self.uid
        viol = []
        kind = ev[0]
        n_before = len(self.model)
        len_before = len(self.impl)
        raised = None
        ret = None
        given = patch = None
        self._pristine = None
        undefined = False  # call outside what the statement defines: may raise, must not change state
        expect = ("any",)
        try:
            if kind == "mi":
                addr = self.cfg.addrs[ev[1]]
                auto, patch = ev[2], self._patch_dict(ev[3])
                cands = self._candidates(lambda m: m["address_in"] == addr)
                if not cands and not auto and patch:
                    undefined = True
                given = dict(patch)
                answers_before = self._all_lookup_answers() if (auto and not cands) else None
                ret = self.impl.match_incoming(addr, auto_create=auto, patch=given)
                expect = ("lookup", addr, cands, auto, patch)
                if answers_before is not None and isinstance(ret, Repeater) and self._index_of(ret) is None:
                    # a record was created for an unseen address and nothing else was touched: every lookup (by address, by IP, by
                    # attribute) that had an answer before still gives that same record
                    for q, (b, a_) in self._compare_lookup_answers(answers_before).items():
                        viol.append(("creating_a_record_changes_the_answer_of_another_lookup", {"event": list(ev), "lookup": list(q), "before": b, "after": a_}))
            elif kind == "save":
                patch = self._patch_dict(ev[2])
                given = dict(patch)
                ret = self.impl.save(self.recs[ev[1]], patch=given)
                expect = ("rec", ev[1], patch)
            elif kind == "rpatch":
                patch = self._patch_dict(ev[2])
                given = dict(patch)
                ret = self.recs[ev[1]].patch(given)
                expect = ("rec", ev[1], patch)
            elif kind == "match_uuid":
                ret = self.impl.match_uuid(self.recs[ev[1]].id)
                expect = ("rec", ev[1], {})
            elif kind == "match_uuid_unknown":
                undefined = True
                ret = self.impl.match_uuid(_uuid.UUID(int=0xDEAD))
                expect = ("none",)
            elif kind == "attr_get":
                ret = self.recs[ev[1]].attr(ev[2])
                expect = ("value", self.model[ev[1]]["attrs"].get(ev[2]))
            elif kind == "attr_set":
                ret = self.recs[ev[1]].attr(ev[2], ev[3])
                self.model[ev[1]]["attrs"][ev[2]] = ev[3]
                expect = ("value", ev[3])
            elif kind == "delete_attr":
                present = self.model[ev[1]]["attrs"].get(ev[2]) is not None
                if not present:
                    undefined = True
                ret = self.recs[ev[1]].delete_attr(ev[2])
                if present:
                    self.model[ev[1]]["attrs"].pop(ev[2], None)
                expect = ("value", present)
            elif kind == "match_attr":
                ret = self.impl.match_attr(ev[1], ev[2])
                expect = ("among", self._candidates(lambda m: m[ev[1]] == ev[2]))
            elif kind == "match_ip":
                ret = self.impl.match_ip_incoming(ev[1])
                expect = ("among", self._candidates(lambda m: m["address_in"][0] == ev[1]))
            elif kind == "len":
                ret = len(self.impl)
                expect = ("value", len(self.model))
            elif kind == "all":
                ret = self.impl.all()
                expect = ("all",)
        except Exception as e:  # noqa: BLE001
            raised = e
        self.uid = SEAMS.uid
        if given is not None and self._pristine is not None and (given != self._pristine or patch != self._pristine):
            viol.append(("callers_patch_values_modified", {"event": list(ev), "passed": repr(self._pristine), "left": repr(given)}))
            # repair the shared constant so that one defect is reported once, not for every later use of the same patch
            for k_ in list(patch):
                patch[k_] = copy.deepcopy(self._pristine.get(k_))
        elif given is not None and given != patch:
            # the caller owns the dict it passes (a provisioning table re-applied on every datagram): the library must not consume it
            viol.append(("callers_patch_dict_modified", {"event": list(ev), "passed": repr(patch), "left": repr(given)}))

        # ---- oracle on the return value -------------------------------------------------------
        if raised is not None:
            if not undefined:
                viol.append(("exception:" + exc_sig(raised), {"event": list(ev), "exc": repr(raised)}))
            # the attr_set / delete model updates above happen after the call, so nothing to undo
        else:
            tag = expect[0]
            if tag == "lookup":
                _, addr, cands, auto, patch = expect
                if cands:
                    k = self._index_of(ret)
                    if k is None or k not in cands:
                        viol.append(("lookup_returns_wrong_record", {"event": list(ev), "returned_index": k, "candidates": cands}))
                        k = cands[0]
                    if addr in self.last_choice and self.last_choice[addr] != k:
                        viol.append(("lookup_identity_unstable", {"event": list(ev), "before": self.last_choice[addr], "now": k}))
                    self.last_choice[addr] = k
                    self._model_apply_patch(k, patch)  # clears last_choice if address_in moves
                elif auto:
                    if ret is None or self._index_of(ret) is not None or not isinstance(ret, Repeater):
                        viol.append(("auto_create_did_not_create_new_record", {"event": list(ev)}))
                    else:
                        self.recs.append(ret)
                        m = {f: getattr(ret, f) for f in self.builtin}
                        m["attrs"] = {}
                        if "address_in" in patch:
                            m["address_in"] = addr  # created for addr, then moved by the patch (applied to the model below)
                        # the new record must be matchable by the address it was created for
                        if "address_in" not in patch and ret.address_in != addr:
                            viol.append(("created_record_has_wrong_address", {"event": list(ev), "address_in": list(ret.address_in)}))
                            m["address_in"] = addr
                        self.model.append(m)
                        k = len(self.model) - 1
                        self._learn_defaults(k, patch)
                        self.last_choice[addr] = k
                        self._model_apply_patch(k, patch)
                else:
                    if ret is not None:
                        viol.append(("lookup_of_unknown_address_returns_record", {"event": list(ev)}))
            elif tag == "rec":
                _, k, patch = expect
                if ret is not self.recs[k]:
                    viol.append(("returns_other_object", {"event": list(ev), "returned_index": self._index_of(ret)}))
                self._model_apply_patch(k, patch)
            elif tag == "none":
                if ret is not None:
                    viol.append(("unknown_id_returns_record", {"event": list(ev)}))
            elif tag == "value":
                if ret != expect[1]:
                    viol.append((f"{kind}_wrong_value", {"event": list(ev), "returned": repr(ret), "expected": repr(expect[1])}))
            elif tag == "among":
                cands = expect[1]
                k = self._index_of(ret) if ret is not None else None
                if (not cands and ret is not None) or (cands and k not in cands):
                    viol.append((f"{kind}_wrong_record", {"event": list(ev), "returned_index": k, "candidates": cands}))
            elif tag == "all":
                ids = sorted(id(x) for x in ret)
                if ids != sorted(id(x) for x in self.recs):
                    viol.append(("all_is_not_the_record_set", {"event": list(ev), "n": len(ret)}))
                # the caller owns the returned list: emptying it must not empty the storage (checked by the invariants below)
                try:
                    ret.clear()
                    ret.append("scribble")
                except Exception:  # noqa: BLE001
                    pass

        # ---- global invariants after every transition ---------------------------------------------
        snap = self._snapshot_impl()
        if len(self.impl) != len(self.model) or len(snap) != len(self.model):
            viol.append(("storage_size_differs_from_model", {"event": list(ev), "len": len(self.impl), "model": len(self.model)}))
        grew = len(self.impl) - len_before
        creating = kind == "mi" and ev[2] and raised is None and len(self.model) == n_before + 1
        if grew != (1 if creating else 0):
            viol.append(("storage_grew_unexpectedly" if grew > 0 else "storage_size_changed", {"event": list(ev), "grew": grew}))
        ids = [d["id"] for _, d in snap]
        if len(set(ids)) != len(ids):
            viol.append(("duplicate_record_id", {"event": list(ev)}))
        by_obj = {oid: d for oid, d in snap}
        for k, r in enumerate(self.recs):
            d = by_obj.get(id(r))
            if d is None:
                viol.append(("record_lost", {"event": list(ev), "record": k}))
                continue
            m = self.model[k]
            if "id" in m and m["id"] != d["id"]:
                viol.append(("record_id_changed", {"event": list(ev), "record": k}))
            m["id"] = d["id"]
            diffs = [f for f in self.builtin if d[f] != m[f]] + [
                "attr:" + a for a in ATTR_KEYS if d["attrs"].get(a) != m["attrs"].get(a)
            ]
            if diffs:
                target = ev[1] if kind in ("save", "rpatch", "attr_set", "delete_attr", "attr_get", "match_uuid") else None
                sig = "patch_effect_differs_on_matched_record" if (target == k or kind == "mi") else "other_record_changed"
                viol.append((sig, {"event": list(ev), "record": k, "fields": diffs,
                                   "impl": {f: repr(d[f.replace('attr:', '')] if not f.startswith('attr:') else d['attrs'].get(f[5:])) for f in diffs}}))
                # resynchronise the model so one defect is reported once per transition, not forever
                for f in self.builtin:
                    m[f] = d[f]
                m["attrs"] = {a: v for a, v in d["attrs"].items() if v is not None}
        self.obs = (kind, repr(type(raised).__name__ if raised else None), self._obs_ret(ret), len(self.model))
        return viol

    def _learn_defaults(self, k, patch):
        """fields of a freshly created record that the creating call's patch does not name are defaults of the
        implementation (not part of the property): copy them; patched fields get the patched value afterwards"""
        r = self.recs[k]
        m = self.model[k]
        for f in self.builtin:
            if f not in patch and f != "address_in":
                m[f] = getattr(r, f)

    def _obs_ret(self, ret):
        if isinstance(ret, Repeater):
            return ("rec", self._index_of(ret))
        if isinstance(ret, list):
            return ("list", len(ret))
        return repr(ret)

    def key(self):
        # model state (records identified by creation index) + the *complete* structural state of the real storage
        # object: hidden implementation state (caches, indexes) must never be merged away by the abstraction
        return (
            tuple(
                (tuple((f, repr(m[f])) for f in self.builtin), tuple(sorted((a, repr(v)) for a, v in m["attrs"].items() if v is not None)))
                for m in self.model
            ),
            tuple(sorted((repr(a), k) for a, k in self.last_choice.items())),
            repr(canon(self.impl)),
        )


def make_system(addrs, patches, addr_patches=None, inits=("empty",), **more):
    cfg = type("Cfg", (), {"addrs": list(addrs), "patches": dict(patches), "addr_patches": dict(addr_patches or {}), **more})
    return type("StorageSystemCfg", (StorageSystem,), {"cfg": cfg, "INITS": list(inits)})


class SiteRepeater(Repeater):
    """a repeater extended the documented way (RepeaterStorage.create_repeater override): one field with a class-level default, one
    property with a setter"""

    site = "unassigned"

    def __init__(self, *a, **k):
        super().__init__(*a, **k)
        self._hw = 0

    @property
    def hw_rev(self):
        return self._hw

    @hw_rev.setter
    def hw_rev(self, v):
        self._hw = v


class SiteStorage(RepeaterStorage):
    def create_repeater(self, dmr_id=None, address_in=("", 0), address_out=("", 0), address_nat=("", 0)):
        return SiteRepeater(address_in=address_in, address_out=address_out, address_nat=address_nat, dmr_id=dmr_id)


def SUBCLASS_SYSTEM():
    patches = {"none": {}, "callsign": {"callsign": "x"}, "site": {"site": "A"}, "hw": {"hw_rev": 3}, "custom": {"custom": 1}, "site_and_custom": {"site": "B", "custom": 2}}
    return make_system([A, C], patches, match_attrs=(("site", "A"), ("site", "unassigned"), ("hw_rev", 3), ("callsign", "x")),
                       builtin=BUILTIN + ("site", "hw_rev"), storage_factory=SiteStorage)


def MUTABLE_VALUES_SYSTEM():
    defaults = {"a": 1}
    patches = {"none": {}, "cfg_defaults": {"custom": defaults}, "cfg_other": {"custom": {"b": 2}}, "cfg_list": {"custom": [1, 2]}, "callsign": {"callsign": "x"}}
    return make_system([A, B], patches, match_attrs=(("callsign", "x"),))


def EDGE_SYSTEM():
    return make_system([A, M4, V6, V6B, E0], PATCHES_EDGE, match_attrs=EDGE_MATCH_ATTRS, ips=EDGE_IPS)


WHAT = {
    "lookup_returns_wrong_record": "lookup of a known address returned an object that is not the record created for it",
    "lookup_identity_unstable": "two lookups of the same address returned different records",
    "creating_a_record_changes_the_answer_of_another_lookup": "a lookup by address / IP / attribute that had an answer gives another record after a record was created for an unseen address (nothing else happened)",
    "other_record_changed": "a call changed a record other than the matched one",
    "patch_effect_differs_on_matched_record": "after the call the matched record's fields/attrs are not exactly base + named patch",
    "storage_grew_unexpectedly": "storage grew on a call that is not an auto-creating lookup of an unseen address",
    "duplicate_record_id": "two records share an id",
}


def run(only=None):
    rep = Report("C20")
    SEAMS.install()
    rep.explanation = (
        "Breadth-first explicit-state search of the real RepeaterStorage: one transition = one real API call; state = "
        "reference-model state (creation-ordered records with all built-in fields and pooled dynamic attributes) which is "
        "asserted equal to the real object's public state after every transition; every discovered state is rebuilt from "
        "its event path on fresh objects (traces_validated). Fix-point = every history of any length over the alphabet."
    )
    rep.assumptions = [
        "uuid.uuid4 replaced by a counter (ids fresh by construction; id collisions from the RNG are out of scope)",
        "patch keys restricted to the pool {callsign, dmr_id, address_out, custom, p2p_is_registered} (+ address_in in the bounded run); "
        "patching 'id', method names or a None value for a dynamic attribute is outside the statement (None for the built-in field dmr_id is in: the field becomes None)",
        "defaults of a newly created record are learned from the implementation (not part of the property)",
    ]
    deadline = None
    # run 1: two colliding addresses (same IP), fix-point over the full alphabet
    quick_patches = {k: PATCHES[k] for k in ("none", "callsign", "custom", "custom2", "nat_on", "dmr_id", "dmr_none")}
    runs = [
        ("fixpoint_2addr", make_system([A, C], PATCHES if rep.thorough() else quick_patches), None),
    ]
    if rep.thorough():
        runs.append(("fixpoint_3addr", make_system([A, B, C], {k: PATCHES[k] for k in ("none", "callsign", "custom", "custom2", "two", "nat_on")}), None))
        runs.append(("addr_patch_depth5", make_system([A, B], {k: PATCHES[k] for k in ("none", "callsign")}, PATCHES_ADDR), 5))
        runs.append(("all_sequences_depth4_3addr_full", make_system([A, B, C], PATCHES), 4))
    else:
        runs.append(("addr_patch_depth4", make_system([A, B], {k: PATCHES[k] for k in ("none", "callsign")}, PATCHES_ADDR), 4))
        runs.append(("all_sequences_depth3_3addr_full", make_system([A, B, C], PATCHES), 3))
    runs.append(("address_spellings_and_field_extremes_depth3", EDGE_SYSTEM(), 4 if rep.thorough() else 3))
    runs.append(("extended_repeater_through_create_repeater_hook", SUBCLASS_SYSTEM(), None if rep.thorough() else 4))
    runs.append(("mutable_attribute_values_shared_between_records", MUTABLE_VALUES_SYSTEM(), 5 if rep.thorough() else 4))
    for name, cls, depth in runs:
        if only and name not in only:
            continue
        s = rep.sub(name, rule=f"BFS over real RepeaterStorage, addresses={cls.cfg.addrs}, patches={list(cls.cfg.patches)+list(cls.cfg.addr_patches)}, "
                               f"max_depth={depth or 'fix-point'}; non-trivial = distinct (event kind, result, size) observations")
        res = explore.bfs(cls, max_depth=depth, log=rep.log)
        explore.feed(s, res, WHAT, name=name, rep=rep)
        s.exhaustive = res.exhausted or depth is not None
        s.done()
        rep.bounds[name] = {"depth_completed": res.depth_completed, "fixpoint": res.exhausted, "states": res.states}
    # ---- scale: far more records than any bounded search creates -----------------------------------------------
    if not only or "many_records" in only:
        s = rep.sub("many_records",
                    "one linear history: 2100 distinct incoming addresses looked up with auto-creation (every seventh with an identifying patch, 1800 "
                    "left unidentified), then every address looked up again: the same object as the first time, 2100 records, 2100 distinct "
                    "ids, match_uuid finds each, a patch on the last record changes no other record")
        SEAMS.uid = 0
        st = RepeaterStorage()
        first = {}
        n_addr = 2100
        addrs = [(f"10.{i // 250}.{i % 250}.7", 50000 + (i % 3)) for i in range(n_addr)]
        try:
            for i, a_ in enumerate(addrs):
                r_ = st.match_incoming(a_, auto_create=True, patch=({"dmr_id": 1000 + i, "callsign": f"R{i}"} if i % 7 == 0 else {}))
                first[a_] = r_
                if r_ is None or r_.address_in != a_:
                    s.violation("many_records:created_record_has_wrong_address", {"index": i, "address": list(a_)})
                    break
            if len(st) != n_addr:
                s.violation("many_records:storage_size_differs_from_the_number_of_addresses_seen", {"len": len(st), "addresses": n_addr},
                            "after auto-creating lookups of n distinct addresses the storage does not hold n records")
            ids = set()
            lost = changed = 0
            for i, a_ in enumerate(addrs):
                r_ = st.match_incoming(a_)
                if r_ is None:
                    lost += 1
                elif r_ is not first[a_]:
                    changed += 1
                else:
                    ids.add(r_.id)
                    if st.match_uuid(r_.id) is not r_:
                        s.violation("many_records:match_uuid_returns_other_record", {"index": i})
                s.case(nontrivial=True, calls=2, outcome="again", sample={"address": list(a_)} if i == 0 else None)
            if lost or changed:
                s.violation("many_records:earlier_address_no_longer_returns_its_record", {"lost": lost, "other_object": changed, "of": n_addr},
                            "a seen address does not return the object of its first lookup once many other addresses were seen")
            if len(ids) != n_addr - lost - changed:
                s.violation("many_records:duplicate_record_id", {"distinct_ids": len(ids)})
            snap_ = {a_: (r_.callsign, r_.dmr_id, r_.attr("custom")) for a_, r_ in first.items()}
            st.match_incoming(addrs[-1], patch={"callsign": "LAST", "custom": 9})
            others = [a_ for a_, r_ in first.items() if a_ != addrs[-1] and (r_.callsign, r_.dmr_id, r_.attr("custom")) != snap_[a_]]
            if others:
                s.violation("many_records:other_record_changed", {"changed": len(others)})
        except Exception as e:  # noqa: BLE001
            s.violation("many_records:exception:" + exc_sig(e), {"records_so_far": len(first)}, repr(e))
        s.done()
    return rep.finish()


def replay(doc):
    SEAMS.install()
    bad = 0
    for c in doc.get("cases", []):
        # the configuration is part of the sub-check name
        name = doc["check"]
        cfgs = {
            "fixpoint_2addr": make_system([A, C], PATCHES),  # superset of the quick tier's patch pool
            "fixpoint_3addr": make_system([A, B, C], {k: PATCHES[k] for k in ("none", "callsign", "custom", "custom2", "two", "nat_on")}),
            "addr_patch_depth5": make_system([A, B], {k: PATCHES[k] for k in ("none", "callsign")}, PATCHES_ADDR),
            "addr_patch_depth4": make_system([A, B], {k: PATCHES[k] for k in ("none", "callsign")}, PATCHES_ADDR),
            "all_sequences_depth4_3addr_full": make_system([A, B, C], PATCHES),
            "all_sequences_depth3_3addr_full": make_system([A, B, C], PATCHES),
            "address_spellings_and_field_extremes_depth3": EDGE_SYSTEM(),
            "extended_repeater_through_create_repeater_hook": SUBCLASS_SYSTEM(),
            "mutable_attribute_values_shared_between_records": MUTABLE_VALUES_SYSTEM(),
        }
        cls = cfgs[name]
        s = cls(c["init"])
        for ev in c["path"]:
            ev = tuple(ev)
            v = s.step(ev)
            print("  ", ev, "->", s.obs, ("VIOLATIONS: " + repr(v)) if v else "")
            bad += len(v)
    print("replay:", "still fails" if bad else "does not reproduce")
    return 1 if bad else 0

"""C18 -- Hytera P2P / RDAC handshake handlers: only registered peers are served, peers stay separate.

Explicit-state BFS to fix-point over the real P2PDatagramProtocol / RDACDatagramProtocol
objects with a recording transport, in lock-step with reference models transcribed from the
documented design (registered-source set; the 14-step RDAC table).
"""
from mc import env
from mc import explore
from mc.report import Report, exc_sig
from mc.canon import canon

from okdmr.dmrlib.protocols.hytera.p2p_datagram_protocol import P2PDatagramProtocol
from okdmr.dmrlib.protocols.hytera.rdac_datagram_protocol import RDACDatagramProtocol
from okdmr.dmrlib.storage.repeater_storage import RepeaterStorage
from okdmr.dmrlib.storage.repeater import Repeater

SEAMS = env.Seams()
SNMP_CALLS = []


def _stub_read_snmp_values(self, *a, **k):
    """network I/O replaced at run time, as the property prescribes"""
    SNMP_CALLS.append(self.address_in)
    return {}


# the complete structural state of the real handler + storage is part of every state key (hidden state must not be merged
# away); the transport (output log of the last step) and the completion callback (back reference to the System) are not state
IMPL_SKIP = frozenset({"transport", "callback", "_io", "_parent", "_root"})


class RecTransport:
    def __init__(self):
        self.sent = []

    def sendto(self, data, addr=None):
        self.sent.append((bytes(data), addr))

    def get_extra_info(self, name, default=None):
        return default

    def is_closing(self):
        return False

    def close(self):
        pass


def storage_snapshot(storage, keys):
    out = {}
    for r in storage.all():
        d = {f: getattr(r, f) for f in ("address_in", "address_out", "address_nat", "dmr_id", "callsign", "serial", "nat_enabled", "snmp_enabled")}
        d["attrs"] = {k: r.attr(k) for k in keys}
        out[r.id] = d
    return out


# =============================================================================================
# P2P
# =============================================================================================
P2P_PORT = 50000
RDAC_PORT = 50002
PA = ("10.1.0.1", 50000)
PB = ("10.1.0.2", 50123)
PC = ("10.1.0.3", 50000)
PA2 = ("10.1.0.1", 40404)  # A's IP, other port: a different source
PROV_OUT = ("10.1.0.1", 50001)  # stored outbound address of the pre-provisioned record


def p2p_cmd(ptype, b4=0x10, length=32):
    d = bytearray(length)
    d[0:3] = b"P2P"
    d[3] = 0x00
    d[4] = b4
    d[20] = ptype
    for i in range(21, length):
        d[i] = (i * 7) & 0xFF
    return bytes(d)


P2P_DGRAMS = {
    "REG": p2p_cmd(0x10),
    "DMR": p2p_cmd(0x11),
    "RDAC": p2p_cmd(0x12, b4=0x20, length=36),
    "PING": b"ZZZZ" + bytes([0x0A, 0x00, 0x00, 0x00, 0x14]) + bytes(range(12)),
    "ACKPKT": b"P2P\x00" + bytes([0x0C, 0x00, 0x00, 0x00, 0x14]) + bytes(23),
    "UNKCMD": p2p_cmd(0x13),
    "CMDPING": b"P2P\x00" + bytes([0x0A, 0x00, 0x00, 0x00, 0x14]) + bytes(23),  # command prefix wins over ping
    "SHORT": b"\x01\x02",
    "EMPTY": b"",
    "LONG": b"\xaa" * 40,
    # not commands (no P2P prefix, no ping signature) that carry a request type octet at the offset the dispatcher reads it from
    "NONCMD_T10": b"ZZZZ" + bytes(16) + b"\x10" + bytes(range(11)),
    "NONCMD_T11": b"\xaa" * 20 + b"\x11" + bytes(range(11)),
    "NONCMD_T12": b"ZZZZ" + bytes(16) + b"\x12" + bytes(range(15)),
}
# the same requests with the counter octet (offset 4) at its maximum: the handlers add 1 to it.  What a handler does with such a
# request is its own business (the statement is a safety statement), but it must not leave the source *registered* unless the
# registration was answered, and it must still reject the unregistered.
P2P_EDGE_DGRAMS = {
    "REG_FF": p2p_cmd(0x10, b4=0xFF),
    "DMR_FF": p2p_cmd(0x11, b4=0xFF),
    "RDAC_FF": p2p_cmd(0x12, b4=0xFF, length=36),
}
P2P_DGRAMS_ALL = {**P2P_DGRAMS, **P2P_EDGE_DGRAMS}
P2P_ATTRS = ("p2p_is_registered",)


def classify_p2p(out, req):
    """harness-side classification of one sent datagram relative to the request that caused it"""
    if out == b"\x00":
        return "reject"
    if len(req) >= 21 and len(out) == len(req) + 1 and out[-1] == 0x01 and out[3] == 0x50 and out[13:16] == b"\x01\x01\x5a":
        return "reg_response"
    if len(req) >= 21 and len(out) == len(req) + 1 and out[-1] == 0x01 and out[13] == 0x01 and out[4] == ((req[4] + 1) & 0xFF):
        return "acceptance"
    if len(out) >= 16 and out[4] == 0x0B and out[12:16] == b"\xff\xff\x01\x00" and out[-4:-2] == b"\xff\x01":
        return "redirect"
    if len(out) == len(req) and len(out) >= 15 and out[12] == 0xFF and out[14] == 0x01 and out[4:9] == bytes([0x0A, 0, 0, 0, 0x14]):
        return "ping_answer"
    return "other"


class P2PSystem(explore.System):
    INITS = ["empty", "provisioned_A"]
    PEERS = [PA, PB, PA2]
    KINDS = list(P2P_DGRAMS)

    def __init__(self, init):
        SEAMS.uid = 0
        self.uid = 0
        self.storage = RepeaterStorage()
        if init == "provisioned_A":
            r = self.storage.match_incoming(PA, auto_create=True, patch={"address_out": PROV_OUT})
            assert r is not None
        self.uid = SEAMS.uid
        self.tr = RecTransport()
        self.impl = P2PDatagramProtocol(self.storage, p2p_port=P2P_PORT, rdac_port=RDAC_PORT)
        self.impl.connection_made(self.tr)
        self.registered = set()  # reference model: sources that completed registration
        self.obs = None

    def events(self):
        return [(k, pi) for pi in range(len(self.PEERS)) for k in self.KINDS]

    def step(self, ev):
        SEAMS.uid = self.uid
        kind, pi = ev
        src = self.PEERS[pi]
        req = P2P_DGRAMS_ALL[kind]
        edge = kind.endswith("_FF")
        kind = kind[:-3] if edge else kind
        viol = []
        before = storage_snapshot(self.storage, P2P_ATTRS)
        rec_before = {d["address_in"]: (rid, d) for rid, d in before.items()}
        was_registered = src in self.registered
        self.tr.sent = []
        raised = None
        try:
            self.impl.datagram_received(req, src)
        except Exception as e:  # noqa: BLE001
            raised = e
        self.uid = SEAMS.uid
        sent = list(self.tr.sent)
        classes = [classify_p2p(o, req) for o, _ in sent]
        after = storage_snapshot(self.storage, P2P_ATTRS)
        case = {"event": [kind, list(src)], "registered": sorted(map(list, self.registered)), "sent": [[o.hex(), list(a) if a else a] for o, a in sent],
                "classes": classes}
        if raised is not None and not edge:
            viol.append(("exception:" + exc_sig(raised), {**case, "exc": repr(raised)}))

        # (c) nothing but a registration response / reject may ever go out for an unregistered source
        if not was_registered:
            for cl in classes:
                if cl in ("acceptance", "redirect", "ping_answer"):
                    viol.append(("served_unregistered_source", case))
                    break
        stored_out = rec_before[src][1]["address_out"] if src in rec_before else None
        if kind in ("DMR", "RDAC", "PING"):
            if not was_registered:
                if sent != [(b"\x00", src)]:
                    viol.append(("unregistered_request_not_answered_by_single_reject", case))
            else:
                want = ["ping_answer"] if kind == "PING" else ["acceptance", "redirect"]
                if classes != want and not (edge and (classes == [] or all(c in ("other", "redirect") for c in classes))):
                    viol.append(("registered_request_not_served", {**case, "expected": want}))
                for (o, a), cl in zip(sent, classes):
                    ok_addr = a is not None and (tuple(a) == tuple(stored_out or ()) or tuple(a) == src or (a[0] == src[0] and a[1] == P2P_PORT))
                    if not ok_addr:
                        viol.append(("answer_addressed_to_third_party", case))
                        break
                    if cl == "redirect":
                        port = int.from_bytes(o[-2:], "little")
                        want_port = RDAC_PORT if kind == "RDAC" else src[1]
                        if port != want_port:
                            viol.append(("redirect_to_wrong_port", {**case, "port": port, "expected": want_port}))
        elif kind == "REG":
            # a registration is completed when it was answered (the edge request may be refused in any way, but then it did not register)
            if raised is None and (not edge or len(sent) == 1):
                self.registered.add(src)
            if classes != ["reg_response"] and not edge:
                viol.append(("registration_not_answered_once", case))
        else:
            if sent:
                viol.append(("non_request_datagram_answered", case))

        # storage effects: only the source's own record may change; only REG may create, and only for the source
        for rid, d in after.items():
            b = before.get(rid)
            if b is None:
                if not (kind == "REG" and d["address_in"] == src):
                    viol.append(("record_created_by_non_registration", {**case, "created_for": list(d["address_in"])}))
            elif b != d and b["address_in"] != src:
                viol.append(("other_peers_record_changed", {**case, "record": list(b["address_in"])}))
            elif b != d and kind != "REG":
                viol.append(("record_changed_by_non_registration", {**case, "record": list(b["address_in"])}))
        for rid in before:
            if rid not in after:
                viol.append(("record_removed", case))
        # the authorisation state the next requests see must be the model's
        for d in after.values():
            reg = bool(d["attrs"]["p2p_is_registered"])
            if reg != (d["address_in"] in self.registered):
                viol.append(("registered_flag_differs_from_history", {**case, "record": list(d["address_in"]), "flag": reg}))
                # resync so that it is reported once
                if reg:
                    self.registered.add(d["address_in"])
                else:
                    self.registered.discard(d["address_in"])
        self.obs = (kind, tuple(classes), tuple((a == src, a == stored_out) for _, a in sent), type(raised).__name__ if raised else None)
        return viol

    def key(self):
        snap = storage_snapshot(self.storage, P2P_ATTRS)
        recs = tuple((d["address_in"], d["address_out"], bool(d["attrs"]["p2p_is_registered"]), d["dmr_id"], d["callsign"]) for d in snap.values())
        return (recs, tuple(sorted(self.registered)), repr(canon(self.impl, skip=IMPL_SKIP)))


class P2PSystem4(P2PSystem):
    PEERS = [PA, PB, PC, PA2]


class P2PSystemEdge(P2PSystem):
    INITS = ["empty"]
    PEERS = [PA, PB]
    KINDS = ["REG", "DMR", "RDAC", "PING", "EMPTY"] + list(P2P_EDGE_DGRAMS)


V6A = ("2001:db8:a::1", 50000)
V6B = ("2001:db8:b::1", 50000)  # same last group as V6A
V6M = ("::ffff:10.1.0.1", 50000)  # IPv4-mapped spelling of PA's host


class P2PSystemV6(P2PSystem):
    INITS = ["empty"]
    PEERS = [V6A, V6B, V6M, PA]
    KINDS = ["REG", "DMR", "RDAC", "PING", "EMPTY"]


# =============================================================================================
# RDAC
# =============================================================================================
H = bytes.fromhex
RDAC_PREFIX = {"FD": H("7e0400fd"), "10": H("7e040010"), "00": H("7e040000"), "FA": H("7e0400fa")}
# requests the server sends, transcribed from the documented handshake (hex literals, not imported)
REQ = {
    "S0": H("7e0400fe20100000000c60e1"),
    "S1": H("7e040000201000010018" "9b6002040005006400000001c403"),
    "S3": H("7e0400102010000100" "0c61ce"),
    "S4a": H("7e04001020100002000c61cd"),
    "S4b": H("7e04000020100002001958a002d40206006400000002" "00f003"),
    "S6a": H("7e04001020100003000c61cc"),
    "S6b": H("7e040000201000030019738402d6820600006400000002" "6e03"),
    "S7": H("7e040000201000040019579f02d4020600640000000201ef03"),
    "S10": H("7e0400002010001500189c4b02050005006400000001c303"),
    "S12a": H("7e04001020100015000c61ba"),
    "S12b": H("7e0400fb20100016000c60ce"),
}
# step -> (expected response prefix, next step, requests sent)
RDAC_TABLE = {
    1: ("FD", 2, ["S1"]),
    2: ("10", 3, []),
    3: ("00", 4, ["S3"]),
    4: ("00", 5, ["S4a", "S4b"]),
    5: ("10", 6, []),
    6: ("00", 7, ["S6a", "S6b"]),
    7: ("10", 8, ["S7"]),
    8: ("10", 10, []),
    10: ("00", 11, ["S10"]),
    11: ("10", 12, []),
    12: ("00", 13, ["S12a", "S12b"]),
    13: ("FA", 14, []),
}
RA = ("10.2.0.1", 3002)
RB = ("10.2.0.2", 3002)
RC = ("10.2.0.3", 4002)


def rdac_full(prefix_key, variant=0):
    d = bytearray(220)
    d[0:4] = RDAC_PREFIX[prefix_key]
    d[18:21] = (2301234 + variant).to_bytes(3, "little")
    d[26] = 1
    d[29:33] = (438_800_000).to_bytes(4, "little")
    d[33:37] = (431_200_000).to_bytes(4, "little")
    d[56:56 + 8] = "V9.0".encode("utf_16_le")
    d[88:88 + 12] = "OK1DMR".encode("utf_16_le")
    d[120:120 + 10] = "RD985".encode("utf_16_le")
    d[184:184 + 8] = "SN01".encode("utf_16_le")
    return bytes(d)


RDAC_DGRAMS = {"RESET0": b"\x00", "RESET1": b"\x01", "GARBAGE": b"\xaa" * 30, "EMPTY": b"",
               # well-formed HRNP headers that no step waits for: a reject (opcode FC) and a close (opcode FB)
               "HRNP_REJECT": bytes.fromhex("7e0400fc2010000000 0c 0000".replace(" ", "")), "HRNP_CLOSE": bytes.fromhex("7e0400fb20100000000c0000")}
for _k in RDAC_PREFIX:
    RDAC_DGRAMS["FULL_" + _k] = rdac_full(_k)
    RDAC_DGRAMS["BARE_" + _k] = RDAC_PREFIX[_k]
RDAC_ATTRS = ("rdac_hardware", "rdac_firmware", "rx_freq", "tx_freq", "p2p_is_registered")


class RDACSystem(explore.System):
    INITS = ["empty"]
    PEERS = [RA, RB]
    KINDS = list(RDAC_DGRAMS)

    def __init__(self, init):
        SEAMS.uid = 0
        self.uid = 0
        self.storage = RepeaterStorage()
        self.tr = RecTransport()
        self.done = []  # completion callbacks received (repeater ids)
        self.impl = RDACDatagramProtocol(self.storage, callback=self._on_done)
        self.impl.connection_made(self.tr)
        self.mstep = {}  # reference model: ip -> step
        self.mdone = {}  # ip -> completions
        self.obs = None
        if init == "near_end":
            for k in ("EMPTY", "FULL_FD", "FULL_10", "FULL_00", "FULL_00", "FULL_10", "FULL_00", "FULL_10", "FULL_10", "FULL_00", "FULL_10", "FULL_00"):
                self.step((k, 0))

    def events(self):
        return [(k, pi) for pi in range(len(self.PEERS)) for k in self.KINDS]

    def _on_done(self, repeater_id):
        # a bound method of the System (deepcopy re-binds it to the clone; list.append would not be)
        self.done.append(repeater_id)

    def _steps_impl(self):
        return {ip: s for ip, s in self.impl.step.items()}

    def step(self, ev):
        SEAMS.uid = self.uid
        kind, pi = ev
        src = self.PEERS[pi]
        ip = src[0]
        data = RDAC_DGRAMS[kind]
        viol = []
        steps_before = self._steps_impl()
        snap_before = storage_snapshot(self.storage, RDAC_ATTRS)
        done_before = len(self.done)
        self.tr.sent = []
        raised = None
        try:
            self.impl.datagram_received(data, src)
        except Exception as e:  # noqa: BLE001
            raised = e
        self.uid = SEAMS.uid
        sent = list(self.tr.sent)
        steps_after = self._steps_impl()
        new_done = self.done[done_before:]

        # ---- reference model ------------------------------------------------------------------
        cur = self.mstep.get(ip, 0)
        exp_sent = None  # None = not constrained by the statement
        exp_done = 0
        if len(data) == 1 and cur != 14:
            nxt, exp_sent = 1, ["S0"]  # restart on a one-byte reset
        elif cur == 14:
            nxt = 14  # terminal: run completed (documented design: not restarted)
        elif cur == 0:
            nxt, exp_sent = 1, ["S0"]  # any datagram wakes the identification up
        else:
            pref, nx, reqs = RDAC_TABLE[cur]
            if data[:4] == RDAC_PREFIX[pref]:
                nxt, exp_sent = nx, reqs
                if nx == 14:
                    exp_done = 1
            else:
                nxt, exp_sent = cur, []
        case = {"event": [kind, list(src)], "model_step_before": cur, "impl_steps_before": steps_before, "impl_steps_after": steps_after,
                "sent": [[o.hex(), list(a) if a else a] for o, a in sent]}
        if raised is not None:
            # short datagrams may fail on indexing/decoding; that must leave every step unchanged and report nothing
            if steps_after != steps_before and not (steps_before.get(ip) is None and steps_after.get(ip) == 0 and
                                                    {k: v for k, v in steps_after.items() if k != ip} == {k: v for k, v in steps_before.items() if k != ip}):
                viol.append(("exception_changed_step:" + exc_sig(raised), {**case, "exc": repr(raised)}))
            if new_done:
                viol.append(("exception_after_completion_report", case))
            if kind.startswith("FULL_") or kind in ("RESET0", "RESET1"):
                viol.append(("exception_on_wellformed_datagram:" + exc_sig(raised), {**case, "exc": repr(raised)}))
            self.obs = (kind, cur, "raised", type(raised).__name__)
            # model: no move
            self.mstep.setdefault(ip, 0)
            return viol
        self.mstep[ip] = nxt
        got = steps_after.get(ip)
        if got != nxt:
            sig = "step_advanced_on_unexpected_response" if (got != cur and nxt == cur) else (
                "reset_did_not_restart" if len(data) == 1 and cur != 14 else "step_differs_from_model")
            viol.append((sig, {**case, "expected_step": nxt, "impl_step": got}))
            self.mstep[ip] = got if got is not None else 0  # resync
        # other peers untouched
        for oip in set(steps_before) | set(steps_after):
            if oip != ip and steps_before.get(oip) != steps_after.get(oip):
                viol.append(("other_peer_step_changed", {**case, "peer": oip}))
        # requests
        if exp_sent is not None:
            if [o for o, _ in sent] != [REQ[r] for r in exp_sent]:
                viol.append(("requests_sent_differ_from_handshake", {**case, "expected": exp_sent}))
        for _, a in sent:
            if a != src:
                viol.append(("request_sent_to_other_peer", case))
                break
        # completion
        if len(new_done) != exp_done:
            viol.append(("completion_reported_%d_times_expected_%d" % (len(new_done), exp_done), case))
        elif exp_done:
            rec = self.storage.match_incoming(src)
            if rec is None or new_done[0] != rec.id:
                viol.append(("completion_reported_for_wrong_repeater", case))
            self.mdone[ip] = self.mdone.get(ip, 0) + 1
        # storage isolation: records of other peers unchanged
        snap_after = storage_snapshot(self.storage, RDAC_ATTRS)
        for rid, b in snap_before.items():
            a = snap_after.get(rid)
            if a is None:
                viol.append(("record_removed", case))
            elif a != b and b["address_in"] != src:
                viol.append(("other_peers_record_changed", {**case, "record": list(b["address_in"])}))
        self.obs = (kind, cur, nxt, tuple(len(o) for o, _ in sent), len(new_done))
        return viol

    def key(self):
        snap = storage_snapshot(self.storage, RDAC_ATTRS)
        recs = tuple(sorted((d["address_in"], d["dmr_id"], d["callsign"], d["serial"], tuple(sorted((k, repr(v)) for k, v in d["attrs"].items()))) for d in snap.values()))
        return (tuple(sorted(((repr(k_), v_) for k_, v_ in self.impl.step.items()))), tuple(sorted(self.mstep.items())), tuple(sorted(self.mdone.items())), recs, len(self.done),
                repr(canon(self.impl, skip=IMPL_SKIP)))


class RDACSystemV6(RDACSystem):
    # peers whose textual addresses share their last group / embed another peer's IPv4 address
    PEERS = [("2001:db8:a::1", 50002), ("2001:db8:b::1", 50002), ("::ffff:10.2.0.1", 50002), ("10.2.0.1", 50002)]
    KINDS = ["RESET0", "FULL_FD", "FULL_10", "GARBAGE"]


class RDACSystem3(RDACSystem):
    PEERS = [RA, RB, RC]
    # storage contents are a function of the step for this alphabet (no BARE_ variants), so the space stays ~16^3
    KINDS = ["RESET0", "FULL_FD", "FULL_10", "FULL_00", "FULL_FA", "GARBAGE"]


WHAT = {
    "served_unregistered_source": "acceptance / redirect / ping answer emitted for a source that never completed registration",
    "unregistered_request_not_answered_by_single_reject": "request from an unregistered source not answered by exactly the single-byte reject to the requester",
    "other_peers_record_changed": "a datagram from one peer changed another peer's record",
    "step_advanced_on_unexpected_response": "RDAC step advanced on a response that is not the one expected for the step",
    "other_peer_step_changed": "a datagram from one peer changed another peer's RDAC step",
}


def run(only=None):
    rep = Report("C18")
    SEAMS.install()
    Repeater.read_snmp_values = _stub_read_snmp_values
    rep.explanation = (
        "Breadth-first explicit-state search to fix-point of the real P2P and RDAC datagram handlers wired to a recording transport and a "
        "real RepeaterStorage; one transition = one datagram_received call; outputs are classified by the harness and compared with a "
        "reference model (registered-source set / 14-step table); every discovered state is rebuilt from its path on fresh objects."
    )
    rep.assumptions = [
        "Repeater.read_snmp_values replaced by a recording stub (network I/O), uuid4 by a counter",
        "RDAC step 14 is terminal: the documented design answers but does not restart a completed run on a one-byte reset",
        "RDAC peers are identified by IP (the step dictionary is keyed by IP), P2P sources by (IP, port)",
        "datagram alphabet: one member per dispatch branch + malformed members (see P2P_DGRAMS / RDAC_DGRAMS); request constants are transcribed literals",
    ]
    plan = [
        ("p2p_fixpoint_3sources", P2PSystem, None),
        ("p2p_fixpoint_counter_octet_at_maximum", P2PSystemEdge, None),
        ("p2p_fixpoint_ipv6_and_mapped_sources", P2PSystemV6, None),
        ("rdac_fixpoint_2peers", RDACSystem, None),
        ("rdac_ipv6_and_mapped_peers", RDACSystemV6, None),
    ]
    if rep.thorough():
        plan += [("p2p_fixpoint_4sources", P2PSystem4, None), ("rdac_fixpoint_3peers", RDACSystem3, None)]
    for name, cls, depth in plan:
        if only and name not in only:
            continue
        s = rep.sub(name, rule=f"BFS to fix-point, peers={cls.PEERS}, datagram classes={cls.KINDS}; non-trivial = distinct (class, outputs, step) observations")
        import time as _t
        res = explore.bfs(cls, max_depth=depth, log=rep.log, deadline=_t.perf_counter() + (900 if rep.thorough() else 300))  # safety net against a runaway search, not a budget
        explore.feed(s, res, WHAT, name=name, rep=rep)
        s.exhaustive = res.exhausted or depth is not None
        if res.capped:
            rep.internal_error(f"{name}: {res.capped} (search incomplete, no fix-point)")
        s.done()
        rep.bounds[name] = {"depth_completed": res.depth_completed, "fixpoint": res.exhausted, "states": res.states}
    # ---- scale: far more peers than the searches use --------------------------------------------------------
    if not only or "many_peers" in only:
        s = rep.sub("many_peers",
                    "two linear histories with the real handlers: (P2P) 1300 sources register, then each one pings and asks for DMR start-up: every "
                    "one is served, a source that never registered gets the single-byte reject; (RDAC) 300 peers each take the first three steps "
                    "of the identification, interleaved, then every peer's step is what its own datagrams imply and each completes its run once")
        try:
            SEAMS.uid = 0
            st = RepeaterStorage()
            tr = RecTransport()
            h_ = P2PDatagramProtocol(st, p2p_port=P2P_PORT, rdac_port=RDAC_PORT)
            h_.connection_made(tr)
            srcs = [(f"10.{10 + i // 250}.{i % 250}.9", 50000 + (i % 2)) for i in range(1300)]
            for a_ in srcs:
                h_.datagram_received(P2P_DGRAMS["REG"], a_)
            notserved = 0
            for i, a_ in enumerate(srcs):
                tr.sent = []
                h_.datagram_received(P2P_DGRAMS["PING"], a_)
                c1 = [classify_p2p(o, P2P_DGRAMS["PING"]) for o, _ in tr.sent]
                tr.sent = []
                h_.datagram_received(P2P_DGRAMS["DMR"], a_)
                c2 = [classify_p2p(o, P2P_DGRAMS["DMR"]) for o, _ in tr.sent]
                if c1 != ["ping_answer"] or c2 != ["acceptance", "redirect"]:
                    notserved += 1
                s.case(nontrivial=True, calls=2, outcome="p2p", sample={"source": list(a_)} if i == 0 else None)
            if notserved:
                s.violation("many_peers:registered_source_no_longer_served_after_many_others_registered", {"not_served": notserved, "of": len(srcs)},
                            "a source that completed registration is rejected or not answered once many other sources have registered")
            tr.sent = []
            h_.datagram_received(P2P_DGRAMS["PING"], ("10.99.0.1", 50000))
            if tr.sent != [(b"\x00", ("10.99.0.1", 50000))]:
                s.violation("many_peers:unregistered_request_not_answered_by_single_reject", {"sent": [o.hex() for o, _ in tr.sent]})
        except Exception as e:  # noqa: BLE001
            s.violation("many_peers:exception_p2p:" + exc_sig(e), {}, repr(e))
        try:
            SEAMS.uid = 0
            st = RepeaterStorage()
            tr = RecTransport()
            done = []
            r_ = RDACDatagramProtocol(st, callback=done.append)
            r_.connection_made(tr)
            peers = [(f"10.{20 + i // 250}.{i % 250}.5", RDAC_PORT) for i in range(300)]
            prefix3 = ["EMPTY", "FULL_FD", "FULL_10"]
            for k in prefix3:  # interleaved: all peers take step k before any takes step k+1
                for a_ in peers:
                    r_.datagram_received(RDAC_DGRAMS[k], a_)
            want_step = None
            bad = 0
            for a_ in peers:
                st_ = r_.step.get(a_[0])
                if want_step is None:
                    want_step = st_
                if st_ != want_step or st_ is None or st_ < 2:
                    bad += 1
            if bad:
                s.violation("many_peers:step_of_a_peer_lost_or_changed_by_other_peers", {"peers_with_other_step": bad, "of": len(peers), "expected_step": want_step},
                            "after identical interleaved prefixes the peers are not all at the same step")
            rest = ["FULL_00", "FULL_00", "FULL_10", "FULL_00", "FULL_10", "FULL_10", "FULL_00", "FULL_10", "FULL_00", "FULL_FA", "FULL_FA", "FULL_FA"]
            for i, a_ in enumerate(peers):
                n0 = len(done)
                for k in rest:
                    if r_.step.get(a_[0]) == 14:
                        break
                    r_.datagram_received(RDAC_DGRAMS[k], a_)
                if len(done) - n0 != 1 or r_.step.get(a_[0]) != 14:
                    s.violation("many_peers:run_not_completed_exactly_once", {"peer_index": i, "completions": len(done) - n0, "step": r_.step.get(a_[0])})
                    break
                s.case(nontrivial=True, calls=len(rest), outcome="rdac")
        except Exception as e:  # noqa: BLE001
            s.violation("many_peers:exception_rdac:" + exc_sig(e), {}, repr(e))
        s.done()
    return rep.finish()


def replay(doc):
    SEAMS.install()
    Repeater.read_snmp_values = _stub_read_snmp_values
    cls = {"p2p_fixpoint_3sources": P2PSystem, "p2p_fixpoint_4sources": P2PSystem4, "rdac_fixpoint_2peers": RDACSystem,
           "rdac_fixpoint_3peers": RDACSystem3, "p2p_fixpoint_counter_octet_at_maximum": P2PSystemEdge,
           "p2p_fixpoint_ipv6_and_mapped_sources": P2PSystemV6, "rdac_ipv6_and_mapped_peers": RDACSystemV6}[doc["check"]]
    bad = 0
    for c in doc.get("cases", []):
        s = cls(c["init"])
        for ev in c["path"]:
            v = s.step(tuple(ev))
            print("  ", ev, "->", s.obs, ("VIOLATIONS: " + repr([x[0] for x in v])) if v else "")
            bad += len(v)
    print("replay:", "still fails" if bad else "does not reproduce")
    return 1 if bad else 0

"""C11 -- Reed-Solomon (12,9,4): field multiply, generated words are codewords, checker accepts exactly them.

Technique: complete enumeration of stated finite spaces on the real ReedSolomon1294 functions
(E1, fault enumeration for the corruption part).

What is taken as the definition (ETSI TS 102 361-1 B.3.6, as cited in the library docstring and the
property statement): symbols are octets of GF(2^8) = GF(2)[x]/(x^8+x^4+x^3+x^2+1), alpha = 2; a 12-octet
word c_0..c_11 (9 message octets first, then 3 parity octets) is the polynomial sum c_i x^(11-i); it is a
codeword iff c(alpha^1) = c(alpha^2) = c(alpha^3) = 0, i.e. iff g(x) = x^3+14x^2+56x+64 divides it.  A
3-octet mask (B.3.12: 0x969696 voice LC header, 0x999999 terminator with LC) is xor-ed on the parity octets.
Oracle: mc/oracle/gf256.py (carry-less multiply mod 0x11D, Horner syndromes; the packed syndrome table
used for the multi-million-word sweeps is derived from that multiply and cross-validated at start-up).
The oracle reproduces the four on-air full-LC words quoted in the repository's unit test (anchor, see
_anchor()).
"""
from mc import env  # noqa: F401
from mc import par
from mc.report import Report, Acc, exc_sig
from mc.oracle import gf256

import itertools

from okdmr.dmrlib.etsi.fec.reed_solomon_12_9_4 import ReedSolomon1294 as RS

ST = gf256.SyndromeTable()

MASK_NONE = bytes(3)
MASK_VOICE_LC = bytes.fromhex("969696")  # B.3.12 voice LC header
MASK_TERMINATOR = bytes.fromhex("999999")  # B.3.12 terminator with LC

# fixed symbol alphabets (error values / message symbol values), all non-zero and pairwise distinct
A6 = (0x01, 0x02, 0x1D, 0x80, 0xFF, 0xA5)
A12 = (0x01, 0x02, 0x80, 0xFF, 0x1D, 0x0E, 0x38, 0x40, 0x55, 0xAA, 0x03, 0xFE)
A32 = tuple(
    [1 << i for i in range(8)]
    + [0xFF ^ (1 << i) for i in range(8)]
    + [0xFF, 0x1D, 0x0E, 0x38, 0x3A, 0x03, 0x55, 0xAA, 0x0F, 0xF0, 0x33, 0xCC, 0x1C, 0x8E, 0x47, 0xE1]
)
assert len(set(A6)) == 6 and len(set(A12)) == 12 and len(set(A32)) == 32 and 0 not in A32


def masks():
    """0, the two masks the standard defines for RS(12,9), all 24 single-bit masks, one seed mask"""
    out = [MASK_NONE, MASK_VOICE_LC, MASK_TERMINATOR]
    for i in range(24):
        out.append((1 << (23 - i)).to_bytes(3, "big"))
    sm = env.det_bytes("c11-mask", 3)
    k = 0
    while sm in out:  # seed value joins the fixed alphabet, never replaces a member
        k += 1
        sm = env.det_bytes(f"c11-mask-{k}", 3)
    out.append(sm)
    return out


def xor3(p, m):
    return bytes(a ^ b for a, b in zip(p, m))


def unmask(word, mask):
    return bytes(word[:9]) + xor3(word[9:12], mask)


def is_bytes12(x):
    return isinstance(x, (bytes, bytearray)) and len(x) == 12


def _anchor():
    """reference self-check against captured on-air words (data from okdmr/tests, not library code)"""
    gf256.self_test()
    ST.self_test()
    for h, m in (
        ("0300002635a903d475cb8795", MASK_VOICE_LC),
        ("03000003d4752635a96fed09", MASK_VOICE_LC),
        ("03000003d4752635a960e206", MASK_TERMINATOR),
        ("0300002635a903d475c4889a", MASK_TERMINATOR),
    ):
        w = unmask(bytes.fromhex(h), m)
        assert gf256.syndromes(w) == (0, 0, 0), h
        assert gf256.parity(w[:9]) == tuple(w[9:]), h


# ----------------------------------------------------------------------------------------------
# 1. field multiplication, all pairs
# ----------------------------------------------------------------------------------------------
def w_multiply(task):
    lo, hi = task
    acc = Acc()
    for a in range(lo, hi):
        for b in range(256):
            case = {"op": "mul", "a": a, "b": b}
            try:
                got = RS.log_multiply(a, b)
            except Exception as e:
                acc.violation("exception:" + exc_sig(e), case, repr(e))
                acc.case(nontrivial=bool(a and b))
                continue
            want = gf256.mul(a, b)
            if got != want:
                acc.violation("product_mismatch", {**case, "got": got, "want": want},
                              "log_multiply(a,b) differs from the GF(2^8) product modulo x^8+x^4+x^3+x^2+1")
            acc.case(nontrivial=bool(a and b), outcome=want, sample=case if (a == lo and b == 3) else None)
    return acc


# ----------------------------------------------------------------------------------------------
# 2. generate: codeword property, mask, check under same / other masks, additivity
# ----------------------------------------------------------------------------------------------
def single(pos, val):
    m = bytearray(9)
    m[pos] = val
    return bytes(m)


def basis_messages():
    """zero + the complete single-symbol basis (9 x 255) + all-0xFF + 8 seed words; ordered, distinct"""
    out = [bytes(9)]
    for p in range(9):
        for v in range(1, 256):
            out.append(single(p, v))
    out.append(b"\xff" * 9)
    seen = set(out)
    k = 0
    while len(out) < 1 + 9 * 255 + 1 + 8:
        w = env.det_bytes(f"c11-msg-{k}", 9)
        k += 1
        if w not in seen:
            seen.add(w)
            out.append(w)
    return out


def _gf_inv(a):
    return gf256.power(a, 254)


def _solve3(cols, target):
    """p with p0*cols[0] + p1*cols[1] + p2*cols[2] == target over GF(2^8) (Gauss-Jordan on the 3x3 system)"""
    m = [[cols[j][i] for j in range(3)] + [target[i]] for i in range(3)]
    for c in range(3):
        piv = next(r for r in range(c, 3) if m[r][c])
        m[c], m[piv] = m[piv], m[c]
        inv = _gf_inv(m[c][c])
        m[c] = [gf256.mul(v, inv) for v in m[c]]
        for r in range(3):
            if r != c and m[r][c]:
                f = m[r][c]
                m[r] = [v ^ gf256.mul(f, w) for v, w in zip(m[r], m[c])]
    return bytes(m[i][3] for i in range(3))


def register_state_messages():
    cols = [gf256.parity(bytes(1 if j == i else 0 for j in range(3))) for i in range(3)]
    seen, out = set(), []
    tail_seed = env.det_bytes("c11-regstate-tail", 8)
    for x in range(1, 256):
        for pat in range(1, 8):
            state = tuple(x if pat & (4 >> i) else 0 for i in range(3))
            p = _solve3(cols, state)
            assert tuple(gf256.parity(p)) == state
            for lead in (0, 2):
                for nxt in (0, x, 1, 0xFF, x ^ 0xFF):
                    for tail in (bytes(8), tail_seed):
                        m = (bytes(lead) + p + bytes([nxt]) + tail)[:9]
                        if m not in seen:
                            seen.add(m)
                            out.append(m)
    return out


def check_generate(acc, msg, mask, all_masks, horner=True):
    """one (message, mask) case; returns the library word or None"""
    case = {"op": "generate", "message": msg.hex(), "mask": mask.hex()}
    calls = 0
    try:
        calls += 1
        out = RS.generate(msg, mask)
    except Exception as e:
        acc.violation("exception_generate:" + exc_sig(e), case, repr(e))
        acc.case(calls=calls)
        return None
    ok = True
    if not is_bytes12(out):
        acc.violation("generate_length", {**case, "got": repr(out)[:80]}, "generate does not return 12 octets")
        acc.case(calls=calls)
        return None
    out = bytes(out)
    if out[:9] != msg:
        ok = False
        acc.violation("message_not_preserved", {**case, "got": out.hex()}, "first 9 octets of the word are not the message")
    um = unmask(out, mask)
    syn = gf256.syndromes(um) if horner else ST.packed(um)
    if syn != ((0, 0, 0) if horner else 0):
        ok = False
        acc.violation("generated_word_not_a_codeword",
                      {**case, "got": out.hex(), "want_parity": xor3(bytes(gf256.parity(msg)), mask).hex()},
                      "with the mask removed the word has a non-zero syndrome at alpha^1..alpha^3")
    for other in all_masks:
        try:
            calls += 1
            verdict = RS.check(out, other)
        except Exception as e:
            acc.violation("exception_check:" + exc_sig(e), {**case, "word": out.hex(), "check_mask": other.hex()}, repr(e))
            continue
        if other == mask:
            if ok and verdict is not True and verdict != True:  # noqa: E712
                acc.violation("own_output_rejected", {**case, "word": out.hex()}, "check(generate(m, mask), mask) is false")
        elif verdict:
            # oracle: the word unmasked with another mask differs from a codeword in <= 3 parity symbols
            if ST.packed(unmask(out, other)) != 0:
                acc.violation("accepted_under_other_mask", {**case, "word": out.hex(), "check_mask": other.hex()},
                              "a word generated under one mask is accepted under a different mask")
    acc.case(nontrivial=any(msg) or any(mask), calls=calls, outcome=um[9:12].hex()[:2],
             sample={**case, "word": out.hex()} if acc.n == 0 else None)
    return out


def w_generate_basis(task):
    msgs, all_masks = task
    acc = Acc()
    for msg in msgs:
        for mask in all_masks:
            check_generate(acc, msg, mask, all_masks)
        # default mask argument == no mask
        try:
            if bytes(RS.generate(msg)) != bytes(RS.generate(msg, MASK_NONE)):
                acc.violation("default_mask_not_zero", {"op": "generate", "message": msg.hex()},
                              "generate(m) differs from generate(m, 000000)")
        except Exception as e:
            acc.violation("exception_generate:" + exc_sig(e), {"op": "generate", "message": msg.hex()}, repr(e))
    return acc


def w_generate_pairs(task):
    """two-symbol messages at one position pair: va in values[lo:hi], vb over all values"""
    pq, values, lo, hi, std_masks = task
    return gen_pairs(pq, values[lo:hi], values, std_masks)


# ----------------------------------------------------------------------------------------------
# 3. check accepts exactly one parity triple per (message, mask)
# ----------------------------------------------------------------------------------------------
def w_parity_space(task):
    kind, msg, mask, lo, hi = task
    acc = Acc()
    good = xor3(bytes(gf256.parity(msg)), mask)  # oracle's parity, masked
    accepted = 0

    def one(par3):
        nonlocal accepted
        word = msg + par3
        case = {"op": "check", "word": word.hex(), "mask": mask.hex()}
        try:
            got = bool(RS.check(word, mask))
        except Exception as e:
            acc.violation("exception_check:" + exc_sig(e), case, repr(e))
            acc.case()
            return
        want = ST.packed(unmask(word, mask)) == 0
        if got:
            accepted += 1
        if got != want:
            acc.violation("accepts_non_codeword" if got else "rejects_codeword", case,
                          "checker verdict differs from 'syndromes of the unmasked word are zero'")
        acc.case(nontrivial=True, outcome=got, sample={**case, "accepted": got} if acc.n == 0 else None)

    if kind == "full":  # all 2^24 triples, range over the first two octets
        for hi16 in range(lo, hi):
            pre = hi16.to_bytes(2, "big")
            for last in range(256):
                one(pre + bytes([last]))
    else:  # all triples that differ from the right one in <= 2 positions, enumerated without repetition
        items = parity_le2_errors()[lo:hi]
        for err in items:
            one(xor3(good, err))
    return acc, accepted


_PLE2 = None


def parity_le2_errors():
    global _PLE2
    if _PLE2 is None:
        out = [bytes(3)]
        for i in range(3):
            for v in range(1, 256):
                e = bytearray(3)
                e[i] = v
                out.append(bytes(e))
        for i, j in ((0, 1), (0, 2), (1, 2)):
            for v in range(1, 256):
                for u in range(1, 256):
                    e = bytearray(3)
                    e[i] = v
                    e[j] = u
                    out.append(bytes(e))
        _PLE2 = out
    return _PLE2


# ----------------------------------------------------------------------------------------------
# 4. corruption of 1..3 symbols is always detected
# ----------------------------------------------------------------------------------------------
def w_corrupt(task):
    """task: (weight, word(bytes12, library-generated and oracle-validated), mask, list of position tuples, alphabet)"""
    weight, word, mask, combos, alpha = task
    acc = Acc()
    base = bytearray(word)
    for pos in combos:
        for vals in itertools.product(alpha, repeat=weight):
            w = bytearray(base)
            for p, v in zip(pos, vals):
                w[p] ^= v
            wb = bytes(w)
            case = {"op": "check", "word": wb.hex(), "mask": mask.hex(), "base": word.hex(), "positions": list(pos)}
            try:
                got = RS.check(wb, mask)
            except Exception as e:
                acc.violation("exception_check:" + exc_sig(e), case, repr(e))
                acc.case()
                continue
            if ST.packed(unmask(wb, mask)) == 0:
                # distance-4 code: cannot happen for 1..3 symbol errors; if it does the reference is wrong
                acc.violation("ORACLE_ERROR_corrupted_word_is_codeword", case, "checker bug: reference says a <=3-symbol error yields a codeword")
            elif got:
                acc.violation(f"corruption_of_{weight}_symbols_accepted", case,
                              "a generated word with 1..3 altered octets passes check()")
            acc.case(nontrivial=True, outcome=(weight, bool(got)), sample=case if acc.n == 0 else None)
    return acc


def run(only=None):
    rep = Report("C11")
    _anchor()
    thorough = rep.thorough()
    nw = env.workers()
    rep.explanation = (
        "Complete enumeration on the real ReedSolomon1294.log_multiply / generate / check: all 65 536 operand pairs; "
        "zero + complete single-symbol basis + two-symbol messages x masks; every parity triple within the stated set; "
        "every 1-, 2-, 3-symbol error pattern over the stated symbol alphabets on library-generated words. state = one "
        "enumerated case, transition = one real library call, every case is an implementation execution."
    )
    rep.assumptions = [
        "definition: GF(2^8) mod x^8+x^4+x^3+x^2+1, alpha=2, word c_0..c_11 = sum c_i x^(11-i), codeword iff zero "
        "syndromes at alpha^1..alpha^3 (g = x^3+14x^2+56x+64), mask xor-ed on the three parity octets "
        "(ETSI TS 102 361-1 B.3.6/B.3.12); reference arithmetic in mc/oracle/gf256.py, anchored on 4 captured on-air words",
        "masks are passed as 3 octets big-endian, as the repository's unit test and full_link_control.py do",
        "CPython semantics; asserts enabled (no python -O)",
    ]
    all_masks = masks()

    def want(name):
        return only is None or name in only

    # 1 ---------------------------------------------------------------------------------------
    if want("multiply_all_pairs"):
        s = rep.sub("multiply_all_pairs", "all 256x256 operand pairs of log_multiply against carry-less multiply mod 0x11D; "
                                          "non-trivial: both operands non-zero (65 025)")
        s.declared = 65536
        for acc in par.pmap(w_multiply, par.chunks(256, 64), nw):
            s.merge(acc)
        s.done()

    # 2 ---------------------------------------------------------------------------------------
    if want("generate_basis_x_masks"):
        msgs = basis_messages()
        s = rep.sub("generate_basis_x_masks",
                    "messages {0, all 9x255 single-symbol words, ff*9, 8 seed words} x masks {0, 969696, 999999, 24 single-bit, "
                    "1 seed}: word = message + parity, zero Horner syndromes after unmasking, accepted under its own mask, "
                    "rejected under each of the other 27 masks; non-trivial: message or mask non-zero")
        s.declared = len(msgs) * len(all_masks)
        tasks = [(chunk, all_masks) for chunk in par.split_list(msgs, 96)]
        for acc in par.pmap(w_generate_basis, tasks, nw):
            s.merge(acc)
        s.extra["messages"] = len(msgs)
        s.extra["masks"] = len(all_masks)
        s.done()

    if want("generate_two_symbol_messages"):
        values = tuple(range(1, 256)) if thorough else A6
        pairs = list(itertools.combinations(range(9), 2))
        s = rep.sub("generate_two_symbol_messages",
                    "all 36 position pairs x V x V two-symbol messages (V = all 255 non-zero symbols in thorough, "
                    f"{list(A6)} in quick): codeword (packed syndromes), additivity generate(a^b) = generate(a)^generate(b), "
                    "mask = xor on parity for 969696/999999; every message distinct")
        s.declared = len(pairs) * len(values) ** 2
        std = (MASK_VOICE_LC, MASK_TERMINATOR)
        tasks = [(pq, values, lo, hi, std) for pq in pairs for lo, hi in par.chunks(len(values), 8 if thorough else 1)]
        for acc in par.pmap(w_generate_pairs, tasks, nw):
            s.merge(acc)
        s.done()

    if want("generate_division_register_states"):
        s = rep.sub("generate_division_register_states",
                    "the encoder is a 3-cell division register over GF(2^8): messages that drive it (by the reference's own long division, solved for the "
                    "3-octet prefix) into every state with one distinct non-zero value x in any subset of the cells (7 patterns x 255 values), after 0 or 2 "
                    "leading zero octets, followed by the next octet 0 / x / 1 / ff / ~x and a zero or seed tail: word = message + parity with zero "
                    "syndromes (a shortcut taken in a special register state - 'nothing to update' - shows here; among these are all messages whose "
                    "prefix is itself a multiple of g(x))")
        msgs = register_state_messages()
        s.declared = len(msgs)

        def w_states(chunk):
            acc = Acc()
            for m in chunk:
                check_generate(acc, m, MASK_NONE, (MASK_NONE,), horner=False)
            return acc

        for acc in par.pmap(w_states, par.split_list(msgs, 64), nw):
            s.merge(acc)
        s.done()

    # 3 ---------------------------------------------------------------------------------------
    if want("check_accepts_exactly_one_parity"):
        msg = env.det_bytes("c11-parity-msg", 9)
        s = rep.sub("check_accepts_exactly_one_parity",
                    ("all 2^24 parity triples" if thorough else "all 195 841 parity triples within <=2 symbols of the right one")
                    + " after one seed message under mask 969696 (+ the <=2-symbol set for the zero message under mask 0): "
                      "verdict == zero syndromes, exactly one triple accepted")
        tasks = []
        n_le2 = len(parity_le2_errors())
        assert n_le2 == 1 + 3 * 255 + 3 * 255 * 255
        decl = 0
        if thorough:
            tasks += [("full", msg, MASK_VOICE_LC, lo, hi) for lo, hi in par.chunks(65536, 256)]
            decl += 1 << 24
        else:
            tasks += [("le2", msg, MASK_VOICE_LC, lo, hi) for lo, hi in par.chunks(n_le2, 64)]
            decl += n_le2
        tasks += [("le2", bytes(9), MASK_NONE, lo, hi) for lo, hi in par.chunks(n_le2, 64)]
        decl += n_le2
        s.declared = decl
        accepted = {}
        for t, (acc, a) in zip(tasks, par.pmap(w_parity_space, tasks, nw)):
            s.merge(acc)
            key = t[1].hex() + "/" + t[2].hex()
            accepted[key] = accepted.get(key, 0) + a
        for key, a in accepted.items():
            if a != 1:
                s.violation("accepted_parity_count", {"message/mask": key, "accepted": a},
                            "number of accepted parity triples for one message is not exactly 1")
        s.extra["accepted"] = accepted
        s.done()

    # 4 ---------------------------------------------------------------------------------------
    if want("corruption_1_to_3_symbols"):
        nbase = 12 if thorough else 2
        bases = []
        fixed = [(bytes(9), MASK_TERMINATOR), (env.det_bytes("c11-base-0", 9), MASK_VOICE_LC), (b"\xff" * 9, MASK_NONE)]
        k = 1
        while len(fixed) < nbase:
            fixed.append((env.det_bytes(f"c11-base-{k}", 9), (MASK_NONE, MASK_VOICE_LC, MASK_TERMINATOR)[k % 3]))
            k += 1
        s = rep.sub("corruption_1_to_3_symbols",
                    f"{nbase} library-generated words (zero message, seed messages; masks 0/969696/999999) x all 12x255 "
                    "1-symbol errors, all C(12,2) position pairs x "
                    + ("255^2" if thorough else "32^2 (fixed 32-value alphabet)")
                    + " 2-symbol errors, all C(12,3) triples x 12^3 (fixed 12-value alphabet) 3-symbol errors; every "
                      "pattern distinct and non-trivial; check() must reject")
        a2 = tuple(range(1, 256)) if thorough else A32
        c1 = list(itertools.combinations(range(12), 1))
        c2 = list(itertools.combinations(range(12), 2))
        c3 = list(itertools.combinations(range(12), 3))
        tasks = []
        decl = 0
        for msg, mask in fixed[:nbase]:
            try:
                word = bytes(RS.generate(msg, mask))
            except Exception as e:
                s.violation("exception_generate:" + exc_sig(e), {"op": "generate", "message": msg.hex(), "mask": mask.hex()}, repr(e))
                continue
            if len(word) != 12 or ST.packed(unmask(word, mask)) != 0:
                # reported by sub-check 2's signature as well; corrupting a non-codeword proves nothing
                s.violation("generated_word_not_a_codeword", {"op": "generate", "message": msg.hex(), "mask": mask.hex(), "got": word.hex()})
                word = msg + xor3(bytes(gf256.parity(msg)), mask)
            bases.append(word.hex())
            tasks += [(1, word, mask, ch, tuple(range(1, 256))) for ch in par.split_list(c1, 4)]
            tasks += [(2, word, mask, ch, a2) for ch in par.split_list(c2, 66 if thorough else 22)]
            tasks += [(3, word, mask, ch, A12) for ch in par.split_list(c3, 44)]
            decl += 12 * 255 + 66 * len(a2) ** 2 + 220 * 12 ** 3
        s.declared = decl
        for acc in par.pmap(w_corrupt, tasks, nw):
            s.merge(acc)
        s.extra["base_words"] = bases
        s.done()


    if want("argument_containers_and_histories"):
        s = rep.sub("argument_containers_and_histories",
                    "basis + seed messages x 3 masks with message / mask / word handed over as bytearray: same parity, same verdict, "
                    "arguments unchanged; every public function x 9 out-of-range arguments followed by valid generate / check / "
                    "multiply calls (reference results); generate / check / multiply called again and again in one process (depth 3, "
                    "or 2^16+256 when a call is seen to leave class/module data changed, and always in the thorough tier)")
        msgs = [bytes(9), bytes([0xFF] * 9)] + [single(p_, v) for p_ in range(9) for v in (0x01, 0x80, 0xFF)] + [env.det_bytes(f"c11-cont-{i}", 9) for i in range(4)]
        for msg in msgs:
            for mask in (MASK_NONE, MASK_VOICE_LC, MASK_TERMINATOR):
                case = {"message": msg.hex(), "mask": mask.hex()}
                try:
                    want_word = msg + xor3(bytes(gf256.parity(msg)), mask)
                    a_, m_ = bytearray(msg), bytearray(mask)
                    got = bytes(RS.generate(a_, m_))
                    if got != want_word:
                        s.violation("generate_differs_for_bytearray_arguments", {**case, "got": got.hex()})
                    if bytes(a_) != msg or bytes(m_) != mask:
                        s.violation("generate_alters_bytearray_argument", case)
                    w_, m_ = bytearray(want_word), bytearray(mask)
                    if RS.check(w_, m_) is not True:
                        s.violation("check_rejects_codeword_in_bytearray", case)
                    bad = bytearray(want_word)
                    bad[3] ^= 0x40
                    if RS.check(bad, m_) is not False:
                        s.violation("check_accepts_corrupted_word_in_bytearray", case)
                    if bytes(w_) != want_word or bytes(m_) != mask:
                        s.violation("check_alters_bytearray_argument", case)
                except Exception as e:  # noqa: BLE001
                    s.violation("exception_bytearray_arguments:" + exc_sig(e), case, repr(e))
                s.case(nontrivial=True, calls=3, outcome=mask.hex(), sample=case if len(s.samples) < 1 else None)
        from mc import hist
        import okdmr.dmrlib.etsi.fec.reed_solomon_12_9_4 as _mrs
        pmsg = env.det_bytes("c11-oor", 9)
        pword = pmsg + xor3(bytes(gf256.parity(pmsg)), MASK_VOICE_LC)
        pbad = bytes([pword[0] ^ 1]) + pword[1:]
        probes = [
            ("generate", lambda: bytes(RS.generate(pmsg, MASK_VOICE_LC))),
            ("generate_default_mask", lambda: bytes(RS.generate(pmsg))),
            ("check_codeword", lambda: RS.check(pword, MASK_VOICE_LC)),
            ("check_corrupted", lambda: RS.check(pbad, MASK_VOICE_LC)),
            ("multiply", lambda: tuple(RS.log_multiply(a, b) for a, b in ((0, 7), (1, 255), (0x80, 0x1D), (255, 255), (2, 0x8E)))),
        ]
        funcs = {
            "generate": RS.generate, "check": lambda a: RS.check(a, MASK_NONE), "check_mask": lambda a: RS.check(pword, a),
            "generate_mask": lambda a: RS.generate(pmsg, a), "xor_bytes": lambda a: RS.xor_bytes(a, b"\x01\x02\x03"),
            "log_multiply": lambda a: RS.log_multiply(a, 3),
        }
        bad_args = [
            ("empty", lambda: b""), ("bytes_8", lambda: bytes(8)), ("bytes_10", lambda: bytes(range(10))), ("bytes_13", lambda: bytes(range(13))),
            ("bytes_2", lambda: b"\x01\x02"), ("int_256", lambda: 256), ("int_minus_1", lambda: -1), ("str", lambda: "123456789"), ("none", lambda: None),
        ]
        hist.poisoned_histories(s, funcs, bad_args, probes)
        s.declared = None
        hist.kept_results(s, "generate", [({"message": m_.hex()}, (lambda m_=m_: RS.generate(m_, MASK_VOICE_LC))) for m_ in msgs], obs=lambda r: bytes(r).hex())
        # the caller holds message / word / mask in ONE bytearray each, overwritten in place between calls
        rms = [env.det_bytes("c11-reuse", 9)]
        for pos in (0, 8, 4):
            rms.append(rms[-1][:pos] + bytes([rms[-1][pos] ^ 0x01]) + rms[-1][pos + 1:])
        rms += [rms[0][:8] + bytes([i]) for i in range(6)] + [rms[0]]
        rws = [m_ + xor3(bytes(gf256.parity(m_)), MASK_VOICE_LC) for m_ in rms]
        rws_bad = [w_ if i % 2 == 0 else bytes([w_[0] ^ 0x10]) + w_[1:] for i, w_ in enumerate(rws)]
        hist.reused_buffer(s, "rs", [
            ("generate", (lambda b: bytes(RS.generate(b, MASK_VOICE_LC))), [bytearray(m_) for m_ in rms], list(rws)),
            ("generate_default_mask", (lambda b: bytes(RS.generate(b))), [bytearray(m_) for m_ in rms], None),
            ("check", (lambda b: RS.check(b, MASK_VOICE_LC)), [bytearray(w_) for w_ in rws_bad], [i % 2 == 0 for i in range(len(rws_bad))]),
            ("mask_in_reused_buffer", (lambda b: bytes(RS.generate(rms[0], b))), [bytearray(x) for x in (MASK_NONE, MASK_VOICE_LC, MASK_TERMINATOR, b"\x01\x02\x03", MASK_NONE)],
             [rms[0] + xor3(bytes(gf256.parity(rms[0])), x) for x in (MASK_NONE, MASK_VOICE_LC, MASK_TERMINATOR, b"\x01\x02\x03", MASK_NONE)]),
        ], obs=lambda r: r.hex() if isinstance(r, bytes) else repr(r))
        hist.long_history(s, [RS, _mrs], probes, always=thorough)
        hist.picklable_entry_points(s, {"generate": RS.generate, "check": RS.check, "log_multiply": RS.log_multiply, "xor_bytes": RS.xor_bytes})
        hist.many_distinct_inputs(s, [RS, _mrs], [
            ("generate", lambda i: (i * 0x9E3779B97F4A7C15 + 1).to_bytes(12, "big")[-9:], lambda m_: bytes(RS.generate(m_, MASK_TERMINATOR))),
            ("check", lambda i: (lambda m_: m_ + xor3(bytes(gf256.parity(m_)), MASK_VOICE_LC))((i * 0x9E3779B97F4A7C15 + 7).to_bytes(12, "big")[-9:]), lambda w_: RS.check(w_, MASK_VOICE_LC)),
        ], always=thorough)
        s.done()

    rep.bounds = {
        "multiply": "all 65 536 pairs",
        "messages": "zero, all single-symbol, two-symbol (quick 6x6 values, thorough all 255x255), 8 seed words; not all 2^72 "
                    "(extrapolation: GF-linearity of the LFSR, checked as additivity on all these pairs)",
        "masks": "0, 969696, 999999, 24 single-bit, 1 seed",
        "corruption": "all 1-symbol; 2-symbol over 32 values (quick) / all values (thorough); 3-symbol over a 12-value alphabet; "
                      + ("12" if thorough else "2") + " base words",
    }
    return rep.finish()


def gen_pairs(pq, va_values, vb_values, std_masks):
    """codeword property (mask 0 and the two standard masks) + additivity for messages with symbols at positions pq"""
    p, q = pq
    acc = Acc()
    for va in va_values:
        a = single(p, va)
        try:
            ga = bytes(RS.generate(a, MASK_NONE))
        except Exception as e:
            acc.violation("exception_generate:" + exc_sig(e), {"op": "generate", "message": a.hex(), "mask": "000000"}, repr(e))
            ga = None
        for vb in vb_values:
            b = single(q, vb)
            ab = bytes(x ^ y for x, y in zip(a, b))
            case = {"op": "generate", "message": ab.hex(), "mask": "000000"}
            calls = 0
            try:
                calls += 2
                gb = bytes(RS.generate(b, MASK_NONE))
                gab = RS.generate(ab, MASK_NONE)
                if not is_bytes12(gab):
                    acc.violation("generate_length", case, "generate does not return 12 octets")
                    acc.case(calls=calls)
                    continue
                gab = bytes(gab)
                if gab[:9] != ab:
                    acc.violation("message_not_preserved", {**case, "got": gab.hex()})
                if ST.packed(gab) != 0:
                    acc.violation("generated_word_not_a_codeword", {**case, "got": gab.hex(),
                                  "want_parity": bytes(gf256.parity(ab)).hex()},
                                  "with the mask removed the word has a non-zero syndrome at alpha^1..alpha^3")
                if ga is not None and gab != bytes(x ^ y for x, y in zip(ga, gb)):
                    acc.violation("not_additive", {**case, "a": a.hex(), "b": b.hex()},
                                  "generate(a xor b) != generate(a) xor generate(b) (mask 0)")
                for mk in std_masks:
                    calls += 2
                    gm = bytes(RS.generate(ab, mk))
                    if gm != gab[:9] + xor3(gab[9:], mk):
                        acc.violation("mask_not_xor_on_parity", {**case, "mask": mk.hex(), "got": gm.hex()},
                                      "masked word is not the unmasked word with the mask xor-ed on the parity octets")
                    if not RS.check(gm, mk):
                        acc.violation("own_output_rejected", {**case, "mask": mk.hex(), "word": gm.hex()})
            except Exception as e:
                acc.violation("exception_generate:" + exc_sig(e), case, repr(e))
            acc.case(nontrivial=True, calls=calls, outcome=(p, q), sample=case if acc.n == 0 else None)
    return acc


def replay(doc):
    """re-run the stored cases on the current tree and print library vs reference"""
    bad = 0
    for c in doc.get("cases", []):
        op = c.get("op")
        try:
            if op == "mul":
                got, want = RS.log_multiply(c["a"], c["b"]), gf256.mul(c["a"], c["b"])
                print(f"log_multiply({c['a']},{c['b']}) = {got}, reference {want}")
                bad |= got != want
            elif op == "generate":
                msg, mask = bytes.fromhex(c["message"]), bytes.fromhex(c["mask"])
                got = bytes(RS.generate(msg, mask))
                want = msg + xor3(bytes(gf256.parity(msg)), mask)
                print(f"generate({msg.hex()},{mask.hex()}) = {got.hex()}, reference {want.hex()}, syndromes {gf256.syndromes(unmask(got, mask))}")
                bad |= got != want
            elif op == "check":
                word, mask = bytes.fromhex(c["word"]), bytes.fromhex(c["mask"])
                got = bool(RS.check(word, mask))
                want = gf256.syndromes(unmask(word, mask)) == (0, 0, 0)
                print(f"check({word.hex()},{mask.hex()}) = {got}, reference {want}")
                bad |= got != want
            else:
                print("case without op:", c)
        except Exception as e:
            print("exception", repr(e), "on", c)
            bad = 1
    return 1 if bad else 0

"""C09 -- variable-length BPTCs: (32,11) single burst / reverse channel, (128,72) embedded LC, (68,28) CACH short LC.

Technique: exhaustive bounded enumeration on the real encoders/extractors.
  * (32,11): ALL 2^11 messages x both parity rules (complete).
  * (128,72): all messages of weight <= 2 (thorough: <= 3) and complements; because the 5-bit checksum is NOT
    linear (sum of the 9 octets mod 31): every octet position x all 256 values on every background, every pair of
    positions x {00,1E,1F,20,3D,3E,3F,FF}^2 (thorough: every pair of positions x all 256^2 values).
  * (68,28): all messages of weight <= 3 (thorough: <= 5) and complements (CRC-8 is linear).
  VERIF_SEED only adds background fillers / extra messages to these fixed, completely enumerated sets.

Oracle (independent, written here from ETSI TS 102 361-1 B.2.1-B.2.3, B.3.7, B.3.11; validated at import against
the on-air vectors quoted in the repository's tests, which are data, not code):
  * transmit layouts: (128,72) 8x16 and (68,28) 4x17 matrices sent column by column (tx = col*rows + row);
    (32,11) 2x16 matrix with Interleave Index = Index*17 mod 32, Index counting the matrix column by column;
  * data rows are Hamming(16,11,4) = extended cyclic (15,11) with x^4+x+1, resp. Hamming(17,12,3) = multiples of
    x^5+x^2+1 (mc/oracle/gf2.py; C06 establishes these are the ETSI matrices); last row = column parity;
  * CS5 = (sum of the 9 octets) mod 31, CS(4) (msb) in row 3 ... CS(0) in row 7, column 11;
    CRC-8 = remainder of m(x)*x^8 by x^8+x^2+x+1, CR(7) first in row 3 columns 5..12.
What the statement asks of the checksum is relational (library extractor == library computation); the library
presents CS5 msb-first and CRC-8 lsb-first (test_vbptc_128_72 / test_vbptc_68_36) -- these presentations are used.
The library's computation is additionally compared with the reference arithmetic above.
"""
from mc import env  # noqa: F401
from mc import par, spaces, hist
from mc.report import Report, Acc, exc_sig
from mc.oracle import gf2

import itertools

from bitarray import bitarray

from okdmr.dmrlib.etsi.fec.vbptc_128_72 import VBPTC12873
from okdmr.dmrlib.etsi.fec.vbptc_68_28 import VBPTC6828
from okdmr.dmrlib.etsi.fec.vbptc_32_11 import VBPTC3211
from okdmr.dmrlib.etsi.fec.five_bit_checksum import FiveBitChecksum
from okdmr.dmrlib.etsi.crc.crc8 import CRC8

G4 = 0b10011  # x^4+x+1
G5 = 0b100101  # x^5+x^2+1
G_CRC8 = 0x107  # x^8+x^2+x+1


# ----------------------------------------------------------------------------------------------
# independent references
# ----------------------------------------------------------------------------------------------
def tx128(r, c):
    return c * 8 + r


def tx68(r, c):
    return c * 4 + r


def tx32(r, c):
    return (17 * (2 * c + r)) % 32


# information cells in message order
INFO128 = [(0, c) for c in range(11)] + [(1, c) for c in range(11)] + [(r, c) for r in range(2, 7) for c in range(10)]
CS128 = [(r, 10) for r in range(2, 7)]  # CS(4) .. CS(0)
INFO68 = [(0, c) for c in range(12)] + [(1, c) for c in range(12)] + [(2, c) for c in range(4)]
CRC68 = [(2, c) for c in range(4, 12)]  # CR(7) .. CR(0)
INFO32 = [(0, c) for c in range(11)]
assert (len(INFO128), len(INFO68), len(INFO32)) == (72, 28, 11)


def ref_cs5(m: str) -> int:
    return sum(int(m[i:i + 8], 2) for i in range(0, 72, 8)) % 31


def ref_crc8(m: str) -> int:
    return gf2.crc_remainder(m, G_CRC8)


def h16(v11: int) -> str:
    return format(gf2.encode_systematic(v11, 16, 11, G4, True), "016b")


def h17(v12: int) -> str:
    return format(gf2.encode_systematic(v12, 17, 12, G5, False), "017b")


def _emit(M, rows, cols, tx):
    out = ["0"] * (rows * cols)
    for r in range(rows):
        for c in range(cols):
            out[tx(r, c)] = str(M[r][c])
    return "".join(out)


def ref_encode128(m: str) -> str:
    M = [[0] * 16 for _ in range(8)]
    for b, (r, c) in zip(m, INFO128):
        M[r][c] = int(b)
    for b, (r, c) in zip(format(ref_cs5(m), "05b"), CS128):
        M[r][c] = int(b)
    for r in range(7):
        M[r] = [int(x) for x in h16(int("".join(map(str, M[r][:11])), 2))]
    for c in range(16):
        M[7][c] = sum(M[r][c] for r in range(7)) & 1
    return _emit(M, 8, 16, tx128)


def ref_encode68(m: str) -> str:
    M = [[0] * 17 for _ in range(4)]
    for b, (r, c) in zip(m, INFO68):
        M[r][c] = int(b)
    for b, (r, c) in zip(format(ref_crc8(m), "08b"), CRC68):
        M[r][c] = int(b)
    for r in range(3):
        M[r] = [int(x) for x in h17(int("".join(map(str, M[r][:12])), 2))]
    for c in range(17):
        M[3][c] = sum(M[r][c] for r in range(3)) & 1
    return _emit(M, 4, 17, tx68)


def ref_encode32(m: str, even: bool) -> str:
    M = [[0] * 16 for _ in range(2)]
    M[0] = [int(x) for x in h16(int(m, 2))]
    M[1] = [b if even else 1 - b for b in M[0]]
    return _emit(M, 2, 16, tx32)


def matrix(enc: str, rows, cols, tx):
    return [[enc[tx(r, c)] for c in range(cols)] for r in range(rows)]


def structure_faults(code, enc: str, m: str, even=True):
    """which parts of the definition the transmitted bits violate for message m (checksum cells are NOT judged)"""
    f = []
    if code == 128:
        M = matrix(enc, 8, 16, tx128)
        info, nrow = INFO128, 7
        rowok = lambda row: h16(int(row[:11], 2)) == row  # noqa: E731
    elif code == 68:
        M = matrix(enc, 4, 17, tx68)
        info, nrow = INFO68, 3
        rowok = lambda row: gf2.pmod(int(row, 2), G5) == 0  # noqa: E731
    else:
        M = matrix(enc, 2, 16, tx32)
        info, nrow = INFO32, 1
        rowok = lambda row: h16(int(row[:11], 2)) == row  # noqa: E731
    if any(M[r][c] != b for b, (r, c) in zip(m, info)):
        f.append("info_bit_misplaced")
    if not all(rowok("".join(M[r])) for r in range(nrow)):
        f.append("row_not_hamming")
    want = 0 if even else 1
    if any(sum(int(M[r][c]) for r in range(len(M))) & 1 != want for c in range(len(M[0]))):
        f.append("column_parity_rule")
    return f, M


def _selftest_reference():
    """the reference layouts against on-air captures (data quoted in the repo's tests)"""
    v = "00001010000000000000001100001010000101110000101000000110000001010000110000010001001000100000000000000101001000100011111100111010"
    M = matrix(v, 8, 16, tx128)
    m = "".join(M[r][c] for r, c in INFO128)
    assert ref_encode128(m) == v
    for v in ("00000000000010010000000000000011000000110011000010011001101000000000",
              "00110000001110010011000000110000010101011010111111110101011010101001"):
        M = matrix(v, 4, 17, tx68)
        assert ref_encode68("".join(M[r][c] for r, c in INFO68)) == v
    v = "00000100010110000000100010100100"
    M = matrix(v, 2, 16, tx32)
    assert ref_encode32("".join(M[0][:11]), True) == v


_selftest_reference()


# ----------------------------------------------------------------------------------------------
# per-message obligations (used by workers and by replay)
# ----------------------------------------------------------------------------------------------
def check32(m: str, even: bool, acc: Acc, sample=False):
    case = {"code": "32_11", "message": m, "even_parity": even}
    calls = 0
    outcome = "ok"
    try:
        enc = VBPTC3211.encode(bitarray(m), even)
        calls += 1
        if len(enc) != 32:
            acc.violation("sb32_encode_length", {**case, "len": len(enc)}, "encoder output is not 32 bits")
            acc.case(calls=calls)
            return
        e = enc.to01()
        if e != ref_encode32(m, even):
            faults, _ = structure_faults(32, e, m, even)
            for f in faults or ["differs_from_reference"]:
                acc.violation("sb32_" + f, {**case, "got": e, "want": ref_encode32(m, even)},
                              "transmitted (32,11) bits violate the code definition")
            outcome = "structure"
        d = VBPTC3211.deinterleave_data_bits(enc)
        calls += 1
        if d.to01() != m:
            acc.violation("sb32_extractor_returns_other_message", {**case, "decoded": d.to01()},
                          "deinterleave_data_bits(encode(m)) != m")
        full = VBPTC3211.deinterleave_all_bits(enc)
        e2 = VBPTC3211.encode(full, even)
        calls += 2
        if len(full) != 32 or e2.to01() != e:
            acc.violation("sb32_reencode_of_full_matrix_differs", case, "encode(deinterleave_all_bits(encode(m))) != encode(m)")
        # the matrix of one parity variant handed to the encoder with the other variant requested: the message in it, encoded as requested
        e3 = VBPTC3211.encode(VBPTC3211.deinterleave_all_bits(enc), not even)
        calls += 2
        if e3.to01() != ref_encode32(m, not even):
            acc.violation("sb32_matrix_form_ignores_the_requested_parity_variant", {**case, "got": e3.to01(), "want": ref_encode32(m, not even)},
                          "encode(matrix of the even codeword, even_parity=False) is not the odd codeword of the same message (or vice versa)")
        if even:
            # the same two calls with the parity argument left out on both sides (the documented default: even parity)
            e4 = VBPTC3211.encode(bitarray(m))
            e5 = VBPTC3211.encode(VBPTC3211.deinterleave_all_bits(e4))
            calls += 3
            if e4.to01() != e:
                acc.violation("sb32_default_parity_is_not_even", {**case, "got": e4.to01()}, "encode(m) without the parity argument is not the even-parity codeword")
            if e5.to01() != e4.to01():
                acc.violation("sb32_reencode_of_full_matrix_differs_with_parity_argument_left_out", {**case, "message_form": e4.to01(), "matrix_form": e5.to01()},
                              "encode(deinterleave_all_bits(encode(m))) != encode(m) when both calls leave the parity argument at its default")
    except Exception as ex:
        acc.violation("exception:" + exc_sig(ex), case, repr(ex))
    acc.case(nontrivial=True, calls=calls, outcome=(outcome, even), sample=case if sample else None)


def check128(m: str, acc: Acc, sample=False, light=False):
    """light: encode + extractors only (used for the 256^2 octet-pair sweep)"""
    case = {"code": "128_72", "message": m}
    calls = 0
    outcome = "?"
    try:
        mb = bitarray(m)
        enc = VBPTC12873.encode(mb)
        calls += 1
        if len(enc) != 128:
            acc.violation("emb128_encode_length", {**case, "len": len(enc)}, "encoder output is not 128 bits")
            acc.case(calls=calls)
            return
        e = enc.to01()
        faults, M = structure_faults(128, e, m)
        for f in faults:
            acc.violation("emb128_" + f, {**case, "got": e, "want": ref_encode128(m)}, "transmitted (128,72) bits violate the code definition")
        d = VBPTC12873.deinterleave_data_bits(enc, include_cs5=False)
        calls += 1
        if d.to01() != m:
            acc.violation("emb128_extractor_returns_other_message", {**case, "decoded": d.to01()},
                          "deinterleave_data_bits(encode(m), include_cs5=False) != m")
        # checksum: library extractor vs library computation (the statement), library computation vs reference
        cs_read = VBPTC12873.deinterleave_cs5_bits(enc).to01()
        cs_lib = FiveBitChecksum.calculate(mb.tobytes())
        calls += 2
        cs_ref = ref_cs5(m)
        if cs_lib != cs_ref:
            acc.violation("cs5_calculate_differs_from_reference", {**case, "library": cs_lib, "reference": cs_ref},
                          "FiveBitChecksum.calculate != (sum of the 9 octets) mod 31")
        # ... and the library's own verification of the checksum it reads back accepts it (and nothing else)
        if len(cs_read) == 5 and int(cs_read, 2) < 31:
            try:
                calls += 2
                if FiveBitChecksum.verify(mb.tobytes(), int(cs_read, 2)) is not True and int(cs_read, 2) == cs_ref:
                    acc.violation("cs5_verify_rejects_the_checksum_of_the_message", {**case, "checksum": cs_ref})
                if FiveBitChecksum.verify(mb.tobytes(), (cs_ref + 1) % 31):
                    acc.violation("cs5_verify_accepts_another_checksum", {**case, "checksum": (cs_ref + 1) % 31})
            except Exception as e:  # noqa: BLE001
                acc.violation("cs5_verify_exception:" + exc_sig(e), {**case, "checksum": cs_ref}, repr(e))
        palin = format(cs_lib, "05b") == format(cs_lib, "05b")[::-1] if 0 <= cs_lib < 32 else False
        if len(cs_read) != 5 or int(cs_read, 2) != cs_lib:
            rev = len(cs_read) == 5 and int(cs_read[::-1], 2) == cs_lib
            acc.violation("cs5_readback_bit_reversed" if rev else "cs5_readback_differs_from_library_checksum",
                          {**case, "read_back": cs_read, "computed": cs_lib},
                          "deinterleave_cs5_bits(encode(m)) is not the checksum the library computes over m")
            outcome = "cs5_reversed" if rev else "cs5_wrong"
        else:
            outcome = ("cs5_ok_palindrome" if palin else "cs5_ok_order_sensitive") + f":{cs_lib}"
        on_air = "".join(M[r][c] for r, c in CS128)
        if on_air != format(cs_ref, "05b"):
            outcome += "|on_air_not_etsi_order"  # observation only: the statement is relational
        if not light:
            d77 = VBPTC12873.deinterleave_data_bits(enc, include_cs5=True)
            calls += 1
            if len(d77) != 77 or d77.to01() != m + cs_read:
                acc.violation("emb128_extractor_with_cs5_inconsistent", case,
                              "deinterleave_data_bits(include_cs5=True) != message || deinterleave_cs5_bits")
            e77 = VBPTC12873.encode(bitarray(m + cs_read)) if len(cs_read) == 5 else None
            full = VBPTC12873.deinterleave_all_bits(enc)
            efull = VBPTC12873.encode(full)
            calls += 3
            if e77 is not None and e77.to01() != e:
                acc.violation("emb128_reencode_of_message_with_checksum_differs", case, "encode(m || cs) != encode(m)")
            if len(full) != 128 or efull.to01() != e:
                acc.violation("emb128_reencode_of_full_matrix_differs", case, "encode(deinterleave_all_bits(encode(m))) != encode(m)")
            if mb.to01() != m or enc.to01() != e:
                acc.violation("emb128_argument_modified", case, "an argument buffer was modified")
    except Exception as ex:
        acc.violation("exception:" + exc_sig(ex), case, repr(ex))
    acc.case(nontrivial=True, calls=calls, outcome=outcome, sample=case if sample else None)


def check68(m: str, acc: Acc, sample=False):
    case = {"code": "68_28", "message": m}
    calls = 0
    outcome = "?"
    try:
        mb = bitarray(m)
        enc = VBPTC6828.encode(mb)
        calls += 1
        if len(enc) != 68:
            acc.violation("cach68_encode_length", {**case, "len": len(enc)}, "encoder output is not 68 bits")
            acc.case(calls=calls)
            return
        e = enc.to01()
        faults, M = structure_faults(68, e, m)
        for f in faults:
            acc.violation("cach68_" + f, {**case, "got": e, "want": ref_encode68(m)}, "transmitted (68,28) bits violate the code definition")
        d = VBPTC6828.deinterleave_data_bits(enc, include_crc8=False)
        calls += 1
        if d.to01() != m:
            acc.violation("cach68_extractor_returns_other_message", {**case, "decoded": d.to01()},
                          "deinterleave_data_bits(encode(m), include_crc8=False) != m")
        crc_read = VBPTC6828.deinterleave_crc8_bits(enc).to01()  # library presentation: lsb first
        crc_lib = CRC8.calculate(mb)
        calls += 2
        crc_ref = ref_crc8(m)
        if crc_lib != crc_ref:
            acc.violation("crc8_calculate_differs_from_reference", {**case, "library": crc_lib, "reference": crc_ref},
                          "CRC8.calculate != remainder of m(x)*x^8 by x^8+x^2+x+1")
        if len(crc_read) != 8 or int(crc_read[::-1], 2) != crc_lib:
            rev = len(crc_read) == 8 and int(crc_read, 2) == crc_lib
            acc.violation("crc8_readback_bit_reversed" if rev else "crc8_readback_differs_from_library_checksum",
                          {**case, "read_back_lsb_first": crc_read, "computed": crc_lib},
                          "deinterleave_crc8_bits(encode(m)) (lsb first) is not the CRC-8 the library computes over m")
            outcome = "crc8_wrong"
        else:
            outcome = "crc8_ok_palindrome" if crc_read == crc_read[::-1] else "crc8_ok_order_sensitive"
        if "".join(M[r][c] for r, c in CRC68) != format(crc_ref, "08b"):
            outcome += "|on_air_not_etsi_order"  # observation only
        d36 = VBPTC6828.deinterleave_data_bits(enc, include_crc8=True)
        calls += 1
        if len(d36) != 36 or d36.to01() != m + crc_read:
            acc.violation("cach68_extractor_with_crc8_inconsistent", case,
                          "deinterleave_data_bits(include_crc8=True) != message || deinterleave_crc8_bits")
        e36 = VBPTC6828.encode(bitarray(m + crc_read)) if len(crc_read) == 8 else None
        full = VBPTC6828.deinterleave_all_bits(enc)
        efull = VBPTC6828.encode(full)
        calls += 3
        if e36 is not None and e36.to01() != e:
            acc.violation("cach68_reencode_of_message_with_checksum_differs", case, "encode(m || crc) != encode(m)")
        if len(full) != 68 or efull.to01() != e:
            acc.violation("cach68_reencode_of_full_matrix_differs", case, "encode(deinterleave_all_bits(encode(m))) != encode(m)")
        if mb.to01() != m or enc.to01() != e:
            acc.violation("cach68_argument_modified", case, "an argument buffer was modified")
    except Exception as ex:
        acc.violation("exception:" + exc_sig(ex), case, repr(ex))
    acc.case(nontrivial=True, calls=calls, outcome=outcome, sample=case if sample else None)


# ----------------------------------------------------------------------------------------------
# spaces
# ----------------------------------------------------------------------------------------------
OCTET_EDGE = [0x00, 0x1E, 0x1F, 0x20, 0x3D, 0x3E, 0x3F, 0xFF]


def dedup(seq):
    seen, out = set(), []
    for s in seq:
        if s not in seen:
            seen.add(s)
            out.append(s)
    return out


def small_weight(n, w, comp_w):
    for pos in spaces.weight_le(n, w):
        s = spaces.flip("0" * n, pos)
        yield s
        if len(pos) <= comp_w:
            yield spaces.complement(s)
    yield ("01" * n)[:n]
    yield ("10" * n)[:n]


def octets_to_bits(o):
    return "".join(format(x, "08b") for x in o)


def messages128(rep):
    t = rep.thorough()
    backgrounds = [[0] * 9, [0xFF] * 9, list(env.det_bytes("c09-bg128", 9))]
    out = list(small_weight(72, 3 if t else 2, 2))
    for bg in backgrounds:
        for p in range(9):
            for v in range(256):
                o = list(bg)
                o[p] = v
                out.append(octets_to_bits(o))
        for p, q in itertools.combinations(range(9), 2):
            for v in OCTET_EDGE:
                for w in OCTET_EDGE:
                    o = list(bg)
                    o[p], o[q] = v, w
                    out.append(octets_to_bits(o))
    for i in range(16 if t else 4):
        out.append(env.det_bits(f"c09-m128-{i}", 72))
    return dedup(out)


def messages68(rep):
    t = rep.thorough()
    out = list(small_weight(28, 5 if t else 3, 5 if t else 3))
    for i in range(16 if t else 4):
        out.append(env.det_bits(f"c09-m68-{i}", 28))
    return dedup(out)


M128 = []
M68 = []


def w32(task):
    lo, hi = task
    acc = Acc()
    for v in range(lo, hi):
        m = format(v, "011b")
        for even in (True, False):
            check32(m, even, acc, sample=(v == lo and even))
    return acc


def w128(task):
    lo, hi = task
    acc = Acc()
    for i in range(lo, hi):
        check128(M128[i], acc, sample=(i == lo))
    return acc


def w68(task):
    lo, hi = task
    acc = Acc()
    for i in range(lo, hi):
        check68(M68[i], acc, sample=(i == lo))
    return acc


def w128_pairs(task):
    """all 256^2 values of octets (p, q), other octets zero -- rows v in [lo, hi)"""
    p, q, lo, hi = task
    acc = Acc()
    o = [0] * 9
    for v in range(lo, hi):
        o[p] = v
        for w in range(256):
            o[q] = w
            check128(octets_to_bits(o), acc, sample=(v == lo and w == 1 and p == 0 and q == 1), light=True)
    return acc


# ----------------------------------------------------------------------------------------------
def run(only=None):
    global M128, M68
    rep = Report("C09")
    rep.explanation = (
        "Complete enumeration of stated finite message sets on the real VBPTC encoders and extractors: state = one "
        "enumerated message (x parity rule), transition = one real library call on it; every case is an implementation "
        "execution. (32,11) is exhaustive over all 2^11 messages and both parities. (128,72)/(68,28): all low-weight "
        "messages and complements (the Hamming rows, column parities and CRC-8 are GF(2)-linear, and each message is "
        "compared with the independent reference codeword, so linearity of the library encoder follows on the basis); "
        "the non-linear 5-bit checksum is driven through every octet value at every octet position and through the "
        "modulo-31 / carry boundaries on every pair of positions (thorough: all 256^2 values on every pair)."
    )
    rep.assumptions = [
        "reference: ETSI TS 102 361-1 B.2.1 (8x16, column-wise), B.2.3 (4x17, column-wise), B.2.2 (2x16, index*17 mod 32), "
        "B.3.11 CS5 = sum of octets mod 31, B.3.7 CRC-8 x^8+x^2+x+1; Hamming codes as cyclic codes (gf2.py); the "
        "reference layouts reproduce the on-air vectors quoted in the repository tests (asserted at import)",
        "checksum presentation of the extractors as documented by the repository tests: CS5 msb-first, CRC-8 lsb-first",
        "CPython, bitarray, numpy behave as documented",
    ]
    nw = env.workers()
    want = lambda n: only is None or n in only  # noqa: E731

    if want("sb_32_11_all_messages"):
        s = rep.sub("sb_32_11_all_messages",
                    "ALL 2^11 messages x {even, odd} parity: reference codeword (row Hamming(16,11,4), per-column parity "
                    "rule, info placement), extractor returns m, re-encode of the full matrix; every case distinct")
        s.declared = 2 * (1 << 11)
        for acc in par.pmap(w32, par.chunks(1 << 11, nw * 4), nw):
            s.merge(acc)
        s.done()

    if want("emb_128_72_messages"):
        M128 = messages128(rep)
        s = rep.sub("emb_128_72_messages",
                    "weight <= 2 (thorough 3) messages + complements + every octet position x 256 values and every pair "
                    "of positions x 8x8 boundary values on 3 backgrounds (00.., FF.., seed filler) + seed words, "
                    "deduplicated: rows/columns/info placement, extractor == m, CS5 read-back == library CS5 == "
                    "reference CS5, encode(m)==encode(m||cs)==encode(full matrix). non-trivial: every distinct message")
        s.declared = len(M128)
        for acc in par.pmap(w128, par.chunks(len(M128), nw * 6), nw):
            s.merge(acc)
        s.extra["messages"] = len(M128)
        s.done()

    if want("emb_128_72_octet_pairs_full") and rep.thorough():
        s = rep.sub("emb_128_72_octet_pairs_full",
                    "every pair of octet positions (36) x ALL 256^2 values, other octets zero: structure, extractor == m, "
                    "CS5 read-back == library CS5 == reference CS5 (encode + extractors only)")
        s.declared = 36 * 65536
        tasks = [(p, q, lo, hi) for p, q in itertools.combinations(range(9), 2) for lo, hi in par.chunks(256, 8)]
        for acc in par.pmap(w128_pairs, tasks, nw):
            s.merge(acc)
        s.done()

    if want("cach_68_28_messages"):
        M68 = messages68(rep)
        s = rep.sub("cach_68_28_messages",
                    "weight <= 3 (thorough 5) messages + complements + seed words: rows Hamming(17,12,3), column parity, "
                    "info placement, extractor == m, CRC-8 read-back == library CRC-8 == reference CRC-8, "
                    "encode(m)==encode(m||crc)==encode(full matrix). non-trivial: every distinct message")
        s.declared = len(M68)
        for acc in par.pmap(w68, par.chunks(len(M68), nw * 6), nw):
            s.merge(acc)
        s.extra["messages"] = len(M68)
        s.done()

    if want("encode_again_after_caller_used_result"):
        # histories of length 2 on one message: encode, the caller writes into / cuts the codeword it was handed, encode again
        # (plain message, message||checksum and matrix form): all must still give the first codeword
        s = rep.sub("encode_again_after_caller_used_result",
                    "per codec: weight <= 1 messages + complements + seed words; encode(m), scribble on the returned bitarray in "
                    "place, then encode(m), encode(m||checksum), encode(matrix form) must equal the first codeword")
        for code, K_, enc_f, all_f, ext in (
            ("32_11", 11, lambda b: VBPTC3211.encode(b, True), VBPTC3211.deinterleave_all_bits, None),
            ("128_72", 72, VBPTC12873.encode, VBPTC12873.deinterleave_all_bits, VBPTC12873.deinterleave_cs5_bits),
            ("68_28", 28, VBPTC6828.encode, VBPTC6828.deinterleave_all_bits, VBPTC6828.deinterleave_crc8_bits),
        ):
            msgs = spaces.small_scope_messages(K_, 1, extra=[env.det_bits(f"c09-again-{code}-{i}", K_) for i in range(4)])
            for m in msgs:
                case = {"code": code, "message": m}
                try:
                    first = enc_f(bitarray(m))
                    snap = first.to01()
                    full = all_f(bitarray(snap))
                    tail = ext(bitarray(snap)).to01() if ext else None
                    first.invert()
                    del first[:7]
                    full2 = bitarray(full)  # private copy of the matrix form
                    forms = {"message": bitarray(m), "matrix": full2}
                    if tail is not None:
                        forms["message_with_checksum"] = bitarray(m + tail)
                    for fname, arg in forms.items():
                        again = enc_f(arg)
                        if again.to01() != snap:
                            s.violation(f"second_encode_differs_after_caller_wrote_first_result:{code}:{fname}", {**case, "first": snap, "again": again.to01()},
                                        "encoding the same message again gives other bits once the caller has modified the codeword it was handed")
                        again.invert()
                except Exception as e:
                    s.violation("exception_encode_again:" + exc_sig(e), case, repr(e))
                s.case(nontrivial=True, calls=5, outcome=code, sample=case if len(s.samples) < 1 else None)
        s.done()

    if want("little_endian_storage"):
        # a message is its bit string in index order, whatever the storage endianness of the bitarray holding it
        s = rep.sub("little_endian_storage",
                    "per codec: weight <= 1 messages + complements + seed words (+ all 2^11 for 32,11) supplied as bitarray(endian='little'): "
                    "encode must equal the encoding of the same bit string stored big-endian; extractors on a little-endian codeword likewise")
        for code, K_, enc_f, ext_fs in (
            ("32_11", 11, lambda b: VBPTC3211.encode(b, True), (VBPTC3211.deinterleave_data_bits, VBPTC3211.deinterleave_all_bits)),
            ("128_72", 72, VBPTC12873.encode, (VBPTC12873.deinterleave_data_bits, VBPTC12873.deinterleave_all_bits, VBPTC12873.deinterleave_cs5_bits)),
            ("68_28", 28, VBPTC6828.encode, (VBPTC6828.deinterleave_data_bits, VBPTC6828.deinterleave_all_bits, VBPTC6828.deinterleave_crc8_bits)),
        ):
            msgs = spaces.small_scope_messages(K_, 1, extra=[env.det_bits(f"c09-le-{code}-{i}", K_) for i in range(6)])
            if K_ == 11:
                msgs = [format(v, "011b") for v in range(1 << 11)]
            for m in msgs:
                case = {"code": code, "message": m, "storage": "little-endian bitarray"}
                try:
                    big = enc_f(bitarray(m))
                    lit = enc_f(bitarray(m, endian="little"))
                    if lit.to01() != big.to01():
                        s.violation(f"little_endian_message_encodes_differently:{code}", {**case, "big": big.to01(), "little": lit.to01()},
                                    "the same bit string stored little-endian encodes to other bits")
                    cw_l = bitarray(big.to01(), endian="little")
                    for f in ext_fs:
                        if f(cw_l).to01() != f(bitarray(big.to01())).to01():
                            s.violation(f"little_endian_codeword_extracts_differently:{code}:{f.__name__}", case)
                except Exception as e:
                    s.violation("exception_little_endian:" + exc_sig(e), case, repr(e))
                s.case(nontrivial=True, calls=2 + 2 * len(ext_fs), outcome=code, sample=case if len(s.samples) < 1 else None)
        s.done()


    if want("input_containers"):
        s = rep.sub("input_containers",
                    "per codec: weight <= 1 messages + complements + seed words x {frozenbitarray, bitarray with a live memoryview, bitarray "
                    "over an imported read-only / writable buffer}: encode and the extractors give the same bits as for a plain bitarray "
                    "and leave the argument as it was")
        for code, K_, enc_f, ext_fs in (
            ("32_11", 11, lambda b: VBPTC3211.encode(b, True), (VBPTC3211.deinterleave_data_bits, VBPTC3211.deinterleave_all_bits)),
            ("128_72", 72, VBPTC12873.encode, (VBPTC12873.deinterleave_data_bits, VBPTC12873.deinterleave_all_bits, VBPTC12873.deinterleave_cs5_bits)),
            ("68_28", 28, VBPTC6828.encode, (VBPTC6828.deinterleave_data_bits, VBPTC6828.deinterleave_all_bits, VBPTC6828.deinterleave_crc8_bits)),
        ):
            msgs = spaces.small_scope_messages(K_, 1, extra=[env.det_bits(f"c09-cont-{code}-{i}", K_) for i in range(4)])
            for m in msgs:
                case = {"code": code, "message": m}
                try:
                    ref = enc_f(bitarray(m)).to01()
                    refs = [f(bitarray(ref)).to01() for f in ext_fs]
                except Exception as e:  # noqa: BLE001
                    s.violation("exception_containers:" + exc_sig(e), case, repr(e))
                    continue
                for kind_, arg, keep in hist.bit_containers(m):
                    try:
                        if enc_f(arg).to01() != ref:
                            s.violation(f"encode_differs_for_container:{code}:{kind_}", case)
                        if arg.to01() != m:
                            s.violation(f"encode_alters_argument:{code}:{kind_}", case)
                    except Exception as e:  # noqa: BLE001
                        s.violation(f"exception_encode_container:{code}:{kind_}:" + exc_sig(e), case, repr(e))
                    del keep
                    s.case(nontrivial=True, calls=1, outcome=(code, kind_), sample={**case, "container": kind_} if len(s.samples) < 2 else None)
                for kind_, arg, keep in hist.bit_containers(ref):
                    try:
                        for f, w_ in zip(ext_fs, refs):
                            if f(arg).to01() != w_:
                                s.violation(f"extractor_differs_for_container:{code}:{f.__name__}:{kind_}", case)
                        if arg.to01() != ref:
                            s.violation(f"extractor_alters_argument:{code}:{kind_}", case)
                    except Exception as e:  # noqa: BLE001
                        s.violation(f"exception_extract_container:{code}:{kind_}:" + exc_sig(e), case, repr(e))
                    del keep
                    s.case(nontrivial=True, calls=len(ext_fs), outcome=(code, kind_))
        s.done()

    if want("history_with_out_of_range_calls"):
        s = rep.sub("history_with_out_of_range_calls",
                    "every public function of the three codecs and of the helpers they are built on (CRC8, FiveBitChecksum, Hamming (16,11,4) / (17,12,3)) x 13 out-of-range arguments (empty, short, over-long, wrong container, and three that fail late - after the first octet has been consumed); "
                    "whatever that call does, the next valid encode / extract of 2 messages per codec gives the reference result")
        import numpy as _np
        funcs = {}
        for cname, cls_ in (("VBPTC3211", VBPTC3211), ("VBPTC12873", VBPTC12873), ("VBPTC6828", VBPTC6828)):
            for fn in ("encode", "deinterleave_all_bits", "deinterleave_data_bits", "deinterleave_cs5_bits", "deinterleave_crc8_bits", "set_parity"):
                if hasattr(cls_, fn):
                    funcs[f"{cname}.{fn}"] = getattr(cls_, fn)
        # ... and the public helpers the codecs are built on (their shared calculators / tables are part of every later encode)
        from okdmr.dmrlib.etsi.fec.hamming_16_11_4 import Hamming16114 as _H16
        from okdmr.dmrlib.etsi.fec.hamming_17_12_3 import Hamming17123 as _H17
        for cname, cls_, fns in (("CRC8", CRC8, ("calculate", "check")), ("FiveBitChecksum", FiveBitChecksum, ("calculate", "generate", "verify")),
                                 ("Hamming16114", _H16, ("generate", "check", "check_and_correct")), ("Hamming17123", _H17, ("generate", "check", "check_and_correct"))):
            for fn in fns:
                if callable(getattr(cls_, fn, None)):
                    funcs[f"{cname}.{fn}"] = getattr(cls_, fn)
        bad_args = [
            # calls that fail late, after part of the argument has been consumed
            ("bit_text_with_a_typo_in_the_second_octet", lambda: "00010000" + "0011000x" + "0" * 12),
            ("list_with_a_2_after_the_first_octet", lambda: [0, 1] * 6 + [2] + [0] * 15),
            ("list_with_none_at_the_end", lambda: [1, 0] * 13 + [1, None]),
            ("empty_bitarray", lambda: bitarray()), ("bitarray_7", lambda: bitarray("1011011")), ("bitarray_73", lambda: bitarray("1" * 73)),
            ("bitarray_129", lambda: bitarray("10" * 64 + "1")), ("bitarray_200", lambda: bitarray("110" * 66 + "11")), ("bytes_9", lambda: bytes(range(9))),
            ("list_11", lambda: [1, 0, 1, 1, 0, 1, 0, 0, 1, 1, 1]), ("numpy_16", lambda: _np.array([1] * 16)), ("numpy_3", lambda: _np.array([1, 0, 1])),
            ("none", lambda: None),
        ]
        probes = []
        for code, K_, enc_f, dec_f in (("32_11", 11, lambda b: VBPTC3211.encode(b, True), VBPTC3211.deinterleave_data_bits),
                                       ("32_11_odd", 11, lambda b: VBPTC3211.encode(b, False), VBPTC3211.deinterleave_data_bits),
                                       ("128_72", 72, VBPTC12873.encode, VBPTC12873.deinterleave_data_bits),
                                       ("68_28", 28, VBPTC6828.encode, VBPTC6828.deinterleave_data_bits)):
            for i in range(2):
                m = env.det_bits(f"c09-oor-{code}-{i}", K_)
                probes.append((f"encode_{code}", lambda m=m, enc_f=enc_f: enc_f(bitarray(m)).to01()))
                probes.append((f"extract_{code}", lambda m=m, enc_f=enc_f, dec_f=dec_f: dec_f(enc_f(bitarray(m))).to01()))
        hist.poisoned_histories(s, funcs, bad_args, probes)
        s.done()

    if want("kept_results"):
        s = rep.sub("kept_results", "per codec: encode and every extractor on 16 messages in a row with every returned bitarray kept by the caller: after the last call "
                                    "each is still the result of its own call")
        for code, K_, enc_f, ext_fs in (
            ("32_11", 11, lambda b: VBPTC3211.encode(b, True), (VBPTC3211.deinterleave_data_bits, VBPTC3211.deinterleave_all_bits)),
            ("128_72", 72, VBPTC12873.encode, (VBPTC12873.deinterleave_data_bits, VBPTC12873.deinterleave_all_bits, VBPTC12873.deinterleave_cs5_bits)),
            ("68_28", 28, VBPTC6828.encode, (VBPTC6828.deinterleave_data_bits, VBPTC6828.deinterleave_all_bits, VBPTC6828.deinterleave_crc8_bits)),
        ):
            km = [env.det_bits(f"c09-kept-{code}-{i}", K_) for i in range(16)]
            hist.kept_results(s, f"{code}.encode", [({"code": code, "message": m}, (lambda m=m, enc_f=enc_f: enc_f(bitarray(m)))) for m in km], obs=lambda r: r.to01())
            cws = [enc_f(bitarray(m)).to01() for m in km]
            for f in ext_fs:
                hist.kept_results(s, f"{code}.{f.__name__}", [({"code": code, "message": m}, (lambda c=c, f=f: f(bitarray(c)))) for m, c in zip(km, cws)], obs=lambda r: r.to01())
        s.done()

    if want("callers_buffer_overwritten_in_place"):
        s = rep.sub("callers_buffer_overwritten_in_place",
                    "per codec: the caller builds every message (and holds every received word) in ONE bitarray that it overwrites in place between "
                    "calls -- 14 contents per entry point: one-bit changes, a field counted up, the first content again; encode (all accepted input "
                    "lengths) and every extractor answer for the buffer's present content (expected values: the reference encoder; for the extractors the same call on a fresh object, taken first)")
        for code, K_, enc_f, ref_f, ext_fs, wider in (
            ("32_11", 11, lambda b: VBPTC3211.encode(b, True), lambda m: ref_encode32(m, True), (VBPTC3211.deinterleave_data_bits, VBPTC3211.deinterleave_all_bits), ()),
            ("128_72", 72, VBPTC12873.encode, ref_encode128, (VBPTC12873.deinterleave_data_bits, VBPTC12873.deinterleave_all_bits, VBPTC12873.deinterleave_cs5_bits), (77,)),
            ("68_28", 28, VBPTC6828.encode, ref_encode68, (VBPTC6828.deinterleave_data_bits, VBPTC6828.deinterleave_all_bits, VBPTC6828.deinterleave_crc8_bits), (36,)),
        ):
            base = env.det_bits(f"c09-reuse-{code}", K_)
            ms = [base]
            for pos in (0, K_ - 1, K_ // 2, 3):
                ms.append(ms[-1][:pos] + ("1" if ms[-1][pos] == "0" else "0") + ms[-1][pos + 1:])
            ms += [base[:K_ - 3] + format(i, "03b") for i in range(8)] + [base]
            cws = [ref_f(m) for m in ms]
            ents = [(f"{code}.encode", (lambda b, enc_f=enc_f: enc_f(b).to01()), [bitarray(m) for m in ms], cws)]
            for f in ext_fs:
                ents.append((f"{code}.{f.__name__}", (lambda b, f=f: f(b).to01()), [bitarray(c) for c in cws], None))
            for n_ in wider:
                # the encoders also accept the message followed by its checksum bits (replaced by the encoder)
                ents.append((f"{code}.encode_{n_}_bits", (lambda b, enc_f=enc_f: enc_f(b).to01()), [bitarray(m + "0" * (n_ - K_)) for m in ms], None))
            if code != "32_11":
                ents.append((f"{code}.encode_codeword_length_input", (lambda b, enc_f=enc_f: enc_f(b).to01()), [bitarray(c) for c in cws], None))
            hist.reused_buffer(s, code, ents)
        s.done()

    if want("storage_twin_histories"):
        s = rep.sub("storage_twin_histories",
                    "per codec: 5 messages x 3 containers that a cache keyed by storage octets confuses (big-endian bitarray, little-endian bitarray over the "
                    "same octets = another message, little-endian bitarray with the same bits): all ordered pairs of encode calls back to back give the "
                    "reference codeword of the message the container holds; the same for the data-bit extractor over the containers of the codewords")
        for code, K_, enc_f, ref_f, ext_f in (
            ("32_11", 11, lambda b: VBPTC3211.encode(b, True), lambda m: ref_encode32(m, True), VBPTC3211.deinterleave_data_bits),
            ("128_72", 72, VBPTC12873.encode, ref_encode128, VBPTC12873.deinterleave_data_bits),
            ("68_28", 28, VBPTC6828.encode, ref_encode68, VBPTC6828.deinterleave_data_bits),
        ):
            ms = [env.det_bits(f"c09-twin-{code}-{i}", K_) for i in range(4)] + [("1011001" * 12)[:K_]]
            cws = [ref_f(m) for m in ms[:3]]
            hist.storage_twin_histories(s, code, [
                (f"{code}.encode", enc_f, ms, (lambda r, bits, ref_f=ref_f: r.to01() == ref_f(bits)), False),
            ])
            # extractor: containers whose bit string is a codeword (big-endian, little-endian with the same bits), mixed with the same-octets twin
            # of another codeword as the first call of the pair (whatever that call does)
            for i, cw in enumerate(cws):
                tw = list(hist.storage_twins(cw))
                good = [(k, o) for k, o, b in tw if b == cw]
                other = [(k, o) for k, o, b in hist.storage_twins(cws[(i + 1) % len(cws)])]
                for ka, oa in good + other:
                    for kb, ob in good:
                        try:
                            ext_f(oa.copy())
                        except Exception:  # noqa: BLE001 - a non-codeword may be refused
                            pass
                        try:
                            r = ext_f(ob.copy()).to01()
                        except Exception as e:  # noqa: BLE001
                            s.violation(f"storage_twins:exception:{code}:extract:" + exc_sig(e), {"first": ka, "second": kb}, repr(e))
                            continue
                        if r[:K_] != ms[i]:
                            s.violation(f"storage_twins:wrong_result_in_a_history_of_storage_twins:{code}:extract", {"first": ka, "second": kb, "message": ms[i]})
                        s.case(nontrivial=True, calls=2, outcome="twin_pair_extract")
        s.done()

    if want("long_call_history"):
        s = rep.sub("long_call_history",
                    "encode / extract of one fixed message per codec called again and again in one process: the result never depends on how "
                    "many calls came before.  Depth 3 when a call leaves class/module data untouched (observed), 2^16+256 calls per entry "
                    "point when it does not, and always in the thorough tier")
        import okdmr.dmrlib.etsi.fec.vbptc_128_72 as _m128, okdmr.dmrlib.etsi.fec.vbptc_68_28 as _m68, okdmr.dmrlib.etsi.fec.vbptc_32_11 as _m32
        import okdmr.dmrlib.etsi.fec.five_bit_checksum as _m5, okdmr.dmrlib.etsi.crc.crc8 as _mc8
        l128, l68, l32 = env.det_bits("c09-long-128", 72), env.det_bits("c09-long-68", 28), env.det_bits("c09-long-32", 11)
        e128, e68, e32 = VBPTC12873.encode(bitarray(l128)), VBPTC6828.encode(bitarray(l68)), VBPTC3211.encode(bitarray(l32), True)
        hist.long_history(s, [VBPTC12873, VBPTC6828, VBPTC3211, FiveBitChecksum, CRC8, _m128, _m68, _m32, _m5, _mc8], [
            ("encode_128_72", lambda: VBPTC12873.encode(bitarray(l128)).to01()),
            ("extract_128_72", lambda: VBPTC12873.deinterleave_data_bits(bitarray(e128)).to01()),
            ("encode_68_28", lambda: VBPTC6828.encode(bitarray(l68)).to01()),
            ("extract_68_28", lambda: VBPTC6828.deinterleave_data_bits(bitarray(e68)).to01()),
            ("encode_32_11", lambda: VBPTC3211.encode(bitarray(l32), True).to01()),
            ("extract_32_11", lambda: VBPTC3211.deinterleave_data_bits(bitarray(e32)).to01()),
        ], always=rep.thorough())
        s.done()

    rep.bounds = {
        "32_11": "all 2^11 messages x both parities (complete)",
        "128_72": "weight <= " + ("3" if rep.thorough() else "2") + " + complements; all single-octet values at all positions on 3 backgrounds; "
                  + ("all 256^2 values on every pair of octet positions" if rep.thorough() else "8x8 boundary values on every pair of positions"),
        "68_28": "weight <= " + ("5" if rep.thorough() else "3") + " + complements",
        "not_covered": "the remaining messages of the 2^72 / 2^28 spaces (reduction: every enumerated message equals the "
                       "independent, GF(2)-linear reference apart from the checksum cells; CS5 depends on the octet sum only, "
                       "swept per octet and per octet pair); received words that are not codewords (these codecs have no "
                       "repair path in the library)",
    }
    return rep.finish()


def replay(doc):
    bad = 0
    for case in doc.get("cases", []):
        acc = Acc()
        code, m = case.get("code"), case.get("message")
        if code == "32_11":
            check32(m, bool(case.get("even_parity", True)), acc)
        elif code == "128_72":
            check128(m, acc)
        elif code == "68_28":
            check68(m, acc)
        else:
            print("cannot replay", case)
            continue
        print(f"code={code} message={m} -> {sorted(acc.viol) or 'ok'}")
        for sig, (_, cases, what) in acc.viol.items():
            print("   ", sig, what, {k: v for k, v in cases[0].items() if k not in ("got", "want")})
        bad += bool(acc.viol)
    return 1 if bad else 0

"""C17, a model bound to the code: /verif/models/Hstrp.tla states the acknowledgement discipline for two handlers back to back;
TLC enumerates every reachable state and prints every transition; each transition is replayed against two real RRSDatagramProtocol
objects and the abstraction of the state the implementation reaches must be the model's successor state.

  model state  = (connected<<2>>, net<<20>> in-flight counts by message id, reg<<2>>, budget, quiet, answers)
  message id m : m-1 = (to-1)*10 + kind*2 + ack, kind 0 CONNECT 1 CLOSE 2 DATA 3 REG 4 HEARTBEAT
  abstraction  : a datagram in flight -> (destination, kind from its type octet / RRS payload, ack bit);
                 connected = hstrp_connected; reg = "the registry holds radio A as Online"

One concrete representative per model state (the breadth-first tree path, rebuilt on fresh objects for every transition) - the
abstraction forgets sequence numbers and option chains, which the direct searches of c17_hstrp.py keep.
"""
import ast
import collections
import os
import re
import shutil
import subprocess
import tempfile

from checks import c17_hstrp as H
from mc.report import exc_sig

MODELS = os.path.join(os.path.dirname(os.path.dirname(os.path.abspath(__file__))), "models")
KINDS = ["CONNECT", "CLOSE", "DATA", "REG", "HEARTBEAT"]
INJECT_BYTES = {(0, 0): "CONNECT", (0, 1): "CONNECT_ACK", (1, 0): "CLOSE", (1, 1): "CLOSE_ACK", (2, 0): "RCP_NOOPT", (2, 1): "ACK", (3, 0): "REG_A", (4, 0): "HEARTBEAT"}
ADDR = {1: ("192.0.2.1", 30001), 2: ("192.0.2.2", 30001)}


def run_tlc(budget=2):
    """returns (edges, stats): edges = set of (state, action, m, state'), all as python tuples"""
    if shutil.which("tlc") is None:
        return None, "tlc not on PATH"
    d = tempfile.mkdtemp(prefix="verif-tlc-")
    try:
        shutil.copy(os.path.join(MODELS, "Hstrp.tla"), d)
        with open(os.path.join(MODELS, "Hstrp.cfg")) as src:
            cfg = src.read()
        with open(os.path.join(d, "Hstrp.cfg"), "w") as f:
            f.write(cfg.replace("Budget = 2", f"Budget = {budget}"))
        # JAVA_TOOL_OPTIONS: TLC unpacks its standard modules into java.io.tmpdir - keep that inside the directory removed below
        r = subprocess.run(["tlc", "-workers", "1", "-deadlock", "-noGenerateSpecTE", "-metadir", os.path.join(d, "md"), "Hstrp"], cwd=d, capture_output=True, text=True, timeout=900,
                           env=dict(os.environ, JAVA_TOOL_OPTIONS=(os.environ.get("JAVA_TOOL_OPTIONS", "") + " -Djava.io.tmpdir=" + d).strip()))
        out = r.stdout
    finally:
        shutil.rmtree(d, ignore_errors=True)
    if "Model checking completed. No error has been found." not in out:
        return None, "TLC did not complete without error: " + out[-1500:]
    m = re.search(r"(\d+) states generated, (\d+) distinct states found", out)
    stats = {"tlc_states_generated": int(m.group(1)), "tlc_distinct_states": int(m.group(2))} if m else {}
    edges = set()
    i = 0
    while True:
        i = out.find('<< "E",', i)
        if i < 0:
            break
        depth, j = 0, i
        while True:
            if out.startswith("<<", j):
                depth += 1
                j += 2
            elif out.startswith(">>", j):
                depth -= 1
                j += 2
                if depth == 0:
                    break
            else:
                j += 1
        txt = out[i:j].replace("<<", "(").replace(">>", ",)").replace("TRUE", "True").replace("FALSE", "False")
        rec = ast.literal_eval(txt)
        _, c, n, g, b, q, w, act, msg, c2, n2, g2, b2, q2, w2 = rec
        edges.add(((c, n, g, b, q, w), act, msg, (c2, n2, g2, b2, q2, w2)))
        i = j
    return edges, stats


def abs_id(dst, data):
    p = H.parse_out(data)
    if p is None:
        return None
    t = p["type"]
    if t & H.T_CONNECT:
        kind = 0
    elif t & H.T_CLOSE:
        kind = 1
    elif t & H.T_HB:
        kind = 4
    else:
        eff = H.rrs_effect(data)
        kind = 3 if (eff is not None and eff[1] == "Online" and not (t & H.T_ACK)) else 2
    return (dst - 1) * 10 + kind * 2 + (1 if t & H.T_ACK else 0) + 1


class Concrete:
    def __init__(self, connected, budget):
        self.h, self.tr = {}, {}
        for n in (1, 2):
            p = H.RRSDatagramProtocol(port=30001)
            t = H.RecDatagramTransport()
            p.connection_made(t)
            p.hstrp_connected = connected[n - 1]
            self.h[n], self.tr[n] = p, t
        self.inflight = []  # (dst, bytes)
        self.budget = budget
        self.quiet = 0
        self.answers = 0
        self.raised = None

    def act(self, kind, m):
        if kind == "I":
            k, a = ((m - 1) % 10) // 2, (m - 1) % 2
            self.inflight.append((1, H.DG[INJECT_BYTES[(k, a)]]))
            self.budget -= 1
            self.quiet = 0
            return True
        idx = next((i for i, (d, b) in enumerate(self.inflight) if abs_id(d, b) == m), None)
        if idx is None:
            return False
        dst, data = self.inflight.pop(idx)
        src = 3 - dst
        self.tr[dst].sent = []
        try:
            self.h[dst].datagram_received(data, ADDR[src])
        except Exception as e:  # noqa: BLE001
            self.raised = e
        for o, _ in self.tr[dst].sent:
            if (H.parse_out(o) or {}).get("type") == H.T_HB:
                continue  # heartbeat echo: counted, not re-delivered (as in the model)
            if H.is_rrs_success_answer(o, H.IP_A):
                self.answers += 1  # the application-level answer leaves the closed system (see the model)
                continue
            self.inflight.append((src, o))
        self.quiet += 1
        return True

    def abstract(self):
        net = [0] * 20
        for d, b in self.inflight:
            i = abs_id(d, b)
            if i is not None:
                net[i - 1] += 1
        reg = tuple(dict(H.registry_view(self.h[n])).get(H.ip_str(H.IP_A)) == "Online" for n in (1, 2))
        return (tuple(self.h[n].hstrp_connected for n in (1, 2)), tuple(net), reg, self.budget, self.quiet, self.answers)


def conformance(sub, budget=2):
    edges, stats = run_tlc(budget)
    if edges is None:
        return stats
    succ = collections.defaultdict(list)
    states = set()
    for s, a, m, t in edges:
        succ[s].append((a, m, t))
        states.add(s)
        states.add(t)
    inits = sorted(s for s in states if s[1] == tuple([0] * 20) and s[3] == budget and s[4] == 0 and s[5] == 0 and s[2] == (False, False))
    path = {s: [] for s in inits}
    init_of = {s: s for s in inits}
    frontier = collections.deque(inits)
    checked = 0
    while frontier:
        s = frontier.popleft()
        for a, m, t in sorted(succ.get(s, [])):
            c = Concrete(init_of[s][0], budget)
            for pa, pm in path[s]:
                c.act(pa, pm)
            case = {"model_state": [list(x) if isinstance(x, tuple) else x for x in s], "action": a, "message_id": m, "message": f"to {((m - 1) // 10) + 1} {KINDS[((m - 1) % 10) // 2]}{'|ACK' if (m - 1) % 2 else ''}",
                    "path": [[pa, pm] for pa, pm in path[s]]}
            if c.abstract() != s:
                sub.violation("tla:representative_does_not_reach_the_model_state", case, "replaying the tree path on fresh handlers gives another abstract state (nondeterminism)")
                continue
            conform = False
            ok = c.act(a, m)
            if not ok:
                sub.violation("tla:model_delivers_a_message_the_implementation_does_not_hold", case)
            elif c.raised is not None:
                sub.violation("tla:exception:" + exc_sig(c.raised), case, repr(c.raised))
            else:
                got = c.abstract()
                conform = got == t
                if got != t:
                    names = ("connected", "in_flight", "registered", "budget", "quiet", "answers")
                    diff = [n_ for n_, x, y in zip(names, got, t) if x != y]
                    sub.violation("tla:implementation_leaves_the_model:" + "+".join(diff), {**case, "implementation": [list(x) if isinstance(x, tuple) else x for x in got],
                                                                                            "model": [list(x) if isinstance(x, tuple) else x for x in t]},
                                  "after the same transition the implementation's abstract state is not the model's successor state")
            checked += 1
            sub.case(nontrivial=True, calls=len(path[s]) + 1, outcome=(a, KINDS[((m - 1) % 10) // 2], (m - 1) % 2), sample=case if checked == 40 else None)
            if t not in path and conform:  # representatives only along transitions the implementation follows
                path[t] = path[s] + [(a, m)]
                init_of[t] = init_of[s]
                frontier.append(t)
    unreached = len(states) - len(path)
    stats.update({"model_states": len(states), "model_transitions": len(edges), "transitions_replayed_against_the_implementation": checked, "model_states_without_representative": unreached})
    if unreached and not sub.viol:
        sub.violation("tla:model_state_not_reached_by_replay", {"count": unreached})
    return stats

"""C08 -- transmission tracking emits well-formed start/end events for any burst sequence.

Explicit-state BFS over a real Terminal (two Timeslots, each with its Transmission) fed with
pre-serialised bursts from a 23-member alphabet; a property monitor (not a re-implementation of
the tracker) checks every transition.  Observers: [recorder, raiser, recorder] on the terminal and
[raiser, recorder] added to each timeslot, so observer isolation is checked on every path.
"""
from mc import env
from mc import explore, bursts as B
from mc.canon import canon
from mc.report import Report, exc_sig

import copy
import io
import random
import contextlib

from bitarray import bitarray
from bitarray.util import int2ba

from okdmr.dmrlib.etsi.layer2.burst import Burst
from okdmr.dmrlib.etsi.layer2.elements.burst_types import BurstTypes
from okdmr.dmrlib.etsi.layer2.elements.csbk_opcodes import CsbkOpcodes
from okdmr.dmrlib.etsi.layer2.elements.data_types import DataTypes
from okdmr.dmrlib.etsi.layer2.elements.voice_bursts import VoiceBursts
from okdmr.dmrlib.etsi.layer2.pdu.csbk import CSBK
from okdmr.dmrlib.etsi.layer2.pdu.data_header import DataHeader
from okdmr.dmrlib.etsi.layer2.pdu.rate12_data import Rate12Data
from okdmr.dmrlib.etsi.layer2.pdu.rate34_data import Rate34Data
from okdmr.dmrlib.etsi.layer2.pdu.rate1_data import Rate1Data
from okdmr.dmrlib.transmission.terminal import Terminal
from okdmr.dmrlib.transmission.transmission_observer_interface import TransmissionObserverInterface
from okdmr.dmrlib.transmission.transmission_types import TransmissionTypes

SEAMS = env.Seams()


# ------------------------------------------------------------------------------------------------
# alphabet: 33-byte bursts, built once
# ------------------------------------------------------------------------------------------------
def dh_bits(dpf, sap, btf=0, a=0, g=0, poc=0, dst=2305678, src=2301234, tail8=0):
    """80 header bits + 16 zero CRC bits (library generates the CRC); layouts of ETSI TS 102 361-1 9.2.1/9.2.4/9.2.6/9.2.12"""
    s = ""
    if dpf in (0b0010, 0b0011, 0b0001):  # unconfirmed / confirmed / response
        if dpf == 0b0001:
            s += "0000"
        else:
            s += f"{g}{a}0{(poc >> 4) & 1}"
        s += format(dpf, "04b") + format(sap, "04b") + (format(poc & 15, "04b") if dpf != 0b0001 else "0000")
        s += format(dst, "024b") + format(src, "024b") + "1" + format(btf, "07b") + format(tail8, "08b")
    elif dpf == 0b1101:  # short data defined: appended blocks in bits 2..3 + 12..15
        ab = format(btf, "06b")
        s += f"{g}{a}{ab[0]}{ab[1]}" + format(dpf, "04b") + format(sap, "04b") + ab[2:]
        s += format(dst, "024b") + format(src, "024b") + "000001" + "0" + "1" + format(tail8, "08b")
    elif dpf == 0b0000:  # UDT
        s += f"{g}{a}00" + "0000" + format(sap, "04b") + "0001"
        s += format(dst, "024b") + format(src, "024b") + "00000" + "0" + format(btf & 3, "02b") + "0" + "0" + "011010"
    assert len(s) == 80, len(s)
    return bitarray(s + "0" * 16)


def bits_of_bytes(b):
    x = bitarray()
    x.frombytes(b)
    return x


def build_alphabet():
    out = {}
    cc = 1

    def data(name, pdu, dt):
        out[name] = (B.data_burst_bytes(pdu, dt, cc=cc), BurstTypes.DataAndControl)

    data("VH", B.flc_group(), DataTypes.VoiceLCHeader)
    data("VH2", B.flc_unit(), DataTypes.VoiceLCHeader)
    data("VT", B.flc_group(terminator=True), DataTypes.TerminatorWithLC)
    # every other full-LC opcode the library can parse as a voice LC header / terminator: talker alias (non-ASCII octets), GPS info
    from okdmr.dmrlib.etsi.layer2.pdu.full_link_control import FullLinkControl as _FLC
    ta = bitarray("0" + "0" + "000100" + "00000000" + "10" + "00110" + "1") + bits_of_bytes(bytes([0xC3, 0xA9, 0x80, 0xFF, 0x41, 0x9E])) + bitarray("0" * 24)
    data("VH_TA", _FLC.from_bits(ta), DataTypes.VoiceLCHeader)
    tb = bitarray("0" + "0" + "000101" + "00000000") + bits_of_bytes(bytes([0xE6, 0x97, 0xA5, 0xFE, 0x81, 0x00, 0x7F])) + bitarray("0" * 24)
    data("VT_TA", _FLC.from_bits(tb), DataTypes.TerminatorWithLC)
    gps = bitarray("0" + "0" + "001000" + "00000000" + "0000" + "011" + format(0x1ABCDEF, "025b") + format(0x923456, "024b") + "0" * 24)
    data("VH_GPS", _FLC.from_bits(gps), DataTypes.VoiceLCHeader)
    voc = bitarray(("1100101" * 31)[:216])
    out["VS"] = (B.voice_sync_bits(voc).tobytes(), BurstTypes.Vocoder)
    out["VE"] = (B.voice_emb_bits(voc, cc, 0, 1, bitarray("1010" * 8)).tobytes(), BurstTypes.Vocoder)
    data("DH_U0", DataHeader.from_bits(dh_bits(0b0010, 0b1010, btf=0)), DataTypes.DataHeader)
    data("DH_U1", DataHeader.from_bits(dh_bits(0b0010, 0b1010, btf=1)), DataTypes.DataHeader)
    data("DH_U2", DataHeader.from_bits(dh_bits(0b0010, 0b1010, btf=2)), DataTypes.DataHeader)
    data("DH_C1", DataHeader.from_bits(dh_bits(0b0011, 0b1010, btf=1, a=1)), DataTypes.DataHeader)
    data("DH_C2", DataHeader.from_bits(dh_bits(0b0011, 0b0100, btf=2, a=1)), DataTypes.DataHeader)
    data("DH_R", DataHeader.from_bits(dh_bits(0b0001, 0b1010, btf=1, tail8=0b00001001)), DataTypes.DataHeader)
    data("DH_SD1", DataHeader.from_bits(dh_bits(0b1101, 0b1010, btf=1)), DataTypes.DataHeader)
    data("DH_UDT", DataHeader.from_bits(dh_bits(0b0000, 0b0000, btf=1)), DataTypes.DataHeader)
    data("DH_IP1", DataHeader.from_bits(dh_bits(0b0010, 0b0011, btf=1)), DataTypes.DataHeader)
    data("PRE2", B.preamble_csbk(2), DataTypes.CSBK)
    data("PRE1", B.preamble_csbk(1), DataTypes.CSBK)
    data("CSBK_X", CSBK(csbko=CsbkOpcodes.BSOutboundActivation, last_block=True, bs_address=2301, source_address=2301234), DataTypes.CSBK)
    data("R12_0", Rate12Data(data=bytes(12)), DataTypes.Rate12Data)
    data("R12_X", Rate12Data(data=bytes(range(0x31, 0x3D))), DataTypes.Rate12Data)
    data("R34", Rate34Data(data=bytes(range(0x41, 0x41 + 18))), DataTypes.Rate34Data)
    data("R1", Rate1Data(data=bytes(range(0x61, 0x61 + 24))), DataTypes.Rate1Data)
    return out


ALPHA = {}
PARSED = {}
CORE = ["VH", "VT", "VS", "VE", "DH_U1", "DH_U2", "DH_C1", "DH_IP1", "PRE2", "CSBK_X", "R12_0", "R12_X", "R34", "VH_TA", "VT_TA"]


def parse_alphabet():
    ALPHA.update(build_alphabet())
    for k, (raw, bt) in ALPHA.items():
        PARSED[k] = Burst.from_bytes(raw, burst_type=bt)


class _BrokenStdout(io.StringIO):
    """hostile-environment pass: the process's standard output cannot be written (closed pipe): whatever the tracker wants to
    print there, processing a burst must not fail because of it"""

    def write(self, _s):
        raise BrokenPipeError(32, "Broken pipe")


def _stdout_for_the_library():
    return _BrokenStdout() if env.HOSTILE else io.StringIO()


RBUF = bytearray(33)


def received(name):
    """the burst as a receive loop hands it over: parsed from a buffer that is re-used (overwritten) before the burst is processed"""
    raw, bt = ALPHA[name]
    RBUF[:] = raw
    b = Burst.from_bytes(RBUF, burst_type=bt)
    RBUF[:] = b"\x5a" * 33
    return b


def pdu_sig(p):
    """(type name, bits).  For rate blocks the tracker re-parses the block with the confirmed/last typing it derived, which
    selects a different slice of the same info bits as user data: the sig carries the user-data bits, compared by containment"""
    if p is None:
        return None
    if isinstance(p, (Rate12Data, Rate34Data, Rate1Data)):
        b = bitarray()
        b.frombytes(p.data)
        return (type(p).__name__, "data:" + b.to01())
    try:
        bits = p.as_bits().to01()
    except Exception as e:  # noqa: BLE001
        bits = "as_bits-raises:" + type(e).__name__
    return (type(p).__name__, bits)


def same_blocks(got, want):
    if len(got) != len(want):
        return False
    for g, w in zip(got, want):
        if g is None or w is None or g[0] != w[0]:
            return False
        if g[1].startswith("data:"):
            if g[1][5:] not in w[1][5:]:
                return False
        elif g[1] != w[1]:
            return False
    return True


BLOCK_TYPES = (DataHeader, CSBK, Rate12Data, Rate34Data, Rate1Data)
KIND = {TransmissionTypes.VoiceTransmission: "V", TransmissionTypes.DataTransmission: "D"}
SUCC = {
    VoiceBursts.VoiceBurstA: VoiceBursts.VoiceBurstB, VoiceBursts.VoiceBurstB: VoiceBursts.VoiceBurstC,
    VoiceBursts.VoiceBurstC: VoiceBursts.VoiceBurstD, VoiceBursts.VoiceBurstD: VoiceBursts.VoiceBurstE,
    VoiceBursts.VoiceBurstE: VoiceBursts.VoiceBurstF, VoiceBursts.VoiceBurstF: VoiceBursts.VoiceBurstA,
}


class Recorder(TransmissionObserverInterface):
    def __init__(self, tag):
        self.tag = tag
        self.events = []  # (kind, header_sig, [block sigs], handed list object)

    def transmission_started(self, transmission_type):
        self.events.append(("started", KIND.get(transmission_type, repr(transmission_type)), None, None, None))

    def data_transmission_ended(self, transmission_header, blocks):
        self.events.append(("ended", "D", pdu_sig(transmission_header), [pdu_sig(b) for b in blocks], blocks))

    def voice_transmission_ended(self, voice_header, blocks):
        self.events.append(("ended", "V", pdu_sig(voice_header), [pdu_sig(b) for b in blocks], blocks))


class Raiser(TransmissionObserverInterface):
    def transmission_started(self, transmission_type):
        raise RuntimeError("observer failure (started)")

    def data_transmission_ended(self, transmission_header, blocks):
        raise RuntimeError("observer failure (data ended)")

    def voice_transmission_ended(self, voice_header, blocks):
        raise RuntimeError("observer failure (voice ended)")


class UnhashableRaiser(Raiser):
    """an observer with value equality and therefore no hash (what every @dataclass observer is)"""

    def __init__(self, tag="u"):
        self.tag = tag

    def __eq__(self, other):
        return isinstance(other, UnhashableRaiser) and other.tag == self.tag

    __hash__ = None


class FalsyRaiser(Raiser):
    """an observer that is a (still empty) container: falsy"""

    def __len__(self):
        return 0

    def transmission_started(self, transmission_type):
        raise KeyError("observer failure (started)")


def raisers():
    return [Raiser(), UnhashableRaiser(), FalsyRaiser()]


class SlotMonitor:
    def __init__(self, prev_seq=0):
        self.open = None
        self.since_start = []  # pdu sigs of block-bearing bursts since the burst that caused the start
        self.header = {"V": None, "D": None}
        self.prev_seq = prev_seq
        self.prev_voice_label = None
        self.air_voice = False  # the call as it is on the air: a voice LC header was received and since then nothing but voice bursts
        self.seen_ids = set()
        self.cur_id = None
        self.prev_stamp = None

    def key(self):
        return (self.open, tuple(self.since_start), tuple(sorted((k, v) for k, v in self.header.items())), self.prev_seq,
                self.prev_voice_label.name if self.prev_voice_label else None, self.prev_stamp is not None and self.prev_stamp == self.cur_id, self.air_voice)


SKIP = frozenset({"observers", "_io", "_parent", "_root", "log_instance", "_log"})


def rename_tokens(v):
    if isinstance(v, bytes) and len(v) == 4:
        return b"tok."
    return v


def monitor_update(m, slot, burst, out, raised, evs, case):
    """property monitor for one timeslot: consumes the events delivered during one process_burst call"""
    viol = []
    cur_sig = pdu_sig(burst.data) if isinstance(burst.data, BLOCK_TYPES) else None
    is_vh = burst.data_type == DataTypes.VoiceLCHeader
    is_dh = burst.data_type == DataTypes.DataHeader
    appended_current = False
    had_event = False
    ended_in_burst = False
    for kind, k, hdr, blocks, handed in evs:
        had_event = True
        if kind == "started":
            m.open = k
            m.since_start = []
            m.header = {"V": None, "D": None}
        else:
            ended_in_burst = True
            if m.open != k:
                viol.append(("ended_%s_without_open_%s_transmission" % (k, k), {**case, "open": m.open}))
            else:
                # header of kind k received since the start (the current burst may be that header)
                want_hdr = m.header[k]
                if (k == "V" and is_vh) or (k == "D" and is_dh):
                    want_hdr = pdu_sig(burst.data)
                if hdr != want_hdr:
                    viol.append(("ended_hands_over_wrong_header", {**case, "got": hdr and hdr[0], "want": want_hdr and want_hdr[0]}))
                want_blocks = list(m.since_start)
                if cur_sig is not None and not appended_current:
                    want_blocks_incl = want_blocks + [cur_sig]
                else:
                    want_blocks_incl = want_blocks
                if not same_blocks(blocks, want_blocks_incl) and not same_blocks(blocks, want_blocks):
                    viol.append(("ended_hands_over_wrong_blocks", {**case, "got": [b[0] for b in blocks], "want": [b[0] for b in want_blocks_incl]}))
                if handed is not None and [pdu_sig(b) for b in handed] != blocks:
                    viol.append(("handed_over_block_list_modified_after_notification", case))
            m.open = None
            m.since_start = []
            m.header = {"V": None, "D": None}
    # bookkeeping of what was received since the (possibly new) start
    if m.open is not None or True:
        if cur_sig is not None:
            if not (evs and evs[-1][0] == "ended"):
                m.since_start.append(cur_sig)
        if is_vh:
            m.header["V"] = pdu_sig(burst.data)
        if is_dh:
            m.header["D"] = pdu_sig(burst.data)
    if m.open is None and not (evs and evs[-1][0] == "started"):
        # nothing open: received blocks do not belong to any started transmission
        m.since_start = []
        m.header = {"V": None, "D": None}
    # rule 3: after an end the tracker is idle with a fresh stream id
    new_id = slot.transmission.stream_no
    if had_event:
        if evs[-1][0] == "ended" and slot.transmission.type != TransmissionTypes.Idle:
            viol.append(("tracker_not_idle_after_ended", {**case, "type": slot.transmission.type.name}))
        if new_id in m.seen_ids:
            viol.append(("stream_id_not_fresh_after_start_or_end", case))
        m.seen_ids.add(new_id)
    m.cur_id = new_id
    if raised is None and out is not None:
        # rule 5: sequence numbers
        want_seq = (m.prev_seq + 1) % 256 if m.prev_seq is not None else out.sequence_no
        if out.sequence_no != want_seq:
            viol.append(("sequence_number_not_successor", {**case, "got": out.sequence_no, "want": want_seq}))
        resync = m.prev_seq is None
        m.prev_seq = 0 if ended_in_burst else out.sequence_no
        if resync:
            m.prev_seq = slot.rx_sequence  # numbering state after an externally forced end: whatever the timeslot holds now
        # rule 4: A-F labelling inside a voice transmission
        is_voice_burst = burst.data_type == DataTypes.Reserved and not isinstance(burst.data, BLOCK_TYPES)
        # "within a voice transmission": as the tracker sees it (a voice transmission is open) or as it is on the air (a voice LC header
        # was received and nothing but voice bursts since) -- a tracker that ends the call on its own in the middle does not escape
        in_voice = ((m.open == "V") and not had_event) or m.air_voice
        if is_voice_burst and in_voice:
            if burst.is_voice_superframe_start:
                if out.voice_burst != VoiceBursts.VoiceBurstA:
                    viol.append(("voice_sync_burst_not_labelled_A", {**case, "label": out.voice_burst.name}))
            elif m.prev_voice_label in SUCC and out.voice_burst != SUCC[m.prev_voice_label]:
                viol.append(("voice_burst_label_not_cyclic_successor", {**case, "prev": m.prev_voice_label.name, "label": out.voice_burst.name}))
            m.prev_voice_label = out.voice_burst if out.voice_burst in SUCC else None
        else:
            m.prev_voice_label = None
        m.air_voice = True if is_vh else (m.air_voice if is_voice_burst else False)
    else:
        m.prev_voice_label = None
        m.prev_stamp = None
        m.air_voice = False
        # the sequence counter state after a failure is whatever the implementation left; resync
        m.prev_seq = slot.rx_sequence
    return viol


class Tracker(explore.System):
    INITS = ["fresh"]
    SLOTS = [1]
    EVENTS = None  # default: full alphabet
    SHADOW = False

    def __init__(self, init):
        SEAMS.tok = 0
        self.tok = 0
        self.rec_a = Recorder("term-before")
        self.rec_b = Recorder("term-after")
        self.term = Terminal(dmrid=1, observers=[self.rec_a] + raisers() + [self.rec_b])
        self.slot_rec = {}
        for n in (1, 2):
            for r_ in raisers():
                self.term.timeslots[n].add_observer(r_)
            self.slot_rec[n] = Recorder(f"slot{n}")
            self.term.timeslots[n].add_observer(self.slot_rec[n])
        self.mon = {n: SlotMonitor() for n in (1, 2)}
        if init == "seq254":
            for n in (1, 2):
                self.term.timeslots[n].rx_sequence = 254
                self.mon[n].prev_seq = 254
        for n in (1, 2):
            self.mon[n].cur_id = self.term.timeslots[n].transmission.stream_no
            self.mon[n].seen_ids.add(self.mon[n].cur_id)
        self.tok = SEAMS.tok
        self.shadow = None
        if self.SHADOW:
            shadow_cls = type("Shadow", (Tracker,), {"SHADOW": False, "SLOTS": self.SLOTS, "EVENTS": self.EVENTS})
            self.shadow = {n: shadow_cls(init) for n in self.SLOTS}
        self.obs = None

    def events(self):
        names = self.EVENTS or list(ALPHA)
        return [(nm, ts) for ts in self.SLOTS for nm in names]

    def step(self, ev):
        name, ts = ev
        viol = []
        SEAMS.tok = self.tok
        random.seed(20230917)  # the embedding application seeds the global generator whenever it likes: ids must stay fresh
        burst = received(name)
        for r in [self.rec_a, self.rec_b] + list(self.slot_rec.values()):
            r.events = []
        slot = self.term.timeslots[ts]
        other = self.term.timeslots[3 - ts]
        other_before = repr(canon(other, skip=SKIP, rename=rename_tokens))
        raised = None
        out = None
        buf = _stdout_for_the_library()
        try:
            with contextlib.redirect_stdout(buf):
                out = self.term.process_incoming_burst(burst, ts)
        except Exception as e:  # noqa: BLE001
            raised = e
        self.tok = SEAMS.tok
        m = self.mon[ts]
        case = {"event": [name, ts], "open_before": m.open}
        evs = self.slot_rec[ts].events
        case["events"] = [(e[0], e[1], e[3] and [b[0] if b else None for b in e[3]]) for e in evs]
        # rule 1: processing never fails, returns the burst
        if raised is not None:
            viol.append(("exception:" + exc_sig(raised), {**case, "exc": repr(raised)}))
        elif out is not burst:
            viol.append(("returned_object_is_not_the_burst", case))
        else:
            # tracking labels the burst (voice burst id, sequence and stream numbers); it does not change what the burst is
            try:
                if out.as_bytes() != ALPHA[name][0]:
                    viol.append(("returned_burst_serialises_differently", case))
            except Exception as e:  # noqa: BLE001
                viol.append(("returned_burst_cannot_be_serialised:" + exc_sig(e), {**case, "exc": repr(e)}))
        # rule 6: observer isolation -- both terminal-level recorders and the slot recorder saw the same events
        strip = lambda l: [(e[0], e[1], e[2], e[3]) for e in l]  # noqa: E731
        if strip(self.rec_a.events) != strip(self.rec_b.events):
            viol.append(("raising_observer_hid_events_from_later_observer", {**case, "before": len(self.rec_a.events), "after": len(self.rec_b.events)}))
        if self.slot_rec[3 - ts].events:
            viol.append(("event_delivered_on_other_timeslot", case))
        if strip(evs) != strip(self.rec_b.events):
            viol.append(("terminal_and_timeslot_observers_disagree", {**case, "slot": len(evs), "terminal": len(self.rec_b.events)}))
        # rule 7a: the other timeslot is untouched
        if repr(canon(other, skip=SKIP, rename=rename_tokens)) != other_before:
            viol.append(("other_timeslot_state_changed", case))

        viol += monitor_update(m, slot, burst, out, raised, evs, case)
        # rule 7b: non-interference -- each slot behaves like the single-slot run of its projection
        if self.shadow is not None:
            sh = self.shadow[ts]
            sh.step((name, ts))
            mine = (strip(evs), out.sequence_no if out is not None else None, out.voice_burst.name if out is not None else None, type(raised).__name__ if raised else None)
            if sh.obs != mine:
                viol.append(("timeslot_behaviour_depends_on_other_timeslot", {**case, "shadow": repr(sh.obs)[:300], "mine": repr(mine)[:300]}))
        self.obs = (strip(evs), out.sequence_no if out is not None else None, out.voice_burst.name if out is not None else None,
                    type(raised).__name__ if raised else None)
        return viol

    def key(self):
        k = [repr(canon(self.term.timeslots[n], skip=SKIP, rename=rename_tokens)) for n in (1, 2)]
        k += [self.mon[n].key() for n in (1, 2)]
        if self.shadow is not None:
            k += [self.shadow[n].key() for n in self.SLOTS]
        return tuple(k)



# ------------------------------------------------------------------------------------------------
# TransmissionWatcher: routing of bursts to per-target terminals, end_all_transmissions
# ------------------------------------------------------------------------------------------------
from okdmr.dmrlib.transmission.transmission_watcher import TransmissionWatcher  # noqa: E402

TARGETS_W = [101, 202]


class WatcherSys(explore.System):
    INITS = ["fresh"]
    EVENTS = ["VH", "VT", "VS", "VE", "DH_U1", "DH_C1", "PRE2", "R12_0", "R12_X"]

    def __init__(self, init):
        SEAMS.tok = 0
        self.tok = 0
        self.rec_a = Recorder("w-before")
        self.rec_b = Recorder("w-after")
        self.w = TransmissionWatcher(observers=[self.rec_a] + raisers() + [self.rec_b])
        self.slot_rec = {}  # (target, ts) -> Recorder
        self.mon = {}
        self.obs = None

    def events(self):
        evs = [(nm, tg) for tg in TARGETS_W for nm in self.EVENTS]
        evs += [("VS", 0), ("END_ALL", 0)]
        return evs

    def _ensure(self, tg):
        self.w.ensure_terminal(tg)
        term = self.w.terminals[tg]
        for n in (1, 2):
            if (tg, n) not in self.slot_rec:
                r = Recorder(f"{tg}/{n}")
                term.timeslots[n].add_observer(r)
                self.slot_rec[(tg, n)] = r
                m = SlotMonitor()
                m.cur_id = term.timeslots[n].transmission.stream_no
                m.seen_ids.add(m.cur_id)
                self.mon[(tg, n)] = m

    def _state_of_others(self, tg):
        return repr(canon({k: t.timeslots for k, t in self.w.terminals.items() if k != tg}, skip=SKIP, rename=rename_tokens))

    def step(self, ev):
        name, tg = ev
        viol = []
        SEAMS.tok = self.tok
        for r in [self.rec_a, self.rec_b] + list(self.slot_rec.values()):
            r.events = []
        case = {"event": [name, tg]}
        buf = _stdout_for_the_library()
        if name == "END_ALL":
            raised = None
            try:
                with contextlib.redirect_stdout(buf):
                    self.w.end_all_transmissions()
            except Exception as e:  # noqa: BLE001
                raised = e
                viol.append(("exception_end_all:" + exc_sig(e), {**case, "exc": repr(e)}))
            self.tok = SEAMS.tok
            for key, rec in self.slot_rec.items():
                m = self.mon[key]
                for kind, k, hdr, blocks, handed in rec.events:
                    if kind == "ended":
                        if m.open != k:
                            viol.append(("ended_%s_without_open_%s_transmission" % (k, k), {**case, "terminal": key[0], "open": m.open}))
                        elif not same_blocks(blocks, m.since_start):
                            viol.append(("ended_hands_over_wrong_blocks", {**case, "terminal": key[0]}))
                        m.open = None
                        m.since_start = []
                        m.header = {"V": None, "D": None}
                        # an end forced from outside (not by a burst) restarts the numbering one burst late; the statement
                        # quantifies over burst sequences only, so the next sequence number is not constrained
                        m.prev_seq = None
                        m.prev_voice_label = None
                        m.air_voice = False
                        slot = self.w.terminals[key[0]].timeslots[key[1]]
                        if slot.transmission.type != TransmissionTypes.Idle:
                            viol.append(("tracker_not_idle_after_ended", {**case, "terminal": key[0]}))
                        if slot.transmission.stream_no in m.seen_ids:
                            viol.append(("stream_id_not_fresh_after_start_or_end", {**case, "terminal": key[0]}))
                        m.seen_ids.add(slot.transmission.stream_no)
                    else:
                        viol.append(("started_during_end_all", {**case, "terminal": key[0]}))
            self.obs = ("END_ALL", tuple(sorted((k, len(r.events)) for k, r in self.slot_rec.items())))
            return viol
        burst = received(name)
        burst.timeslot = 1
        if tg:
            burst.target_radio_id = tg
            self._ensure(tg)
        n_terms = len(self.w.terminals)
        others_before = self._state_of_others(tg)
        raised = None
        out = None
        try:
            with contextlib.redirect_stdout(buf):
                out = self.w.process_burst(burst)
        except Exception as e:  # noqa: BLE001
            raised = e
        self.tok = SEAMS.tok
        if tg == 0:
            # a burst without a resolvable target is ignored: nothing changes, nothing is delivered
            if raised is not None:
                viol.append(("exception:" + exc_sig(raised), {**case, "exc": repr(raised)}))
            if out is not None or self.rec_b.events or len(self.w.terminals) != n_terms or self._state_of_others(-1) != self._state_of_others(-1):
                viol.append(("untargeted_burst_not_ignored", case))
            self.obs = (name, tg, None)
            return viol
        if self._state_of_others(tg) != others_before:
            viol.append(("burst_changed_another_terminal", case))
        for key, rec in self.slot_rec.items():
            if key != (tg, 1) and rec.events:
                viol.append(("event_delivered_on_other_terminal_or_timeslot", {**case, "where": list(key)}))
        m = self.mon[(tg, 1)]
        evs = self.slot_rec[(tg, 1)].events
        case["open_before"] = m.open
        case["events"] = [(e[0], e[1]) for e in evs]
        strip = lambda l: [(e[0], e[1], e[2], e[3]) for e in l]  # noqa: E731
        if raised is not None:
            viol.append(("exception:" + exc_sig(raised), {**case, "exc": repr(raised)}))
        elif out is not burst:
            viol.append(("returned_object_is_not_the_burst", case))
        if strip(self.rec_a.events) != strip(self.rec_b.events) or strip(evs) != strip(self.rec_b.events):
            viol.append(("watcher_observers_disagree", case))
        slot = self.w.terminals[tg].timeslots[1]
        viol += monitor_update(m, slot, burst, out, raised, evs, case)
        self.obs = (name, tg, strip(evs), out.sequence_no if out is not None else None, out.voice_burst.name if out is not None else None)
        return viol

    def key(self):
        return (
            repr(canon({k: t.timeslots for k, t in self.w.terminals.items()}, skip=SKIP, rename=rename_tokens)),
            tuple(sorted((k, m.key()) for k, m in self.mon.items())),
        )


def make(name, slots, events, inits, shadow=False):
    return type(name, (Tracker,), {"SLOTS": slots, "EVENTS": events, "INITS": inits, "SHADOW": shadow})


WHAT = {
    "ended_D_without_open_D_transmission": "'data ended' delivered although no data transmission was started and still open",
    "ended_V_without_open_V_transmission": "'voice ended' delivered although no voice transmission was started and still open",
    "tracker_not_idle_after_ended": "tracker not idle after an 'ended' notification",
    "stream_id_not_fresh_after_start_or_end": "stream id reused",
    "sequence_number_not_successor": "receive sequence number is not previous+1 mod 256 (or 1 after an end)",
    "voice_burst_label_not_cyclic_successor": "voice burst label is not the cyclic successor of the previous voice burst",
}


def plan(rep):
    t = rep.thorough()
    full = None
    return [
        # name, class, depth
        ("single_slot_all_sequences", make("S1", [1], full, ["fresh"]), 4 if t else 3),
        ("single_slot_core_deeper", make("S2", [1], CORE, ["fresh", "seq254"]), 6 if t else 4),
        ("two_slots_noninterference", make("S3", [1, 2], CORE if t else ["VH", "VT", "VS", "VE", "DH_U1", "DH_C1", "PRE2", "R12_0", "R12_X"], ["fresh"], shadow=True), 3),
        ("voice_superframes", make("S4", [1], ["VH", "VS", "VE", "VT", "R12_0"], ["fresh", "seq254"]), 10 if t else 8),
        ("watcher_two_terminals", WatcherSys, 4 if t else 3),
    ]


def run(only=None):
    rep = Report("C08")
    env.import_all_okdmr()
    SEAMS.install()
    parse_alphabet()
    rep.explanation = (
        "Breadth-first explicit-state search over a real Terminal: one transition = one process_incoming_burst call with a burst "
        "parsed from 33 pre-serialised bytes; all sequences to the stated depth (concrete canonical state = generic structural hash of "
        "both Timeslot objects + monitor, stream-id tokens renamed); every discovered state re-built from its path on fresh objects."
    )
    rep.assumptions = [
        "secrets.token_bytes replaced by a counter (stream ids 1,2,3,... so 'fresh' is decidable), time() constant",
        "bursts are the alphabet's 23 members (one per dispatch branch of the tracker + variants of blocks-to-follow / confirmed / SAP)",
        "a 'started' while another transmission is open implicitly abandons it (the statement only constrains 'ended')",
        "voice label rule applies to consecutive voice bursts inside a voice transmission, from a voice-sync burst on",
    ]
    for name, cls, depth in plan(rep):
        if only and name not in only:
            continue
        s = rep.sub(name, rule=f"BFS all sequences to depth {depth}, slots={getattr(cls, 'SLOTS', 'watcher: 2 target terminals + untargeted + end_all')}, events={cls.EVENTS or 'all %d' % len(ALPHA)}, inits={cls.INITS}; "
                               "non-trivial = distinct (event list, sequence no, label) observations")
        res = explore.bfs(cls, max_depth=depth, log=rep.log)
        explore.feed(s, res, WHAT, name=name, rep=rep)
        s.done()
        rep.bounds[name] = {"depth_completed": res.depth_completed, "states": res.states, "transitions": res.transitions}
    if not only or "long_data_transmission" in only:
        from okdmr.dmrlib.transmission.transmission_generator import TransmissionGenerator as _TG
        from okdmr.dmrlib.etsi.layer2.pdu.data_header import DataHeader as _DH
        from okdmr.dmrlib.etsi.layer2.elements.data_packet_formats import DataPacketFormats as _DPF
        from okdmr.dmrlib.etsi.layer2.elements.sap_identifier import SAPIdentifier as _SAP
        from okdmr.dmrlib.etsi.layer2.elements.full_message_flag import FullMessageFlag as _FMF
        from okdmr.dmrlib.etsi.layer2.elements.resynchronize_flag import ResynchronizeFlag as _RF
        s = rep.sub("long_data_transmission",
                    "linear histories with the longest transmissions the header can announce: (preambles, data blocks) in {(16, 120), (16, 127), (0, 127), "
                    "(100, 40)} at rate 1/2, generated by the library and received by one Terminal: one started, one ended, the ended event hands over "
                    "every preamble, the header and every block, in order, and the tracker is idle afterwards")
        for k_pre, n_blk in ((16, 120), (16, 127), (0, 127), (100, 40)):
            case = {"preambles": k_pre, "data_blocks": n_blk}
            try:
                payload = bytes((i * 7 + 3) & 0xFF for i in range((n_blk - 1) * 12 + 8))
                blocks_, pad_ = _TG.generate_data_bursts(packet_type=Rate12Data, userdata=payload, colour_code=1, is_confirmed=False)
                hdr_ = _DH(dpf=_DPF.DataPacketUnconfirmed, is_group=False, is_response_requested=False, pad_octet_count=pad_, sap_identifier=_SAP.ShortData,
                           llid_destination=2305678, llid_source=2301234, full_message_flag=_FMF.FirstTryToCompletePacket, blocks_to_follow=len(blocks_),
                           resynchronize_flag=_RF.DoNotSync, send_sequence_number=0, fragment_sequence_number=8)
                bursts_ = _TG.generate_full_data_transmission(packet_type=Rate12Data, userdata=payload, data_header=hdr_, csbk_count=k_pre, colour_code=1)
                rec = Recorder("long")
                SEAMS.tok = 0
                term = Terminal(dmrid=1, observers=[rec])
                with contextlib.redirect_stdout(_stdout_for_the_library()):
                    for b_ in bursts_:
                        term.process_incoming_burst(Burst.from_bytes(b_.as_bytes()), 1)
                kinds_ = [(e[0], e[1]) for e in rec.events]
                if kinds_ != [("started", "D"), ("ended", "D")]:
                    s.violation("long_data_transmission:not_one_started_one_ended", {**case, "events": kinds_[:6]})
                else:
                    handed = rec.events[1][3]
                    if len(handed) != k_pre + 1 + len(blocks_):
                        s.violation("long_data_transmission:handed_over_blocks_incomplete", {**case, "handed_over": len(handed), "received": k_pre + 1 + len(blocks_)},
                                    "the ended event does not hand over every block received since the start")
                if term.timeslots[1].transmission.type.name != "Idle":
                    s.violation("long_data_transmission:tracker_not_idle_after_ended", case)
            except Exception as e:  # noqa: BLE001
                s.violation("long_data_transmission:exception:" + exc_sig(e), case, repr(e))
            s.case(nontrivial=True, calls=k_pre + 1 + n_blk, outcome=(k_pre, n_blk), sample=case if len(s.samples) < 1 else None)
        s.done()
    return rep.finish()


def replay(doc):
    env.import_all_okdmr()
    SEAMS.install()
    parse_alphabet()
    classes = {n: c for n, c, _ in plan(type("R", (), {"thorough": lambda self: True})())}
    cls = classes[doc["check"]]
    bad = 0
    for c in doc.get("cases", []):
        s = cls(c["init"])
        for ev in c["path"]:
            v = s.step(tuple(ev))
            print("  ", ev, "->", repr(s.obs)[:200], ("VIOLATIONS: " + repr([x[0] for x in v])) if v else "")
            bad += len(v)
    print("replay:", "still fails" if bad else "does not reproduce")
    return 1 if bad else 0

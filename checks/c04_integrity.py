"""C04 -- integrity indicators of parsed PDUs tell the truth about the received bits.

Technique: complete enumeration on the real code (E1) + fault enumeration.
  1. slot_type_all_words / emb_all_words : all 2^20 / 2^16 received words; indicator == membership in the code
     (reference: the codes as extended cyclic codes, mc/oracle/gf2.py -- shares nothing with the library)
  2. encoded_then_parsed_ok : every PDU with a check field that the library serialises parses back with indicator True
     (slot type x256, EMB x128, data header x5, PI header, short LC x2 (direct and through VBPTC 68,28),
     confirmed rate blocks 3 rates x 2, HRNP around a catalogue of HDAP payloads); check values are also
     recomputed with the harness's own GF(2) division
  3. corruption_* : base PDUs x ALL error patterns of weight <= 2 (quick) / <= 3 (thorough) and ALL bursts no longer
     than the check field, over all PDU bits.  Exact oracle: the pattern is guaranteed detectable iff its polynomial
     (PDU bit -> codeword exponent map transcribed here) is not a multiple of the generator; then the parse must
     raise or report the indicator False; the only exemption is an error confined to reserved (constant) bits of the
     layout that the parser ignores, when the parsed PDU re-serialises to exactly the original.
  4. crc9_last_block_crc32_single_bit : confirmed last blocks whose CRC-32 field has weight 1, all 2^9 low-order data
     values: the single-bit error that zeroes the CRC-32 field
  5. hrnp_corruption : all single-bit errors and single aligned 16-bit word errors (the sum's own guarantee)
Base PDUs of the fault sweeps are fixed (not seed dependent); VERIF_SEED only adds background PDUs to sub-check 2.
"""
from mc import env  # noqa: F401  (must be first)
from mc import par, spaces
from mc.hist import observe
from mc.report import Report, Acc, exc_sig
from mc.oracle import gf2

import itertools
import contextlib
import io

from bitarray import bitarray
from bitarray.util import int2ba, ba2int

from checks import c03_pdus as c03

from okdmr.dmrlib.etsi.layer2.pdu.slot_type import SlotType
from okdmr.dmrlib.etsi.layer2.pdu.embedded_signalling import EmbeddedSignalling
from okdmr.dmrlib.etsi.layer2.pdu.data_header import DataHeader
from okdmr.dmrlib.etsi.layer2.pdu.pi_header import PIHeader
from okdmr.dmrlib.etsi.layer2.pdu.short_link_control import ShortLinkControl
from okdmr.dmrlib.etsi.layer2.elements.data_types import DataTypes
from okdmr.dmrlib.etsi.layer2.elements.lcss import LCSS
from okdmr.dmrlib.etsi.fec.vbptc_68_28 import VBPTC6828
from okdmr.dmrlib.hytera.pdu.hrnp import HRNP, HRNPOpcodes
from okdmr.dmrlib.hytera.pdu.radio_control_protocol import (
    RadioControlProtocol, RCPOpcode, RCPResult, RadioIpIdTarget, RCPCallType,
)
from okdmr.dmrlib.hytera.pdu.location_protocol import LocationProtocol, LocationProtocolSpecificService
from okdmr.dmrlib.hytera.pdu.text_message_protocol import TextMessageProtocol, TMPService, TMPResultCodes
from okdmr.dmrlib.hytera.pdu.radio_registration_service import RadioRegistrationService, RRSTypes, RRSResult
from okdmr.dmrlib.hytera.pdu.radio_ip import RadioIP
from okdmr.dmrlib.etsi.layer3.elements.talker_alias_data_format import TalkerAliasDataFormat

bits_of = c03.bits_of

# generator polynomials, ETSI TS 102 361-1 B.3.7, B.3.8, B.3.10, and data type CRC masks B.3.12
G_CRC8 = 0x107       # x^8 + x^2 + x + 1
G_CRC9 = 0x259       # x^9 + x^6 + x^4 + x^3 + 1
G_CCITT = 0x11021    # x^16 + x^12 + x^5 + 1
MASK_DATA_HEADER = 0xCCCC
MASK_PI_HEADER = 0x6969
MASK_CRC9 = {"r12": 0x0F0, "r34": 0x1FF, "r1": 0x10F}


# =====================================================================================
# 1. the two small FEC words, all received words
# =====================================================================================
def w_slot_words(task):
    lo, hi = task
    code = CODE["golay"]
    acc = Acc()
    zero_field_accepted = []
    reserialised_differs = 0
    for w in range(lo, hi):
        s = bits_of(w, 20)
        try:
            st = SlotType.from_bits(bitarray(s))
            got = bool(st.fec_parity_ok)
        except Exception as e:
            acc.violation("exception:" + exc_sig(e), {"word": s}, repr(e))
            acc.case()
            continue
        want = w in code
        if got != want:
            if got and (w & 0xFFF) == 0:
                zero_field_accepted.append(w)          # judged by the parent (closed-form set)
            elif got:
                acc.violation("accepts_non_codeword", {"word": s, "colour_code": w >> 16, "data_type": (w >> 12) & 15},
                              "fec_parity_ok is True for a received word that is not a Golay(20,8,7) codeword")
            else:
                acc.violation("rejects_codeword", {"word": s, "colour_code": w >> 16, "data_type": (w >> 12) & 15},
                              "fec_parity_ok is False for a received Golay(20,8,7) codeword")
        if got and st.as_bits().to01() != s:
            reserialised_differs += 1
        acc.case(nontrivial=True, calls=1, outcome=(got, want), sample={"word": s, "ok": got} if w == lo and lo == 0 else None)
    return acc, zero_field_accepted, reserialised_differs


def w_emb_words(task):
    lo, hi = task
    code = CODE["qr"]
    acc = Acc()
    zero_field_accepted = []
    reserialised_differs = 0
    for w in range(lo, hi):
        s = bits_of(w, 16)
        try:
            e = EmbeddedSignalling.from_bits(bitarray(s))
            got = bool(e.emb_parity_ok)
        except Exception as ex:
            acc.violation("exception:" + exc_sig(ex), {"word": s}, repr(ex))
            acc.case()
            continue
        want = w in code
        if got != want:
            if got and (w & 0x1FF) == 0:
                zero_field_accepted.append(w)
            elif got:
                acc.violation("accepts_non_codeword", {"word": s},
                              "emb_parity_ok is True for a received word that is not a QR(16,7,6) codeword")
            else:
                acc.violation("rejects_codeword", {"word": s}, "emb_parity_ok is False for a received QR(16,7,6) codeword")
        if got and e.as_bits().to01() != s:
            reserialised_differs += 1
        acc.case(nontrivial=True, calls=1, outcome=(got, want), sample={"word": s, "ok": got} if w == lo and lo == 0 else None)
    return acc, zero_field_accepted, reserialised_differs


def w_emb_words_after_other_codes(task):
    """the same sweep, but every word has just been looked at by the other codes of the library that work on words of the same length
    (the extended Hamming (16,11,4) of the embedded-LC rows shares its helpers with the QR code of the EMB field) - as happens when a
    voice superframe is parsed: embedded LC rows and EMB words alternate"""
    from okdmr.dmrlib.etsi.fec.hamming_16_11_4 import Hamming16114
    import numpy as _np

    lo, hi = task
    for w in range(lo, hi):
        s = bits_of(w, 16)
        try:
            Hamming16114.check(bitarray(s))
            Hamming16114.check(_np.array([int(c) for c in s]))
        except Exception:  # noqa: BLE001 - whatever the other code does with the word
            pass
    return w_emb_words(task)


CODE = {}


def fec_words(rep, nw, name, width, field_bits, worker, expected_zero_set):
    s = rep.sub(name, f"all 2^{width} received words; indicator must equal membership in the reference code; every word is a "
                      f"distinct non-trivial case")
    s.declared = 1 << width
    zero = []
    differs = 0
    for acc, z, d in par.pmap(worker, par.chunks(1 << width, 128), nw):
        s.merge(acc)
        zero += z
        differs += d
    # closed-form set of the 'generate when zero' sentinel: every non-codeword whose received parity field is all-zero
    if zero:
        if sorted(zero) == expected_zero_set:
            sig = f"zero_parity_field_non_codeword_accepted_{len(expected_zero_set)}"
            what = (f"all {len(expected_zero_set)} received words whose parity field is all-zero and that are not codewords "
                    f"report parity ok (the zero field is taken as 'please generate')")
        else:
            sig = "zero_parity_field_non_codeword_accepted_set_deviates"
            what = f"{len(zero)} zero-parity non-codewords accepted, expected exactly the {len(expected_zero_set)} of the sentinel"
        for w in sorted(zero):
            s.violation(sig, {"word": bits_of(w, width)}, what)
    s.extra["accepted_words_whose_reserialisation_differs_from_received"] = differs
    s.done()
    rep.log(f"{name}: {s.n} words, {len(s.viol)} violation signatures, {s.wall}s")
    return s


# =====================================================================================
# harness-side check values
# =====================================================================================
def ccitt(msg_bits: str, mask: int) -> int:
    return (gf2.crc_remainder(msg_bits, G_CCITT) ^ 0xFFFF) ^ mask


def crc9(msg_bits: str, mask: int) -> int:
    return (gf2.crc_remainder(msg_bits, G_CRC9) ^ 0x1FF) ^ mask


def crc8(msg_bits: str) -> int:
    return gf2.crc_remainder(msg_bits, G_CRC8)


class Protected:
    """a CRC-protected PDU kind: c03 kind + code description.
    exps[pos] = exponent of PDU bit `pos` in the codeword polynomial (None: bit not covered / reserved)"""

    def __init__(self, kind, g, width, exps, expect, indicator):
        self.kind = kind
        self.name = kind.name
        self.g = g
        self.width = width
        self.exps = exps
        self.expect = expect          # bits(str) -> expected check field bits (str), harness arithmetic
        self.indicator = indicator    # parsed object -> bool
        self.crc_pos = [i for i, m in enumerate(kind.crc_mask) if m]
        # x^e mod g per position, so that the syndrome of a pattern is an xor of table entries
        self.syn = [gf2.pmod(1 << e, g) if e is not None else 0 for e in exps]


def protected_kinds():
    out = {}
    kinds = {k.name: k for k in c03.all_kinds()}
    # data headers and PI header: CRC-CCITT over bits 0..79, check field bits 80..95 MSB first
    for name in ("dh_confirmed", "dh_unconfirmed", "dh_response", "dh_short_data_defined", "dh_udt", "pi_header"):
        k = kinds[name]
        mask = MASK_PI_HEADER if name == "pi_header" else MASK_DATA_HEADER
        exps = [95 - p for p in range(96)]
        # reserved (constant) bits are not part of what the library keeps: an error there is 'ignored bits'
        out[name] = Protected(k, G_CCITT, 16, exps, (lambda b, mask=mask: bits_of(ccitt(b[:80], mask), 16)),
                              lambda o: o.crc_ok)
    # short LC: CRC-8 over bits 0..27; the library's serialisation carries the CRC LSB first in bits 28..35
    for name in ("slc_null", "slc_activity_update"):
        k = kinds[name]
        exps = [8 + 27 - p for p in range(28)] + [i for i in range(8)]
        out[name] = Protected(k, G_CRC8, 8, exps, (lambda b: bits_of(crc8(b[:28]), 8)[::-1]), lambda o: o.crc_ok)
    # confirmed rate blocks: CRC-9 over data || (crc32) || dbsn; field in bits 7..15 LSB first
    for rn, (cls, T, L) in c03.RATES.items():
        for variant in ("confirmed", "confirmed_last"):
            k = kinds[f"{rn}_{variant}"]
            pre = L - 16                      # data (+ crc32) bits that precede the dbsn in the CRC input
            exps = [None] * L
            for j in range(7):
                exps[j] = 9 + 6 - j
            for i in range(9):
                exps[7 + i] = i
            for q in range(pre):
                exps[16 + q] = 16 + (pre - 1 - q)
            out[k.name] = Protected(
                k, G_CRC9, 9, exps,
                (lambda b, rn=rn: bits_of(crc9(b[16:] + b[:7], MASK_CRC9[rn]), 9)[::-1]),
                lambda o: o.crc9_ok)
    return out


# =====================================================================================
# 2. library-encoded => indicator True
# =====================================================================================
PROT = {}
ENC_CASES = {}


def w_encoded(task):
    name, lo, hi = task
    p = PROT[name]
    k = p.kind
    cases = ENC_CASES[name]
    acc = Acc()
    for i in range(lo, hi):
        vals = cases[i]
        case = {"kind": name, "values": {f: (v if v < (1 << 53) else hex(v)) for f, v in vals.items()}}
        out = "ok"
        try:
            bits = k.build(vals).as_bits()
            s = bits.to01()
            back = k.parse(bitarray(s))
            if not p.indicator(back):
                acc.violation(f"{name}:library_encoded_pdu_reports_check_failed", {**case, "bits": s},
                              "a PDU serialised by the library parses back with its 'ok' indicator False")
                out = "indicator_false"
            else:
                # the verdict is a fact about the received bits: it does not change when the object is looked at (repr, str, ==, hash)
                observe(back, light=True)
                if not p.indicator(back):
                    acc.violation(f"{name}:indicator_changes_after_the_pdu_was_looked_at", {**case, "bits": s})
                    out = "indicator_false"
            got = "".join(s[i] for i in p.crc_pos)
            want = p.expect(s)
            if got != want:
                if name.endswith("confirmed_last") and s[-32:] == "0" * 32:
                    acc.violation(f"{name}:zero_crc32_field_left_out_of_crc9", {**case, "bits": s, "got": got, "want": want},
                                  "last block with CRC-32 field 0: the emitted CRC-9 does not cover the 32 zero bits (differs from the "
                                  "harness's CRC-9 over data||crc32||dbsn)")
                else:
                    acc.violation(f"{name}:check_value_differs_from_reference", {**case, "bits": s, "got": got, "want": want},
                                  "the emitted check field differs from the harness's GF(2) computation over the emitted bits")
                out = "value_differs"
            if name.startswith("slc_"):
                # the only on-air path of a short LC: BPTC(68,28) encode, de-interleave, parse
                air = VBPTC6828.encode(bitarray(s))
                back2 = ShortLinkControl.from_bits(VBPTC6828.deinterleave_data_bits(air, include_crc8=True))
                if not back2.crc_ok:
                    acc.violation(f"{name}:library_encoded_pdu_reports_check_failed_via_vbptc", {**case, "bits": s, "on_air": air.to01()},
                                  "short LC serialised, BPTC(68,28)-encoded and decoded by the library reports crc_ok False")
                    out = "indicator_false"
        except Exception as e:
            acc.violation(f"{name}:exception:" + exc_sig(e), case, repr(e))
            out = "exception"
        acc.case(nontrivial=True, calls=3, outcome=(name, out), sample=case if i == 0 else None)
    return acc


def hrnp_catalogue():
    """HRNP packets built from fields (constructions follow the library's own test-suite usage)"""
    D = HRNPOpcodes.DATA
    R = RadioControlProtocol
    T = TextMessageProtocol
    hd = [
        R(opcode=RCPOpcode.RadioIDAndRadioIPQueryRequest, target=RadioIpIdTarget.RADIO_IP, raw_value=b"\x04\x03\x02\x01", result=RCPResult.Success),
        R(opcode=RCPOpcode.RadioIDAndRadioIPQueryRequest, target=RadioIpIdTarget.RADIO_ID),
        R(opcode=RCPOpcode.BroadcastMessageConfigurationRequest, broadcast_type=0b111),
        R(opcode=RCPOpcode.BroadcastStatusConfigurationRequest, broadcast_config_raw=b"\x02\x00\x01\x01\x00"),
        R(opcode=RCPOpcode.ZoneAndChannelOperationRequest, raw_payload=b"\x00\x01\x00\x01\x00"),
        R(opcode=RCPOpcode.BroadcastStatusConfigurationReply, result=RCPResult.Success),
        R(opcode=RCPOpcode.SendTalkerAliasRequest, sender_id=1002, target_id=1001, call_type=RCPCallType.PrivateCall,
          talker_alias_format=TalkerAliasDataFormat.UnicodeUTF8, talker_alias_data="OK-DMR".encode("utf-8")),
        R(opcode=RCPOpcode.SendTalkerAliasReply, sender_id=1002, target_id=1001, call_type=RCPCallType.PrivateCall, result=RCPResult.Success),
        R(opcode=RCPOpcode.StatusChangeNotificationReply, result=RCPResult.Success),
        LocationProtocol(opcode=LocationProtocolSpecificService.StandardRequest, request_id=1, radio_ip=RadioIP(radio_id=1001, subnet=10)),
        T(opcode=TMPService.PrivateShortData, source_ip=RadioIP(1001), destination_ip=RadioIP(subnet=0, radio_id=1002),
          short_data=bytes.fromhex("00010203040506070809"), is_confirmed=False, is_reliable=False, request_id=1),
        T(opcode=TMPService.GroupShortData, source_ip=RadioIP(radio_id=1001), destination_ip=RadioIP(radio_id=1),
          short_data=bytes.fromhex("A0B0"), is_confirmed=True, is_reliable=True, request_id=1),
        T(opcode=TMPService.SendGroupMessageAck, request_id=1, destination_ip=RadioIP(1001), result_code=TMPResultCodes.OK),
        T(opcode=TMPService.SendPrivateMessageAck, request_id=1, destination_ip=RadioIP(1001), source_ip=RadioIP(1002), result_code=TMPResultCodes.OK),
        T(opcode=TMPService.PrivateShortDataAck, request_id=1, destination_ip=RadioIP(1001), source_ip=RadioIP(1002), result_code=TMPResultCodes.OK),
        T(opcode=TMPService.GroupShortDataAck, is_reliable=True, request_id=1, destination_ip=RadioIP(1001), result_code=TMPResultCodes.OK),
        RadioRegistrationService(opcode=RRSTypes.RadioRegistrationRequest, radio_ip=RadioIP(radio_id=2308155, subnet=10)),
        RadioRegistrationService(opcode=RRSTypes.RadioRegistrationAnswer, radio_ip=RadioIP(radio_id=2308155, subnet=10),
                                 result=RRSResult.Success, renew_time_seconds=3600),
        RadioRegistrationService(opcode=RRSTypes.RadioGoingOffline, radio_ip=RadioIP(radio_id=1, subnet=10)),
    ]
    out = []
    for i, h in enumerate(hd):
        out.append((f"data[{i}]:{type(h).__name__}", dict(opcode=D, data=h)))
    for op in (HRNPOpcodes.CONNECT, HRNPOpcodes.ACCEPT, HRNPOpcodes.REJECT, HRNPOpcodes.CLOSE, HRNPOpcodes.CLOSE_ACK, HRNPOpcodes.DATA_ACK):
        out.append((op.name, dict(opcode=op)))
    return out


def hrnp_long_payloads():
    T = TextMessageProtocol
    return [
        # word sums that need more than one end-around carry, total lengths around 2^15 (a signed 16-bit length field) and near the maximum
        T(opcode=TMPService.PrivateShortData, source_ip=RadioIP(1001), destination_ip=RadioIP(1002), short_data=b"\xff" * 1400, request_id=1),
        T(opcode=TMPService.PrivateShortData, source_ip=RadioIP(1001), destination_ip=RadioIP(1002), short_data=b"\xff\xfe" * 16000, request_id=0xFFFFFFFF),
        T(opcode=TMPService.PrivateShortData, source_ip=RadioIP(1001), destination_ip=RadioIP(1002), short_data=bytes(32768 - 12 - 7 - 12), request_id=1),
        T(opcode=TMPService.GroupShortData, source_ip=RadioIP(1001), destination_ip=RadioIP(1), short_data=b"\xa5" * 32757, request_id=1),
        T(opcode=TMPService.PrivateShortData, source_ip=RadioIP(1001), destination_ip=RadioIP(1002), short_data=b"\xff" * 65000, request_id=1),
        T(opcode=TMPService.PrivateShortData, source_ip=RadioIP(1001), destination_ip=RadioIP(1002), short_data=b"\xff\xff\xff\x00" * 300, request_id=1),
    ]


HRNP_HEADER_ALPHA = {
    "source": [0x20, 0x00, 0x10, 0x2F, 0xFF],
    "destination": [0x10, 0x00, 0x20, 0xFF],
    "block_number": [0, 1, 0x7F, 0xFF],
    "packet_number": [0, 1, 0x00FF, 0x0100, 0x7FFF, 0x8000, 0xFFFE, 0xFFFF],
    "version": [4, 3, 0],
}


def hrnp_cases():
    """catalogue x (each header field over its alphabet, others at base) + catalogue x all pairs of header fields for 3 packets"""
    cat = hrnp_catalogue()
    names = list(HRNP_HEADER_ALPHA)
    base = {n: HRNP_HEADER_ALPHA[n][0] for n in names}
    out = []
    seen = set()

    def emit(ci, d):
        key = (ci,) + tuple(d[n] for n in names)
        if key not in seen:
            seen.add(key)
            out.append((ci, dict(d)))

    for ci in range(len(cat)):
        emit(ci, base)
        for n in names:
            for v in HRNP_HEADER_ALPHA[n]:
                d = dict(base)
                d[n] = v
                emit(ci, d)
    for ci in (0, 10, len(cat) - 6):
        for n1, n2 in itertools.combinations(names, 2):
            for v1 in HRNP_HEADER_ALPHA[n1]:
                for v2 in HRNP_HEADER_ALPHA[n2]:
                    d = dict(base)
                    d[n1] = v1
                    d[n2] = v2
                    emit(ci, d)
    return cat, out


def w_hrnp_packet_numbers(task):
    """one DATA packet x every 16-bit packet number: every value of the low sum word, i.e. every carry situation"""
    lo, hi = task
    cat = hrnp_catalogue()
    base = {n: HRNP_HEADER_ALPHA[n][0] for n in HRNP_HEADER_ALPHA}
    acc = Acc()
    for pn in range(lo, hi):
        case = {"kind": "hrnp", "packet": cat[10][0], "packet_number": pn}
        try:
            raw = hrnp_build(cat, 10, dict(base, packet_number=pn)).as_bytes()
            back = HRNP.from_bytes(raw)
            if not back.checksum_correct:
                acc.violation("hrnp:library_encoded_pdu_reports_check_failed", {**case, "bytes": raw.hex()},
                              "HRNP packet serialised by the library parses back with checksum_correct False")
            if int.from_bytes(raw[10:12], "big") != ones_complement_checksum(raw):
                acc.violation("hrnp:check_value_differs_from_reference", {**case, "bytes": raw.hex()},
                              "emitted checksum differs from the harness's ones-complement sum over the emitted bytes")
            if back.packet_number != pn:
                acc.violation("hrnp:packet_number_not_preserved", case)
        except Exception as e:
            acc.violation("hrnp:exception:" + exc_sig(e), case, repr(e))
        acc.case(nontrivial=True, calls=3, outcome=("hrnp", "ok"))
    return acc


def ones_complement_checksum(b: bytes) -> int:
    """harness reference: 16-bit ones-complement of the ones-complement sum of big-endian words, checksum field excluded"""
    body = b[:10] + b[12:]
    if len(body) % 2:
        body += b"\x00"
    sm = 0
    for i in range(0, len(body), 2):
        sm += (body[i] << 8) | body[i + 1]
    while sm >> 16:
        sm = (sm & 0xFFFF) + (sm >> 16)
    return (~sm) & 0xFFFF


def hrnp_build(cat, ci, hdr):
    label, kw = cat[ci]
    return HRNP(source=hdr["source"], destination=hdr["destination"], block_number=hdr["block_number"],
                packet_number=hdr["packet_number"], version=hdr["version"], **kw)


def hrnp_fields(h):
    return (h.header, h.version, h.block_number, h.opcode, h.source, h.destination, h.packet_number,
            h.data.as_bytes() if (h.data is not None and h.opcode == HRNPOpcodes.DATA) else None)


# =====================================================================================
# 3. corruption within the guaranteed detection capability
# =====================================================================================
def solve_xor(cols, target):
    """indices S with xor(cols[i] for i in S) == target over GF(2), or None (Gaussian elimination)"""
    basis = {}  # pivot bit -> (value, index set)
    for i, c in enumerate(cols):
        v, s = c, {i}
        while v:
            pb = v.bit_length() - 1
            if pb not in basis:
                basis[pb] = (v, s)
                break
            bv, bs = basis[pb]
            v ^= bv
            s = s ^ bs
    v, s = target, set()
    while v:
        pb = v.bit_length() - 1
        if pb not in basis:
            return None
        bv, bs = basis[pb]
        v ^= bv
        s = s ^ bs
    return sorted(s)


BASE_VALUES = {  # fixed, hand-chosen field assignments (not seed dependent)
    "dh_confirmed": dict(is_group=0, is_response_requested=1, pad_octet_count=7, sap=4, llid_destination=2308092, llid_source=2308094,
                         full_message_flag=1, blocks_to_follow=5, resynchronize_flag=0, send_sequence_number=3, fragment_sequence_number=8),
    "dh_unconfirmed": dict(is_group=1, is_response_requested=0, pad_octet_count=19, sap=3, llid_destination=9, llid_source=2308094,
                           full_message_flag=1, blocks_to_follow=2, fragment_sequence_number=0),
    "dh_response": dict(is_response_requested=0, sap=4, llid_destination=2308092, llid_source=2308094, full_message_flag=0,
                        blocks_to_follow=1, response_class=0, response_type=1, response_status=5),
    "dh_short_data_defined": dict(is_group=0, is_response_requested=1, appended_blocks=33, sap=10, llid_destination=2308155,
                                  llid_source=2308123, defined_data_format=1, sarq=0, full_message_flag=1, bit_padding=0x05),
    "dh_udt": dict(is_group=1, is_response_requested=0, is_emergency=0, udt_option_flag=0, sap=0, udt_format=5, llid_destination=1,
                   llid_source=2547943, pad_nibbles_count=3, appended_blocks=1, supplementary_flag=0, udt_opcode=0b011011),
    "pi_header": dict(data=0x211002177AFC73000009),
    "slc_null": {},
    "slc_activity_update": dict(ts1_activity_id=8, ts2_activity_id=3, ts1_address=0x5A, ts2_address=0xDA),
}
for _rn, (_cls, _T, _L) in c03.RATES.items():
    BASE_VALUES[f"{_rn}_confirmed"] = dict(dbsn=5, data=int.from_bytes(bytes(range(1, (_L - 16) // 8 + 1)), "big"))
    BASE_VALUES[f"{_rn}_confirmed_last"] = dict(dbsn=77, data=int.from_bytes(bytes(range(0x41, 0x41 + (_L - 48) // 8)), "big"), crc32=0x826AFD58)

# which field's bits may be re-chosen to reach a wanted check value
FREE_FIELD = {"pi_header": "data", "slc_activity_update": "ts2_address", "slc_null": None}
CHECK_TARGETS_QUICK = ["plain", "first_only"]
CHECK_TARGETS_THOROUGH = ["plain", "first_only", "last_only", "zero", "weight3"]
CHECK_TARGETS_SHORT_LC = ["plain", "first_only", "last_only", "zero", "first_and_last", "weight3", "all_ones"]


def target_pattern(label, w):
    return {"first_only": "1" + "0" * (w - 1), "last_only": "0" * (w - 1) + "1", "zero": "0" * w,
            "first_and_last": "1" + "0" * (w - 2) + "1", "weight3": "01" + "0" * (w - 5) + "101", "all_ones": "1" * w}[label]


def base_pdus(p, labels):
    """[(label, bits)] : the fixed base PDU of the kind, and variants of it whose (library-emitted) check field has a
    wanted pattern, reached by re-choosing bits of one free field -- solved with the harness's syndrome table and then
    confirmed on the library's own output"""
    k = p.kind
    vals = dict(BASE_VALUES[k.name])
    plain = k.build(vals).as_bits().to01()
    out = [("plain", plain)]
    free = FREE_FIELD.get(k.name, "llid_source" if k.name.startswith("dh_") else "data")
    if free is None:
        return out
    # PDU positions of the free field's bits (low 24 bits of it at most)
    pos = [i for i, o in enumerate(k.owner) if o == free][-24:]
    cols = [p.syn[i] for i in pos]
    for label in labels:
        if label == "plain":
            continue
        t = target_pattern(label, p.width)
        cur = "".join(plain[i] for i in p.crc_pos)
        delta = 0
        for q, (a, b) in zip(p.crc_pos, zip(cur, t)):
            if a != b:
                delta ^= 1 << p.exps[q]
        sel = solve_xor(cols, delta)
        if sel is None:
            continue
        s = list(plain)
        for j in sel:
            s[pos[j]] = "1" if s[pos[j]] == "0" else "0"
        # let the library itself emit the PDU (decode fields with the harness layout, rebuild)
        data_bits = "".join(s)
        v2 = dict(vals)
        fld = 0
        for i in [i for i, o in enumerate(k.owner) if o == free]:
            fld = (fld << 1) | int(data_bits[i])
        v2[free] = fld
        emitted = k.build(v2).as_bits().to01()
        got = "".join(emitted[i] for i in p.crc_pos)
        if got == t or label == "zero":
            # for "zero" the library never emits an all-zero field it did not compute: keep whatever it emitted if equal
            if got == t:
                out.append((label, emitted))
    return out


def burst_count(n, w):
    return sum(1 << min(w - 1, n - st - 1) for st in range(n))


def bursty_weight_count(n, w, k):
    import math
    return sum(sum(math.comb(min(w - 1, n - st - 1), j) for j in range(k)) for st in range(n))


def sweep_size(n, w, k):
    return 1 + burst_count(n, w) + spaces.n_weight_le(n, k) - 1 - bursty_weight_count(n, w, k)


SWEEP = {}   # (kind, base label) -> bits


def w_sweep(task):
    name, blabel, mode, lo, hi, w, k = task
    p = PROT[name]
    kind = p.kind
    base = SWEEP[(name, blabel)]
    n = len(base)
    syn = p.syn
    crc_pos = p.crc_pos
    owner = kind.owner
    acc = Acc()
    is_last = name.endswith("confirmed_last")

    def patterns():
        if mode == "none":
            yield ()
        elif mode == "burst":
            for st in range(lo, hi):
                span = min(w - 1, n - st - 1)
                for mask in range(1 << span):
                    yield (st,) + tuple(st + 1 + j for j in range(span) if (mask >> j) & 1)
        else:  # weight patterns with first position in [lo, hi) that are not bursts (span >= w)
            for first in range(lo, hi):
                for wt in range(2, k + 1):
                    for rest in itertools.combinations(range(first + 1, n), wt - 1):
                        if rest[-1] - first >= w:
                            yield (first,) + rest

    base_list = list(base)
    cnt = 0
    out_hist = {}
    try:
        clean_accepted = bool(p.indicator(kind.parse(bitarray(base))))
    except Exception:
        clean_accepted = False
    for pat in patterns():
        cnt += 1
        s = base_list[:]
        sy = 0
        for q in pat:
            s[q] = "1" if s[q] == "0" else "0"
            sy ^= syn[q]
        cs = "".join(s)
        try:
            o = kind.parse(bitarray(cs))
            ok = bool(p.indicator(o))
        except Exception as e:
            outc = "decode_error"
        else:
            if not ok:
                outc = "indicator_false"
            else:
                try:
                    same = o.as_bits().to01() == base
                except Exception:
                    same = False
                if not pat:
                    outc = "clean_ok"
                elif sy == 0:
                    outc = "accepted_pattern_is_a_codeword"      # outside every CRC's capability: no demand
                elif same and all(owner[q] == "<reserved>" for q in pat):
                    outc = "accepted_error_confined_to_ignored_reserved_bits"
                else:
                    field_zero = all(cs[i] == "0" for i in crc_pos)
                    case = {"kind": name, "base": blabel, "bits": base, "flipped": list(pat), "received": cs,
                            "fields_after_parse": "original" if same else "altered"}
                    if not clean_accepted:
                        acc.violation("corrupted_pdu_accepted_while_uncorrupted_pdu_is_rejected", case,
                                      "the library's own un-corrupted PDU is reported invalid, yet this corruption of it is accepted")
                    elif field_zero:
                        acc.violation("corrupted_pdu_with_zero_check_field_accepted", case,
                                      "a corruption that leaves the received check field all-zero is accepted (indicator True): the zero "
                                      "field is taken as 'please generate'")
                    elif same:
                        acc.violation("accepted_error_in_bits_lost_on_reserialisation", case,
                                      "an error in bits that carry a field in the layout, but that the library drops when it re-serialises, "
                                      "is accepted (the verdict is computed over the re-serialised fields)")
                    elif is_last and cs[-32:] == "0" * 32:
                        acc.violation("zero_crc32_field_left_out_of_crc9", case,
                                      "a corruption that zeroes the last block's CRC-32 field is accepted: the field is left out of the CRC-9 when it is 0")
                    else:
                        acc.violation("undetected_corruption", case,
                                      "a corruption within the CRC's guaranteed detection capability is accepted (indicator True)")
                    outc = "VIOLATION"
        if not pat and outc != "clean_ok":
            outc = "clean_" + outc
        out_hist[outc] = out_hist.get(outc, 0) + 1
    acc.n += cnt
    acc.calls += cnt
    nt = cnt - out_hist.get("accepted_pattern_is_a_codeword", 0) - (1 if mode == "none" else 0)
    acc.nontrivial += nt
    for o, c in out_hist.items():
        acc.outcomes[(name.split("_")[0], o)] += c
    if mode == "none":
        acc.samples.append({"kind": name, "base": blabel, "bits": base})
    return acc, (name, blabel, out_hist.get("clean_ok", 0)) if mode == "none" else None


def corruption_family(rep, nw, sub, names, labels, burst_w, k, note):
    bw = {(n_, l): burst_w(n_, l) for n_ in names for l in labels}
    bw_txt = {f"{n_}/{l}": v for (n_, l), v in bw.items()}
    s = rep.sub(sub, f"fixed base PDUs per kind (kind/check-field pattern -> max burst length: {bw_txt}) x the error-free case, ALL "
                     f"bursts up to that length at every position and ALL patterns of weight <= {k} that are not such bursts, over all "
                     f"PDU bits incl. the check field. {note} Non-trivial: pattern whose polynomial is not a multiple of the generator.")
    tasks = []
    decl = 0
    bases_used = {}
    for name in names:
        p = PROT[name]
        bl = base_pdus(p, labels)
        bases_used[name] = [b[0] for b in bl]
        n = p.kind.length
        for blabel, bits in bl:
            w_burst = bw[(name, blabel)]
            SWEEP[(name, blabel)] = bits
            tasks.append((name, blabel, "none", 0, 0, w_burst, k))
            tasks += [(name, blabel, "burst", lo, hi, w_burst, k) for lo, hi in par.chunks(n, n)]
            tasks += [(name, blabel, "weight", lo, hi, w_burst, k) for lo, hi in par.chunks(n, n)]
            decl += sweep_size(n, w_burst, k)
    s.declared = decl
    s.extra["bases"] = bases_used
    # longest tasks first for balance (bursts at low start positions, weight patterns at low first positions)
    clean_bad = []
    for acc, clean in par.pmap(w_sweep, tasks, nw):
        s.merge(acc)
        if clean is not None and clean[2] != 1:
            clean_bad.append(f"{clean[0]}/{clean[1]}")
    if clean_bad:
        # the un-corrupted base PDU itself is not accepted: sweep is vacuous for it (reported under encoded_then_parsed_ok)
        s.extra["vacuous_bases_uncorrupted_pdu_not_accepted"] = clean_bad
    s.done()
    rep.log(f"{sub}: {decl} cases, {len(s.viol)} violation signatures, {s.wall}s" + (f" (vacuous bases: {len(clean_bad)})" if clean_bad else ""))
    return s


# =====================================================================================
# 4. last block: the single-bit error that zeroes a weight-1 CRC-32 field
# =====================================================================================
def w_crc32_zero(task):
    rn, dbsn, lo, hi = task
    cls, T, L = c03.RATES[rn]
    t = T.ConfirmedLastBlock
    dl = (L - 48) // 8
    acc = Acc()
    for dv in range(lo, hi):
        data = dv.to_bytes(dl, "big")
        for kbit in range(32):
            case = {"rate": rn, "dbsn": dbsn, "data": data.hex(), "crc32": hex(1 << kbit)}
            out = "detected"
            try:
                b = cls(data=data, dbsn=dbsn, crc32=1 << kbit, packet_type=t).as_bits()
                s = b.to01()
                if s[7:16] == "0" * 9:
                    out = "own_crc9_is_zero"        # belongs to the zero-sentinel family, not to this one
                else:
                    pos = L - 1 - kbit
                    cs = s[:pos] + ("1" if s[pos] == "0" else "0") + s[pos + 1:]
                    o = cls.from_bits_typed(bitarray(cs), t)
                    if o.crc9_ok:
                        acc.violation("zero_crc32_field_left_out_of_crc9", {**case, "bits": s, "flipped": [pos]},
                                      "single-bit error turning the CRC-32 field into 0 is accepted with crc9_ok True (field excluded from CRC-9 when 0)")
                        out = "VIOLATION"
            except Exception as e:
                out = "decode_error"
            acc.case(nontrivial=(out != "own_crc9_is_zero"), calls=2, outcome=(rn, out), sample=case if (dv == 0 and kbit == 0 and dbsn == 0) else None)
    return acc


# =====================================================================================
# 5. HRNP: single-bit and single-word errors
# =====================================================================================
WORD_XORS = sorted({(1 << i) for i in range(16)} | {(1 << i) | (1 << j) for i in range(16) for j in range(i)} |
                   {0xFFFF, 0x00FF, 0xFF00, 0x5555, 0xAAAA, 0x0F0F})
HRNP_BASES = []


def w_hrnp_corrupt(task):
    bi, lo, hi = task
    label, raw = HRNP_BASES[bi]
    orig = HRNP.from_bytes(raw)
    of = hrnp_fields(orig)
    nwords = (len(raw) + 1) // 2
    acc = Acc()
    for wi in range(lo, hi):
        for x in WORD_XORS:
            if 2 * wi + 1 >= len(raw) and (x & 0xFF):
                # last word of an odd-length packet: only its high byte exists
                acc.case(nontrivial=False, calls=0, outcome="n/a_padding_byte")
                continue
            b = bytearray(raw)
            old = (b[2 * wi] << 8) | (b[2 * wi + 1] if 2 * wi + 1 < len(b) else 0)
            new = old ^ x
            b[2 * wi] = new >> 8
            if 2 * wi + 1 < len(b):
                b[2 * wi + 1] = new & 0xFF
            case = {"packet": label, "bytes": raw.hex(), "word_index": wi, "xor": hex(x)}
            if {old, new} == {0x0000, 0xFFFF} and wi != 5:
                # a *data* word 0x0000 <-> 0xFFFF cannot be seen by any ones-complement sum; the checksum field itself
                # (bytes 10..11, word 5) is different: the packet was sent with exactly one value there
                acc.case(nontrivial=False, calls=0, outcome="ones_complement_alias_excluded")
                continue
            try:
                o = HRNP.from_bytes(bytes(b))
                ok = bool(o.checksum_correct)
                if not ok:
                    out = "indicator_false"
                else:
                    out = "VIOLATION"
                    acc.violation("undetected_corruption",
                                  {**case, "received": bytes(b).hex(), "fields_after_parse": "original" if hrnp_fields(o) == of else "altered"},
                                  "single-word corruption of a received packet is accepted (checksum_correct True)")
            except Exception as e:
                out = "decode_error"
            acc.case(nontrivial=True, calls=1, outcome=out, sample=case if (wi == 0 and x == 1 and bi == 0) else None)
    return acc


# =====================================================================================
def run(only=None):
    rep = Report("C04")
    tier = rep.tier
    thorough = rep.thorough()
    rep.explanation = (
        "Complete enumeration on the real parsers: every received slot-type / EMB word; every library-serialised PDU of the "
        "C03 field spaces that carries a check field; every error pattern of the stated weight/burst bounds on fixed base PDUs. "
        "state = one enumerated word / PDU / (base, error pattern); transition = one real library call (from_bits / from_bytes, "
        "as_bits); every case is an implementation execution."
    )
    rep.assumptions = [
        "reference codes: Golay(20,8,7) and QR(16,7,6) as extended cyclic codes (mc/oracle/gf2.py); CRC-8 x^8+x^2+x+1, CRC-9 "
        "x^9+x^6+x^4+x^3+1, CRC-CCITT x^16+x^12+x^5+1 with inversion and the B.3.12 masks, evaluated by integer polynomial division",
        "PDU bit -> codeword exponent maps transcribed in this file (short LC check bits LSB first as the library's BPTC(68,28) "
        "de-interleaver presents them; CRC-9 over data||crc32||dbsn, field LSB first)",
        "a parse that raises any exception on a corrupted PDU counts as 'decode error'",
        "HRNP: the ones-complement sum guarantees single-bit and single aligned 16-bit word errors only (0x0000<->0xFFFF aliasing excluded)",
    ]
    nw = env.workers()
    PROT.clear()
    PROT.update(protected_kinds())
    CODE["golay"] = gf2.codeword_set("golay_20_8_7")
    CODE["qr"] = gf2.codeword_set("qr_16_7_6")
    assert len(CODE["golay"]) == 256 and len(CODE["qr"]) == 128

    def want(name):
        return only is None or name in only

    # ---- 1 ------------------------------------------------------------------------------------
    if want("slot_type_all_words"):
        exp = sorted(w for w in range(0, 1 << 20, 1 << 12) if w not in CODE["golay"])
        fec_words(rep, nw, "slot_type_all_words", 20, 12, w_slot_words, exp)
    if want("emb_all_words"):
        exp = sorted(w for w in range(0, 1 << 16, 1 << 9) if w not in CODE["qr"])
        fec_words(rep, nw, "emb_all_words", 16, 9, w_emb_words, exp)
    if want("emb_all_words_after_the_other_16_bit_code"):
        exp = sorted(w for w in range(0, 1 << 16, 1 << 9) if w not in CODE["qr"])
        fec_words(rep, nw, "emb_all_words_after_the_other_16_bit_code", 16, 9, w_emb_words_after_other_codes, exp)

    # ---- 2 ------------------------------------------------------------------------------------
    if want("encoded_then_parsed_ok"):
        s = rep.sub("encoded_then_parsed_ok",
                    "slot type: all 16x16 (colour code, data type) pairs incl. the 13 members of DataTypes; EMB: all 128 (cc, PI, LCSS); "
                    "every field assignment of the C03 space of the 14 CRC-protected kinds (5 data headers, PI header, 2 short LC, "
                    "3 rates x {confirmed, confirmed last}); HRNP: 25 packets x header-field alphabets, and one DATA packet x all 2^16 "
                    "packet numbers (every carry situation of the ones-complement sum); each a distinct PDU")
        decl = 0
        for cc in range(16):
            for dt in DataTypes:
                case = {"kind": "slot_type", "colour_code": cc, "data_type": dt.name}
                try:
                    b = SlotType(colour_code=cc, data_type=dt).as_bits()
                    w = ba2int(b)
                    back = SlotType.from_bits(b)
                    if not back.fec_parity_ok:
                        s.violation("slot_type:library_encoded_pdu_reports_check_failed", {**case, "bits": b.to01()})
                    if w not in CODE["golay"] or (w >> 12) != (cc << 4 | dt.value):
                        s.violation("slot_type:check_value_differs_from_reference", {**case, "bits": b.to01()},
                                    "emitted slot type is not the Golay codeword of cc||dt")
                except Exception as e:
                    s.violation("slot_type:exception:" + exc_sig(e), case, repr(e))
                s.case(nontrivial=True, calls=3, outcome=("slot_type", "ok"), sample=case if decl == 0 else None)
                decl += 1
        for cc in range(16):
            for pi in range(2):
                for lc in range(4):
                    case = {"kind": "emb", "colour_code": cc, "pi": pi, "lcss": lc}
                    try:
                        objs = [EmbeddedSignalling(colour_code=cc, preemption_and_power_control_indicator=pi, link_control_start_stop=lc),
                                EmbeddedSignalling(colour_code=cc, preemption_and_power_control_indicator=pi, link_control_start_stop=LCSS(lc))]
                        for o in objs:
                            b = o.as_bits()
                            w = ba2int(b)
                            if not EmbeddedSignalling.from_bits(b).emb_parity_ok:
                                s.violation("emb:library_encoded_pdu_reports_check_failed", {**case, "bits": b.to01()})
                            if w not in CODE["qr"] or (w >> 9) != (cc << 3 | pi << 2 | lc):
                                s.violation("emb:check_value_differs_from_reference", {**case, "bits": b.to01()},
                                            "emitted EMB is not the QR codeword of cc||pi||lcss")
                    except Exception as e:
                        s.violation("emb:exception:" + exc_sig(e), case, repr(e))
                    s.case(nontrivial=True, calls=6, outcome=("emb", "ok"))
                    decl += 1
        tasks = []
        sizes = {}
        for name, p in PROT.items():
            ENC_CASES[name] = c03.kind_cases(p.kind, tier)
            n = len(ENC_CASES[name])
            sizes[name] = n
            decl += n
            tasks += [(name, lo, hi) for lo, hi in par.chunks(n, max(1, min(32, n // 200)))]
        for acc in par.pmap(w_encoded, tasks, nw):
            s.merge(acc)
        cat, hc = hrnp_cases()
        for ci, hdr in hc:
            case = {"kind": "hrnp", "packet": cat[ci][0], "header": hdr}
            try:
                raw = hrnp_build(cat, ci, hdr).as_bytes()
                back = HRNP.from_bytes(raw)
                if not back.checksum_correct:
                    s.violation("hrnp:library_encoded_pdu_reports_check_failed", {**case, "bytes": raw.hex()},
                                "HRNP packet serialised by the library parses back with checksum_correct False")
                if int.from_bytes(raw[10:12], "big") != ones_complement_checksum(raw):
                    s.violation("hrnp:check_value_differs_from_reference", {**case, "bytes": raw.hex()},
                                "emitted checksum differs from the harness's ones-complement sum over the emitted bytes")
                if back.as_bytes() != raw:
                    s.violation("hrnp:reserialisation_differs", {**case, "bytes": raw.hex()})
            except Exception as e:
                s.violation("hrnp:exception:" + exc_sig(e), case, repr(e))
            s.case(nontrivial=True, calls=3, outcome=("hrnp", "ok"))
            decl += 1
        sizes["hrnp"] = len(hc)
        for acc in par.pmap(w_hrnp_packet_numbers, par.chunks(1 << 16, 64), nw):
            s.merge(acc)
        sizes["hrnp_all_packet_numbers"] = 1 << 16
        decl += 1 << 16
        s.declared = decl
        s.extra["cases_per_kind"] = sizes
        s.done()
        rep.log(f"encoded_then_parsed_ok: {decl} cases, {len(s.viol)} violation signatures, {s.wall}s")

    # ---- 3 ------------------------------------------------------------------------------------
    labels = CHECK_TARGETS_THOROUGH if thorough else CHECK_TARGETS_QUICK
    k = 3 if thorough else 2
    if want("corruption_data_header"):
        corruption_family(rep, nw, "corruption_data_header",
                          ["dh_confirmed", "dh_unconfirmed", "dh_response", "dh_short_data_defined", "dh_udt"], labels,
                          (lambda n_, l: (16 if n_ in ("dh_confirmed", "dh_unconfirmed") else 12) if l == "first_only" else 10)
                          if thorough else (lambda n_, l: 9), k, "CRC-CCITT, 96 bits.")
    if want("corruption_pi_header"):
        corruption_family(rep, nw, "corruption_pi_header", ["pi_header"], labels,
                          (lambda n_, l: 16 if l == "first_only" else 10) if thorough else (lambda n_, l: 10), k,
                          "CRC-CCITT, 96 bits.")
    if want("corruption_short_lc"):
        corruption_family(rep, nw, "corruption_short_lc", ["slc_null", "slc_activity_update"], CHECK_TARGETS_SHORT_LC,
                          lambda n_, l: 8, 3, "CRC-8, 36 bits (identical in both tiers).")
    if want("corruption_rate_blocks"):
        corruption_family(rep, nw, "corruption_rate_blocks",
                          [f"{rn}_{v}" for rn in c03.RATES for v in ("confirmed", "confirmed_last")],
                          labels if not thorough else ["plain", "first_only", "zero"],
                          lambda n_, l: 9, k, "CRC-9, 96/144/192 bits.")

    # ---- 4 ------------------------------------------------------------------------------------
    if want("crc9_last_block_crc32_single_bit"):
        s = rep.sub("crc9_last_block_crc32_single_bit",
                    "confirmed last blocks of the 3 rates x dbsn in {0, 127} x all 2^9 values of the low-order 9 data bits x all 32 "
                    "weight-1 CRC-32 field values: flip the one set CRC-32 bit (a single-bit error); must be detected. Non-trivial: "
                    "block whose own CRC-9 is non-zero")
        tasks = []
        for rn in c03.RATES:
            for dbsn in (0, 127):
                tasks += [(rn, dbsn, lo, hi) for lo, hi in par.chunks(512, 8)]
        s.declared = 3 * 2 * 512 * 32
        for acc in par.pmap(w_crc32_zero, tasks, nw):
            s.merge(acc)
        s.done()
        rep.log(f"crc9_last_block_crc32_single_bit: {s.n} cases, {len(s.viol)} violation signatures, {s.wall}s")

    # ---- 5 ------------------------------------------------------------------------------------
    if want("hrnp_corruption"):
        s = rep.sub("hrnp_corruption",
                    "25 library-serialised HRNP packets x every aligned 16-bit word x %d xor patterns (all of weight 1 and 2, 0xFFFF, "
                    "0x00FF, 0xFF00, 0x5555, 0xAAAA, 0x0F0F): must raise or report checksum_correct False; "
                    "0x0000<->0xFFFF word aliasing and the padding byte excluded by rule" % len(WORD_XORS))
        cat, _ = hrnp_cases()
        base_hdr = {n: HRNP_HEADER_ALPHA[n][0] for n in HRNP_HEADER_ALPHA}
        HRNP_BASES.clear()
        tasks = []
        decl = 0
        for ci in range(len(cat)):
            raw = hrnp_build(cat, ci, dict(base_hdr, packet_number=ci + 1)).as_bytes()
            HRNP_BASES.append((cat[ci][0], raw))
            nwords = (len(raw) + 1) // 2
            tasks += [(ci, lo, hi) for lo, hi in par.chunks(nwords, 4)]
            decl += nwords * len(WORD_XORS)
        # bases whose correct checksum is 0x0000: the all-ones burst on the check field turns it into the other
        # representation of zero, which a verifier that sums to zero (instead of comparing) would accept
        def _fold(raw):
            tot = 0
            b = bytes(raw[:10]) + bytes(raw[12:])
            if len(b) % 2:
                b += b"\x00"
            for i in range(0, len(b), 2):
                tot += (b[i] << 8) | b[i + 1]
            while tot >> 16:
                tot = (tot & 0xFFFF) + (tot >> 16)
            return tot
        for ci in range(min(3, len(cat))):
            raw0 = hrnp_build(cat, ci, dict(base_hdr, packet_number=0)).as_bytes()
            f0 = _fold(raw0)
            pn = (0xFFFF - f0) % 0xFFFF
            for cand in (pn, pn + 0xFFFF if pn == 0 else pn):
                if 0 <= cand <= 0xFFFF:
                    raw = hrnp_build(cat, ci, dict(base_hdr, packet_number=cand)).as_bytes()
                    if raw[10:12] == b"\x00\x00":
                        HRNP_BASES.append((cat[ci][0] + "/checksum_0000", raw))
                        nwords = (len(raw) + 1) // 2
                        tasks += [(len(HRNP_BASES) - 1, lo, hi) for lo, hi in par.chunks(nwords, 4)]
                        decl += nwords * len(WORD_XORS)
                        break
        s.extra["bases_with_checksum_0000"] = sum(1 for l, _ in HRNP_BASES if l.endswith("/checksum_0000"))
        s.declared = decl
        for acc in par.pmap(w_hrnp_corrupt, tasks, nw):
            s.merge(acc)
        s.done()
        rep.log(f"hrnp_corruption: {decl} cases, {len(s.viol)} violation signatures, {s.wall}s")

    # ---- 6: the verdict belongs to the parsed object ------------------------------------------------
    if want("indicator_is_per_object"):
        s = rep.sub("indicator_is_per_object",
                    "every protected kind (+ slot type, EMB, HRNP) x bases x single-bit corruptions at up to 12 positions: parse corrupted -> o1, "
                    "parse clean -> o2, then o1 must still report false and o2 true; and in the opposite order (shared / cached PDU objects)")
        from okdmr.dmrlib.etsi.layer2.pdu.slot_type import SlotType as _SlotType
        from okdmr.dmrlib.etsi.layer2.pdu.embedded_signalling import EmbeddedSignalling as _Emb

        def seq_cases():
            for name, p in PROT.items():
                kind = p.kind
                vals_list = c03.kind_cases(kind, "quick")[:3] or [{}]
                for vals in vals_list:
                    try:
                        base = kind.build(vals).as_bits().to01()
                    except Exception:
                        continue
                    pos = [q for q in range(len(base)) if p.syn[q]]
                    step = max(1, len(pos) // 12)
                    for q in pos[::step][:12]:
                        bad = base[:q] + ("1" if base[q] == "0" else "0") + base[q + 1:]
                        yield name, (lambda b, kind=kind: kind.parse(bitarray(b))), p.indicator, base, bad, q
            g = gf2.CODES["golay_20_8_7"]
            for m in (0x13, 0xA6, 0xF9):
                base = format(gf2.encode_systematic(m, g[0], g[1], g[3], g[4]), "020b")
                for q in (0, 7, 8, 19):
                    bad = base[:q] + ("1" if base[q] == "0" else "0") + base[q + 1:]
                    yield "slot_type", (lambda b: _SlotType.from_bits(bitarray(b))), (lambda o: o.fec_parity_ok), base, bad, q
            g = gf2.CODES["qr_16_7_6"]
            for m in (0x0B, 0x55, 0x7E):
                base = format(gf2.encode_systematic(m, g[0], g[1], g[3], g[4]), "016b")
                for q in (0, 6, 7, 15):
                    bad = base[:q] + ("1" if base[q] == "0" else "0") + base[q + 1:]
                    yield "emb", (lambda b: _Emb.from_bits(bitarray(b))), (lambda o: o.emb_parity_ok), base, bad, q
            cat, _ = hrnp_cases()
            base_hdr = {n: HRNP_HEADER_ALPHA[n][0] for n in HRNP_HEADER_ALPHA}
            for ci in range(min(4, len(cat))):
                raw = hrnp_build(cat, ci, dict(base_hdr, packet_number=ci + 7)).as_bytes()
                base = "".join(format(x, "08b") for x in raw)
                for q in (7 * 8 + 3, 10 * 8, len(base) - 20):
                    bad = base[:q] + ("1" if base[q] == "0" else "0") + base[q + 1:]
                    yield "hrnp", (lambda b: HRNP.from_bytes(bitarray(b).tobytes())), (lambda o: o.checksum_correct), base, bad, q

        n_cases = 0
        for name, parse, ind, base, bad, q in seq_cases():
            case = {"kind": name, "clean": base, "flipped": q}
            n_cases += 1
            try:
                for first, second, want_first, order in ((bad, base, False, "corrupted_then_clean"), (base, bad, True, "clean_then_corrupted")):
                    try:
                        o1 = parse(first)
                        v1 = bool(ind(o1))
                    except Exception:
                        continue  # decode error on the corrupted word: nothing to keep
                    if v1 != want_first:
                        continue  # a wrong verdict on its own is the business of the other sub-checks
                    try:
                        o2 = parse(second)
                        bool(ind(o2))
                    except Exception:
                        pass
                    if bool(ind(o1)) != want_first:
                        s.violation(f"indicator_of_earlier_object_changed_by_later_parse:{name}", {**case, "order": order},
                                    "the ok indicator of a parsed PDU changes when another PDU of the same kind is parsed afterwards")
            except Exception as e:
                s.violation("exception_indicator_sequence:" + exc_sig(e), case, repr(e))
            s.case(nontrivial=True, calls=6, outcome=name, sample=case if n_cases == 1 else None)
        s.declared = n_cases
        s.done()
        rep.log(f"indicator_is_per_object: {n_cases} cases, {len(s.viol)} violation signatures, {s.wall}s")

    # ---- 7: PDUs serialised on other library paths (generator, octet packing) -----------------------------
    if want("other_serialisation_paths"):
        s = rep.sub("other_serialisation_paths",
                    "data headers serialised through TransmissionGenerator (header announcing the produced block count and header announcing 0 "
                    "blocks behind a preamble) x 3 rates x confirmed/unconfirmed x payload lengths: the header burst parses with crc_ok true, every "
                    "burst with slot-type parity ok, every confirmed block (parsed back as the kind of block the generator made) with crc9_ok true; "
                    "short LCs handed over octet-packed (40 bits, 4 zero pad bits): valid -> crc_ok true, every single-bit error in the 36 bits -> false")
        from okdmr.dmrlib.transmission.transmission_generator import TransmissionGenerator as _TG
        from okdmr.dmrlib.etsi.layer2.burst import Burst as _Burst
        from okdmr.dmrlib.etsi.layer2.pdu.data_header import DataHeader as _DH
        from okdmr.dmrlib.etsi.layer2.pdu.rate12_data import Rate12Data as _R12
        from okdmr.dmrlib.etsi.layer2.pdu.rate34_data import Rate34Data as _R34
        from okdmr.dmrlib.etsi.layer2.pdu.rate1_data import Rate1Data as _R1
        from okdmr.dmrlib.etsi.layer2.elements.data_packet_formats import DataPacketFormats as _DPF
        from okdmr.dmrlib.etsi.layer2.elements.full_message_flag import FullMessageFlag as _FMF
        from okdmr.dmrlib.etsi.layer2.elements.resynchronize_flag import ResynchronizeFlag as _RSF
        from okdmr.dmrlib.etsi.layer2.elements.sap_identifier import SAPIdentifier as _SAP

        n_cases = 0
        for cls_ in (_R12, _R34, _R1):
            for confirmed in (False, True):
                for length in (0, 5, 23, 40, 61):
                    for announce in ("right", "zero"):
                        payload = bytes((i * 11 + 3) & 0xFF for i in range(length))
                        case = {"rate": cls_.__name__, "confirmed": confirmed, "length": length, "header_announces": announce}
                        n_cases += 1
                        try:
                            blocks, pad = _TG.generate_data_bursts(packet_type=cls_, userdata=payload, is_confirmed=confirmed)
                            hdr = _DH(dpf=_DPF.DataPacketConfirmed if confirmed else _DPF.DataPacketUnconfirmed, is_response_requested=confirmed,
                                      pad_octet_count=pad, sap_identifier=_SAP.ShortData, llid_destination=2305678, llid_source=2301234,
                                      full_message_flag=_FMF.FirstTryToCompletePacket, blocks_to_follow=len(blocks) if announce == "right" else 0,
                                      resynchronize_flag=_RSF.DoNotSync, send_sequence_number=0, fragment_sequence_number=8)
                            bursts = _TG.generate_full_data_transmission(packet_type=cls_, userdata=payload, data_header=hdr, csbk_count=2)
                            for b in bursts:
                                p_ = _Burst.from_bytes(b.as_bytes())
                                if isinstance(p_.data, _DH) and p_.data.crc_ok is not True:
                                    s.violation("generator_serialised_header_reports_crc_invalid", case,
                                                "a data header serialised by the transmission generator parses back with crc_ok false")
                                if not p_.slot_type.fec_parity_ok:
                                    s.violation("generator_serialised_burst_reports_slot_parity_invalid", case)
                                if confirmed and isinstance(b.data, cls_) and isinstance(p_.data, cls_):
                                    # a confirmed block as the generator serialised it, parsed back as the kind of block the generator
                                    # made (the burst alone does not say): its CRC-9 covers serial number and data and must be reported valid
                                    typed = cls_.from_bits_typed(p_.data.as_bits(), b.data.packet_type)
                                    if typed.crc9_ok is not True:
                                        s.violation("generator_serialised_confirmed_block_reports_crc9_invalid", {**case, "dbsn": typed.dbsn, "packet_type": b.data.packet_type.name},
                                                    "a confirmed data block serialised by the transmission generator parses back with crc9_ok false")
                        except Exception as e:
                            s.violation("exception_generator_path:" + exc_sig(e), case, repr(e))
                        s.case(nontrivial=True, calls=6, outcome=("generator", announce), sample=case if n_cases == 2 else None)
        # short LC, octet packed
        for name in ("slc_null", "slc_activity_update"):
            p_ = PROT[name]
            kind = p_.kind
            for vals in (c03.kind_cases(kind, "quick")[:6] or [{}]):
                try:
                    base = kind.build(vals).as_bits().to01()
                except Exception:
                    continue
                case = {"kind": name, "bits36": base}
                n_cases += 1
                try:
                    padded = bitarray(base + "0000")
                    if kind.parse(padded).crc_ok is not True:
                        s.violation("octet_packed_short_lc_reports_crc_invalid", case, "a valid short LC handed over as 5 octets (40 bits) reports crc_ok false")
                    for q in range(36):
                        if not p_.syn[q]:
                            continue
                        bad = base[:q] + ("1" if base[q] == "0" else "0") + base[q + 1:] + "0000"
                        try:
                            if kind.parse(bitarray(bad)).crc_ok:
                                s.violation("octet_packed_short_lc_single_bit_error_accepted", {**case, "flipped": q})
                        except Exception:
                            pass
                        # pad bits that are not zero do not belong to the PDU: the verdict is about the first 36 bits
                    for padbits in ("1111", "1010"):
                        if kind.parse(bitarray(base + padbits)).crc_ok is not True:
                            s.violation("short_lc_verdict_depends_on_bits_behind_the_pdu", {**case, "pad": padbits})
                except Exception as e:
                    s.violation("exception_octet_packed_short_lc:" + exc_sig(e), case, repr(e))
                s.case(nontrivial=True, calls=40, outcome=("slc40", name), sample=case if n_cases % 7 == 0 else None)
        s.declared = n_cases
        s.done()
        rep.log(f"other_serialisation_paths: {n_cases} cases, {len(s.viol)} violation signatures, {s.wall}s")

    # ---- 8: PDUs whose content is stamped when they are serialised, under a clock that ticks on every reading ----
    if want("time_stamped_pdus_under_a_ticking_clock"):
        s = rep.sub("time_stamped_pdus_under_a_ticking_clock",
                    "location reports without position (the library stamps 'no fix' with the current date when it serialises) bare, in HRNP and in "
                    "HSTRP, serialised while every reading of date / datetime / time advances the clock by 1 day + 1 h + 1 min + 1 s, from 6 start "
                    "instants incl. just before midnight / month / year ends: the serialised packet parses back with checksum_correct true and "
                    "the harness's ones-complement / HDAP checksums verify (a check value computed in one pass and content emitted in another differ here)")
        from okdmr.dmrlib.hytera.pdu.hstrp import HSTRP as _HSTRP, HSTRPPacketType as _PT, HSTRPOptions as _OPT
        from okdmr.dmrlib.hytera.pdu.hdap import HDAP as _HDAP
        env.import_all_okdmr()
        starts = [1_700_000_000.0, 1_703_980_799.0, 1_704_067_199.0, 1_709_251_199.0, 951_782_399.0, 4_102_444_799.0 - 86_400 * 400]
        for t0 in starts:
            for wrap in ("bare", "hrnp", "hstrp"):
                case = {"start_instant": t0, "wrapped_in": wrap}
                seams = env.Seams(clock=t0, tick=86_400 + 3_600 + 60 + 1)
                seams.install()
                try:
                    lp = LocationProtocol(opcode=LocationProtocolSpecificService.StandardReport, request_id=7, radio_ip=RadioIP(radio_id=1001, subnet=10),
                                          result=0)
                    if wrap == "bare":
                        b = lp.as_bytes()
                        inner = b
                    elif wrap == "hrnp":
                        h_ = HRNP(opcode=HRNPOpcodes.DATA, data=lp, source=0x20, destination=0x10, block_number=0, packet_number=1, version=4)
                        b = h_.as_bytes()
                        back = HRNP.from_bytes(b)
                        if back.checksum_correct is not True:
                            s.violation("hrnp_serialised_under_a_ticking_clock_reports_checksum_failed", {**case, "bytes": b.hex()},
                                        "an HRNP packet serialised by the library parses back with checksum_correct False when the clock moves during serialisation")
                        if int.from_bytes(b[10:12], "big") != ones_complement_checksum(b):
                            s.violation("hrnp_checksum_field_does_not_cover_the_emitted_bytes", {**case, "bytes": b.hex()})
                        if int.from_bytes(b[8:10], "big") != len(b):
                            s.violation("hrnp_length_field_differs_from_emitted_length", {**case, "bytes": b.hex()})
                        inner = b[12:]
                    else:
                        st = _HSTRP(pkt_type=_PT(have_options=False), sn=1, options=_OPT(), payload=lp, version=0)
                        b = st.as_bytes()
                        inner = b[6:]
                    # inner HDAP frame: service | opcode(2) | length(2) | payload | checksum | 0x03
                    plen = int.from_bytes(inner[3:5], "big")
                    if len(inner) != 7 + plen or inner[-1] != 0x03:
                        s.violation("hdap_length_field_differs_from_emitted_payload", {**case, "bytes": b.hex()})
                    else:
                        sm = sum(inner[1:5 + plen]) & 0xFF
                        if inner[5 + plen] != ((~sm + 0x33) & 0xFF):
                            s.violation("hdap_checksum_does_not_cover_the_emitted_payload", {**case, "bytes": b.hex()})
                    if _HDAP.from_bytes(inner).as_bytes()[:16] != inner[:16]:
                        s.violation("hdap_reparse_differs", case)
                except Exception as e:  # noqa: BLE001
                    s.violation("exception_time_stamped_pdu:" + exc_sig(e), case, repr(e))
                finally:
                    seams.uninstall()
                s.case(nontrivial=True, calls=3, outcome=wrap, sample=case if len(s.samples) < 1 else None)
        s.done()

    # ---- 9: the verdicts as a received burst presents them ------------------------------------------------
    if want("verdicts_through_burst_parsing"):
        from okdmr.dmrlib.etsi.layer2.burst import Burst as _B
        from okdmr.dmrlib.etsi.layer2.elements.burst_types import BurstTypes as _BT
        from mc import bursts as _MB
        s = rep.sub("verdicts_through_burst_parsing",
                    "slot type: 4 (colour code, data type) codewords x all 1-, 2- and 3-bit errors within the 20 slot-type bits of a received data "
                    "burst (1350 each), EMB: 4 (cc, PI, LCSS) codewords x all 1-, 2- and 3-bit errors within the 16 EMB bits of a received voice burst "
                    "(696 each): burst.slot_type.fec_parity_ok / burst.emb.emb_parity_ok is the verdict on the received bits (false), and true for "
                    "the undamaged burst")
        slot_pos = list(range(98, 108)) + list(range(156, 166))
        emb_pos = list(range(108, 116)) + list(range(148, 156))

        def w_burst(task):
            kind, raw_hex, positions = task
            parity_only = set(positions[8:]) if kind == "slot" else set(positions[7:])
            acc = Acc()
            base = bitarray()
            base.frombytes(bytes.fromhex(raw_hex))
            bt = _BT.DataAndControl if kind == "slot" else _BT.Vocoder
            for nerr in (0, 1, 2, 3):
                for pat in itertools.combinations(positions, nerr):
                    x = base.copy()
                    for p_ in pat:
                        x.invert(p_)
                    case = {"kind": kind, "burst": raw_hex, "flipped": list(pat)}
                    try:
                        with contextlib.redirect_stdout(io.StringIO()):
                            b = _B.from_bits(x, bt)
                        ind = b.slot_type.fec_parity_ok if kind == "slot" else b.emb.emb_parity_ok
                        if bool(ind) != (nerr == 0):
                            acc.violation(f"{kind}_verdict_through_burst_is_not_the_verdict_on_the_received_bits", {**case, "indicator": bool(ind)},
                                          "the indicator a parsed burst presents differs from membership of the received bits in the code")
                    except Exception as e:  # noqa: BLE001
                        if nerr == 0 or all(p_ in parity_only for p_ in pat):
                            acc.violation(f"exception_burst_verdict:{kind}:" + exc_sig(e), case, repr(e))
                        # (errors in the colour code / data type / PI / LCSS bits re-label the payload: that the payload then does not
                        #  parse is not this property's business -- no verdict was presented)
                    acc.case(nontrivial=True, calls=1, outcome=(kind, nerr), sample=case if len(acc.samples) < 1 and nerr == 2 else None)
            return acc

        tasks = []
        from okdmr.dmrlib.etsi.layer2.elements.sync_patterns import SyncPatterns as _SP
        for cc, dtn in ((0, "CSBK"), (15, "CSBK"), (5, "CSBK"), (10, "CSBK")):
            raw = _MB.data_burst_bytes(_MB.preamble_csbk(3), DataTypes[dtn], cc=cc, sync=_SP.BsSourcedData)
            tasks.append(("slot", raw.hex(), slot_pos))
        for cc, pi, lc in ((0, 0, 0), (15, 1, 3), (5, 0, 1), (10, 1, 2)):
            vb = _MB.voice_emb_bits(bitarray(env.det_bits(f"c04-voc-{cc}", 216)), cc, pi, lc, bitarray(env.det_bits(f"c04-emb-{cc}", 32)))
            tasks.append(("emb", bitarray(vb).tobytes().hex(), emb_pos))
        s.declared = 4 * (1 + 20 + 190 + 1140) + 4 * (1 + 16 + 120 + 560)
        for acc in par.pmap(w_burst, tasks, nw):
            s.merge(acc)
        s.done()

    # ---- 10: long HRNP packets ---------------------------------------------------------------------------
    if want("hrnp_long_packets"):
        s = rep.sub("hrnp_long_packets",
                    "6 HRNP DATA packets of 1.2 kB .. 65 kB (word sums needing more than one end-around carry, total lengths just below / at / above "
                    "2^15, near 2^16) x 3 packet numbers: the library's serialisation carries the harness's ones-complement checksum and total "
                    "length, parses back with checksum_correct true and the same payload; the same bytes with the checksum field +1 / -1 or one "
                    "payload bit inverted (first, middle, last octet) parse back with checksum_correct false")
        for i, pdu in enumerate(hrnp_long_payloads()):
            for pn in (1, 0x7FFF, 0xFFFF):
                case = {"long_packet": i, "packet_number": pn}
                try:
                    h_ = HRNP(opcode=HRNPOpcodes.DATA, data=pdu, source=0x20, destination=0x10, block_number=0, packet_number=pn, version=4)
                    b = h_.as_bytes()
                    case["total_length"] = len(b)
                    if int.from_bytes(b[8:10], "big") != len(b):
                        s.violation("hrnp_long:length_field_differs_from_emitted_length", case)
                    if int.from_bytes(b[10:12], "big") != ones_complement_checksum(b):
                        s.violation("hrnp_long:checksum_field_differs_from_reference", {**case, "got": b[10:12].hex(), "want": format(ones_complement_checksum(b), "04x")},
                                    "the emitted checksum is not the ones-complement checksum of the emitted bytes")
                    back = HRNP.from_bytes(b)
                    if back.checksum_correct is not True:
                        s.violation("hrnp_long:library_serialised_packet_reports_checksum_failed", case)
                    if back.data.as_bytes() != pdu.as_bytes():
                        s.violation("hrnp_long:payload_differs_after_parse", case)
                    for what, mut in (("checksum_plus_1", b[:10] + ((int.from_bytes(b[10:12], "big") + 1) & 0xFFFF).to_bytes(2, "big") + b[12:]),
                                      ("checksum_minus_1", b[:10] + ((int.from_bytes(b[10:12], "big") - 1) & 0xFFFF).to_bytes(2, "big") + b[12:]),
                                      ("bit_in_first_payload_octet", b[:40] + bytes([b[40] ^ 0x10]) + b[41:]),
                                      ("bit_in_middle", b[:len(b) // 2] + bytes([b[len(b) // 2] ^ 0x01]) + b[len(b) // 2 + 1:]),
                                      ("bit_in_last_payload_octet", b[:-3] + bytes([b[-3] ^ 0x80]) + b[-2:])):
                        if (int.from_bytes(mut[10:12], "big") == ones_complement_checksum(mut)) or ({int.from_bytes(mut[10:12], "big"), ones_complement_checksum(mut)} == {0, 0xFFFF}):
                            continue  # (the two zeros of ones-complement arithmetic)
                        try:
                            verdict = HRNP.from_bytes(mut).checksum_correct
                        except Exception:  # noqa: BLE001  (refusing the damaged packet is fine)
                            verdict = False
                        if verdict is not False:
                            s.violation(f"hrnp_long:damaged_packet_reports_checksum_correct:{what}", case)
                except Exception as e:  # noqa: BLE001
                    s.violation("hrnp_long:exception:" + exc_sig(e), case, repr(e))
                s.case(nontrivial=True, calls=8, outcome=i, sample=case if len(s.samples) < 1 else None)
        s.done()

    rep.bounds = {
        "fec_words": "all 2^20 slot-type and all 2^16 EMB words",
        "encoded": "C03 field spaces of the 14 protected kinds (+ slot type 208, EMB 128, HRNP 911 + all 2^16 packet numbers)",
        "crc16_sweeps": ("weight <= 3 on 5 bases per kind; all bursts <= 16 at every position on the 'single leading check bit' base of dh_confirmed, dh_unconfirmed and pi_header (<= 12 on that base of the other three headers), <= 10 on all other bases"
                         if thorough else "weight <= 2 on 2 bases per kind, bursts <= 9 (data headers) / <= 10 (PI header) at every position (longer bursts, up to 16, only in the thorough tier)"),
        "crc9_sweeps": "weight <= %d and all bursts <= 9 on %d bases per kind" % (k, 3 if thorough else 2),
        "crc8_sweeps": "weight <= 3 and all bursts <= 8 on up to 7 bases per kind",
        "hrnp": "single-bit and single aligned word errors (159 xor patterns per word)",
        "not_covered": "error patterns of weight > 3 that are not short bursts; PDUs other than the fixed bases in the fault sweeps",
    }
    return rep.finish()


def replay(doc):
    PROT.clear()
    PROT.update(protected_kinds())
    CODE["golay"] = gf2.codeword_set("golay_20_8_7")
    CODE["qr"] = gf2.codeword_set("qr_16_7_6")
    still = 0
    for case in doc.get("cases", []):
        if "word" in case:
            w = case["word"]
            if len(w) == 20:
                o = SlotType.from_bits(bitarray(w))
                ok, member = o.fec_parity_ok, int(w, 2) in CODE["golay"]
            else:
                o = EmbeddedSignalling.from_bits(bitarray(w))
                ok, member = o.emb_parity_ok, int(w, 2) in CODE["qr"]
            print(f"word {w}: indicator={ok} codeword={member} reserialised={o.as_bits().to01()}")
            still |= int(bool(ok) != member)
        elif "received" in case and "kind" in case:
            p = PROT[case["kind"]]
            try:
                o = p.kind.parse(bitarray(case["received"]))
                ok = bool(p.indicator(o))
                same = o.as_bits().to01() == case["bits"]
                print(f"{case['kind']} flipped={case['flipped']}: indicator={ok} same_fields={same} repr={o!r}")
                still |= int(ok and not same)
            except Exception as e:
                print(f"{case['kind']} flipped={case['flipped']}: raises {e!r}")
        elif "kind" in case and "values" in case and case["kind"] in PROT:
            p = PROT[case["kind"]]
            vals = {k: (int(v, 16) if isinstance(v, str) else v) for k, v in case["values"].items()}
            b = p.kind.build(vals).as_bits()
            o = p.kind.parse(b)
            print(f"{case['kind']} {vals}: bits={b.to01()} indicator={p.indicator(o)}")
            still |= int(not p.indicator(o))
        elif "bytes" in case:
            raw = bytes.fromhex(case.get("received", case["bytes"]))
            try:
                o = HRNP.from_bytes(raw)
                print(f"hrnp {raw.hex()}: checksum_correct={o.checksum_correct}")
                if "received" in case and o.checksum_correct:
                    still = 1
            except Exception as e:
                print(f"hrnp {raw.hex()}: raises {e!r}")
        else:
            print("unrecognised case", case)
    return still

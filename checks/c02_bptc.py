"""C02 -- BPTC(196,96): every codeword decodes, every <= 2 bit error is corrected, an error-free
codeword is not altered by repair.

Technique: exhaustive bounded enumeration on the real code (fault enumeration).
  * error-free: ALL messages of weight <= 2 (thorough: <= 3) and the complements of the weight <= 2
    ones through encode / decode(repair off) / decode(repair on) / repair_if_necessary;
  * GF(2)-linearity of the encoder to order 2 on the complete basis (all pairs) + complements;
  * faults: ALL C(196,0)+C(196,1)+C(196,2) = 19 307 error patterns over the 196 transmitted bits on every
    base word of a fixed set (0, 1..1, [thorough: the 96 unit messages]) plus VERIF_SEED-chosen words;
    translation invariance of the decoder (same error effect for every base word) is checked on the way.

Oracle (independent of the library, written here): ETSI TS 102 361-1 B.1.1 -- matrix index k (k = 0 is
R(3), k >= 1 is row (k-1) div 15, column (k-1) mod 15 of the 13x15 matrix) is transmitted at position
k*181 mod 196; the 96 information bits fill rows 1..9, columns 1..11 row by row after R(2..0); rows are
Hamming(15,11,3), columns Hamming(13,9,3) words = multiples of x^4+x+1 (mc/oracle/gf2.py, integer
polynomial division; C06 establishes that this is the ETSI code).  The product code has minimum
distance 3*3 = 9, so every pattern of <= 2 (indeed <= 4) errors has a unique nearest codeword.

Scope decisions (ask what the statement says, no more):
  * an encoder output that is a valid product codeword with the right information bits but non-zero reserved
    bits would be recorded as an outcome, not as a violation (the statement does not speak about R(0..3));
  * repair_if_necessary(bits, deinterleaved=True) is not exercised: nothing calls it, the statement names the
    transmitted codeword, and that path reads and writes two different bit orders (reported, not judged);
  * buffers: only "the caller's error-free codeword is not modified" is required (C19 owns purity in general).
Signatures: misdecodes are split single / double:same_column / double:other; the same-column failing set of
the pinned tree (616 pairs, identical for every base word) is pinned by digest, any other non-empty set gets
its own signature, so a new failure cannot hide behind the known one.
"""
from mc import env  # noqa: F401
from mc import par, spaces, hist
from mc.report import Report, Acc, exc_sig
from mc.oracle import gf2

import hashlib
import itertools
import json

from bitarray import bitarray

from okdmr.dmrlib.etsi.fec.bptc_196_96 import BPTC19696

# ----------------------------------------------------------------------------------------------
# independent reference (no library table is imported)
# ----------------------------------------------------------------------------------------------
G = 0b10011  # x^4 + x + 1
ROWS, COLS, N, K = 13, 15, 196, 96
INFO = [(r, c) for r in range(9) for c in range(11) if not (r == 0 and c < 3)]  # I(95) .. I(0)
assert len(INFO) == K


def tx_of(r, c):
    """transmit position of matrix cell (r, c), both 0-based"""
    return ((1 + r * COLS + c) * 181) % N


TX = [[tx_of(r, c) for c in range(COLS)] for r in range(ROWS)]
CELL_OF_TX = {TX[r][c]: (r, c) for r in range(ROWS) for c in range(COLS)}  # tx 0 (R(3)) has no cell
assert len(CELL_OF_TX) == 195 and 0 not in CELL_OF_TX
INFO_TX = [TX[r][c] for r, c in INFO]


def ref_encode(m: str) -> str:
    """96-char message -> 196-char transmitted codeword (reserved bits 0)"""
    M = [[0] * COLS for _ in range(ROWS)]
    for b, (r, c) in zip(m, INFO):
        M[r][c] = int(b)
    for r in range(9):
        v = int("".join(map(str, M[r][:11])), 2)
        M[r] = [int(x) for x in format(gf2.encode_systematic(v, 15, 11, G, False), "015b")]
    for c in range(COLS):
        v = int("".join(str(M[r][c]) for r in range(9)), 2)
        for r, x in enumerate(format(gf2.encode_systematic(v, 13, 9, G, False), "013b")):
            M[r][c] = int(x)
    out = ["0"] * N
    for r in range(ROWS):
        for c in range(COLS):
            out[TX[r][c]] = str(M[r][c])
    return "".join(out)


def structure_faults(enc: str, m: str):
    """which parts of the BPTC definition a 196-bit string violates for message m"""
    f = []
    if any(enc[p] != b for p, b in zip(INFO_TX, m)):
        f.append("info_bit_misplaced")
    if any(gf2.pmod(int("".join(enc[TX[r][c]] for c in range(COLS)), 2), G) for r in range(ROWS)):
        f.append("row_not_hamming_15_11")
    if any(gf2.pmod(int("".join(enc[TX[r][c]] for r in range(ROWS)), 2), G) for c in range(COLS)):
        f.append("column_not_hamming_13_9")
    return f


def pattern_class(pat):
    cells = [CELL_OF_TX.get(p) for p in pat]
    if not pat:
        return "none"
    if all(c is None for c in cells):
        return "r3_only"
    if len(pat) == 1:
        r, c = cells[0]
        return "single_info" if (r, c) in INFO_SET else "single_parity_or_reserved"
    if None in cells:
        return "double_one_on_r3"
    (r1, c1), (r2, c2) = cells
    if c1 == c2:
        return "double_same_column"
    if r1 == r2:
        return "double_same_row"
    return "double_other"


INFO_SET = set(INFO)

# failing set on the pinned tree (column pass nested in the row loop): 616 same-column doubles, the same for
# every base word.  sha256 of json.dumps(sorted [i,j] tx pairs).  A different non-empty set is a new finding.
_PINNED = "14ce16059f0fc3a2"  # measured on the pinned tree (commit 09012b2)


def pairs_digest(pairs):
    return hashlib.sha256(json.dumps(sorted([list(p) for p in pairs])).encode()).hexdigest()[:16]


# ----------------------------------------------------------------------------------------------
# spaces
# ----------------------------------------------------------------------------------------------
def errorfree_messages(thorough):
    out, seen = [], set()

    def add(s):
        if s not in seen:
            seen.add(s)
            out.append(s)

    for pos in spaces.weight_le(K, 2):
        s = spaces.flip("0" * K, pos)
        add(s)
        add(spaces.complement(s))
    add(("01" * K)[:K])
    add(("10" * K)[:K])
    if thorough:
        for pos in itertools.combinations(range(K), 3):
            add(spaces.flip("0" * K, pos))
    return out


def base_words(rep):
    fixed = ["0" * K, "1" * K]
    if rep.thorough():
        fixed += [spaces.unit(K, i) for i in range(K)]
    nseed = 4 if rep.thorough() else 1
    out = list(fixed)
    i = 0
    while len(out) < len(fixed) + nseed:  # seed-chosen *additional* background words
        w = env.det_bits(f"c02-base-{i}", K)
        i += 1
        if w not in out:
            out.append(w)
    return out


PATTERNS = list(spaces.weight_le(N, 2))
assert len(PATTERNS) == 19307

MSGS = []
BASES = []
CODEWORDS = []  # library encode() of each base word ('01' strings)


# ----------------------------------------------------------------------------------------------
# workers
# ----------------------------------------------------------------------------------------------
def check_errorfree(m: str, acc: Acc, first=False):
    """all error-free obligations for one message; returns encoder output as int or None"""
    case = {"message": m}
    try:
        mb = bitarray(m)
        enc = BPTC19696.encode(mb)
    except Exception as e:
        acc.violation("exception_encode:" + exc_sig(e), case, repr(e))
        acc.case(calls=1)
        return None
    calls = 1
    if len(enc) != N:
        acc.violation("encode_length", {**case, "len": len(enc)}, "encoder output is not 196 bits")
        acc.case(calls=calls)
        return None
    e01 = enc.to01()
    want = ref_encode(m)
    outcome = "ok"
    if e01 != want:
        faults = structure_faults(e01, m)
        for f in faults:
            acc.violation("encode_" + f, {**case, "got": e01, "want": want},
                          "encoder output is not the ETSI BPTC(196,96) codeword of the message")
        outcome = "+".join(faults) if faults else "codeword_with_nonzero_reserved_bits"
    try:
        d0 = BPTC19696.deinterleave_data_bits(enc, False)
        calls += 1
        if d0.to01() != m:
            acc.violation("errorfree_decode_without_repair_wrong", {**case, "decoded": d0.to01()},
                          "decode(encode(m), repair off) != m")
        d1 = BPTC19696.deinterleave_data_bits(enc, True)
        calls += 1
        if d1.to01() != m:
            acc.violation("errorfree_decode_with_repair_wrong", {**case, "decoded": d1.to01()},
                          "decode(encode(m), repair on) != m")
        rin = enc.copy()
        r = BPTC19696.repair_if_necessary(rin)
        calls += 1
        if len(r) != N or r.to01() != e01:
            diff = [i for i in range(min(len(r), N)) if r[i] != enc[i]]
            kind = "reserved_R3_only" if (len(r) == N and diff == [0]) else "other_bits"
            acc.violation("errorfree_codeword_altered_by_repair:" + kind,
                          {**case, "codeword": e01, "repaired": r.to01(), "changed_tx_positions": diff},
                          "repair_if_necessary(encode(m)) differs from encode(m)")
            outcome = "altered:" + kind
        if enc.to01() != e01 or rin.to01() != e01:
            acc.violation("errorfree_codeword_altered_by_repair:input_buffer", case,
                          "the caller's codeword buffer was modified by decode/repair")
    except Exception as e:
        acc.violation("exception_decode:" + exc_sig(e), case, repr(e))
    acc.case(nontrivial=True, calls=calls, outcome=outcome, sample=case if first else None)
    return int(e01, 2)


def w_errorfree(task):
    lo, hi = task
    acc = Acc()
    encs = []
    for i in range(lo, hi):
        encs.append(check_errorfree(MSGS[i], acc, first=(i == lo)))
    return acc, encs


def decode_with_errors(cw: bitarray, pat):
    w = cw.copy()
    for p in pat:
        w.invert(p)
    return BPTC19696.deinterleave_data_bits(w, True)


def sig_for(pat):
    cls = pattern_class(pat)
    if len(pat) == 0:
        return "errorfree_decode_with_repair_wrong"
    if len(pat) == 1:
        return "single_error_misdecoded"
    return "double_error_misdecoded:" + ("same_column" if cls == "double_same_column" else "other")


def w_faults(task):
    bi, lo, hi = task
    acc = Acc()
    base = BASES[bi]
    cw = bitarray(CODEWORDS[bi])
    bint = int(base, 2)
    fails = []  # (pattern index, error effect on the decoded message as hex)
    for idx in range(lo, hi):
        pat = PATTERNS[idx]
        case = {"message": base, "flipped": list(pat)}
        cls = pattern_class(pat)
        ok = True
        try:
            d = decode_with_errors(cw, pat)
            if len(d) != K or d.to01() != base:
                ok = False
                eff = (int(d.to01(), 2) ^ bint) if len(d) == K else -1
                fails.append((idx, format(eff, "x")))
                acc.violation(sig_for(pat), {**case, "decoded": d.to01(), "class": cls},
                              "decoder with repair does not return the original message for a <= 2 bit error")
        except Exception as e:
            ok = False
            fails.append((idx, "exception"))
            acc.violation("exception_decode:" + exc_sig(e), case, repr(e))
        acc.case(nontrivial=cls not in ("none", "r3_only"), calls=1, outcome=(cls, ok),
                 sample=case if idx == lo + 1 else None)
    return acc, bi, fails



def w_support(task):
    """data-dependent error patterns: every single and double error *inside the support* of the codeword (positions holding a 1)
    of a sparse message -- the patterns that clear whole rows / columns and so reach shortcuts keyed on all-zero rows"""
    acc = Acc()
    for msg in task:
        try:
            cw = BPTC19696.encode(bitarray(msg))
        except Exception as e:
            acc.violation("exception_encode:" + exc_sig(e), {"message": msg}, repr(e))
            acc.case()
            continue
        supp = [i for i in range(len(cw)) if cw[i]]
        pats = [(i,) for i in supp] + list(itertools.combinations(supp, 2))
        for pat in pats:
            case = {"message": msg, "flipped": list(pat)}
            try:
                d = decode_with_errors(cw, pat)
                if len(d) != K or d.to01() != msg:
                    acc.violation(("single" if len(pat) == 1 else "double") + "_error_inside_codeword_support_misdecoded",
                                  {**case, "decoded": d.to01()}, "decoder with repair does not return the original message for a <= 2 bit error")
            except Exception as e:
                acc.violation("exception_decode:" + exc_sig(e), case, repr(e))
            acc.case(nontrivial=True, calls=1, outcome=len(pat), sample=case if len(acc.samples) < 1 else None)
    return acc


def w_repair_orders(task):
    """the repair entry point itself, on the block in on-air order and in the order deinterleave_all_bits() returns (deinterleaved=True)"""
    msg, lo, hi = task
    acc = Acc()
    cw = bitarray(ref_encode(msg))
    for idx in range(lo, hi):
        pat = PATTERNS[idx]
        case = {"message": msg, "flipped": list(pat)}
        try:
            x = cw.copy()
            for p_ in pat:
                x.invert(p_)
            snap = x.copy()
            a = BPTC19696.repair_if_necessary(x)
            if x != snap:
                acc.violation("repair_alters_the_callers_on_air_block", case)
            dx = BPTC19696.deinterleave_all_bits(snap)
            b = BPTC19696.repair_if_necessary(bitarray(dx), deinterleaved=True)
            if len(pat) == 0:
                if a != cw:
                    acc.violation("errorfree_codeword_altered_by_repair", {**case, "changed_bits": (a ^ cw).count()})
                if b != dx:
                    acc.violation("errorfree_deinterleaved_codeword_altered_by_repair", {**case, "changed_bits": (b ^ dx).count()},
                                  "repair_if_necessary(deinterleave_all_bits(codeword), deinterleaved=True) changes an error-free codeword")
            if b != BPTC19696.deinterleave_all_bits(a):
                acc.violation("repair_of_deinterleaved_block_differs_from_repair_of_on_air_block", {**case, "differing_bits": (b ^ BPTC19696.deinterleave_all_bits(a)).count()},
                              "the two documented forms of the same repair disagree on the same received block")
        except Exception as e:  # noqa: BLE001
            acc.violation("exception_repair:" + exc_sig(e), case, repr(e))
        acc.case(nontrivial=True, calls=4, outcome=pattern_class(pat), sample=case if idx == lo + 1 else None)
    return acc


def w_switch_orders(task):
    """one received block decoded several times in a row with the repair switch in different positions (what a receiver does: a
    burst parser decodes without repair, the transmission tracker decodes the same bits again with repair)"""
    msg, lo, hi = task
    acc = Acc()
    cw = bitarray(ref_encode(msg))
    for idx in range(lo, hi):
        pat = PATTERNS[idx]
        case = {"message": msg, "flipped": list(pat)}
        try:
            x = cw.copy()
            for p_ in pat:
                x.invert(p_)
            raw = "".join("1" if x[t] else "0" for t in INFO_TX)  # the info cells as received
            seq = []
            for sw in (False, True, False, True):
                seq.append((sw, BPTC19696.deinterleave_data_bits(x.copy(), sw).to01()))
            for pos, (sw, got) in enumerate(seq):
                want_ = msg if sw else raw
                if got != want_:
                    acc.violation(f"decode_number_{pos + 1}_of_the_same_block_with_repair_{'on' if sw else 'off'}_is_wrong", {**case, "switch_sequence": [q for q, _ in seq]},
                                  "the same received bits decoded again with the repair switch in the other position: the result belongs to the earlier call")
                    break
        except Exception as e:  # noqa: BLE001
            acc.violation("exception_switch_orders:" + exc_sig(e), case, repr(e))
        acc.case(nontrivial=True, calls=4, outcome=pattern_class(pat), sample=case if idx == lo + 1 else None)
    return acc


def w_history(task):
    pol, v, pm, probes = task
    acc = Acc()
    case = {"polluter_message": pm, "polluter_flips": list(pol), "victim": v}
    try:
        decode_with_errors(bitarray(ref_encode(pm)), pol)
        enc = BPTC19696.encode(bitarray(v))
        if enc.to01() != ref_encode(v):
            acc.violation("encode_depends_on_previous_decode", {**case, "diff": [i for i in range(N) if enc.to01()[i] != ref_encode(v)[i]][:8]},
                          "the codeword of a message differs after an unrelated decode-with-repair")
        rep_ = BPTC19696.repair_if_necessary(bitarray(ref_encode(v)))
        if rep_.to01() != ref_encode(v):
            acc.violation("errorfree_codeword_altered_by_repair_after_history", case)
        bad = 0
        for pat in probes:
            decode_with_errors(bitarray(ref_encode(pm)), pol)
            cw = BPTC19696.encode(bitarray(v))
            if decode_with_errors(cw, pat).to01() != v:
                bad += 1
        if bad:
            acc.violation("correctable_error_misdecoded_after_history", {**case, "patterns": bad})
    except Exception as e:
        acc.violation("exception_history:" + exc_sig(e), case, repr(e))
    acc.case(nontrivial=True, calls=3 + 3 * len(probes), outcome=len(pol), sample=case if len(pol) == 2 else None)
    return acc


# ----------------------------------------------------------------------------------------------
def run(only=None):
    global MSGS, BASES, CODEWORDS
    rep = Report("C02")
    rep.explanation = (
        "Fault enumeration on the real encoder/decoder: state = one enumerated (message, error pattern) case, "
        "transition = one real library call (encode / deinterleave_data_bits / repair_if_necessary) on it; every case "
        "is an implementation execution. All 19307 patterns of weight <= 2 over the 196 transmitted bits are applied "
        "to every base word; all messages of weight <= 2 (+ complements; thorough: weight 3) go through the "
        "error-free obligations. The 2^96 message space is reduced by GF(2)-linearity of the encoder (verified to "
        "order 2 on the whole basis) and translation invariance of the decoder (verified: identical error effect "
        "for every base word on every pattern)."
    )
    rep.assumptions = [
        "reference: ETSI TS 102 361-1 B.1.1 layout (index*181 mod 196, 13x15 matrix, R(3) outside the matrix) and "
        "Hamming(15,11,3)/(13,9,3) as multiples of x^4+x+1, re-derived in the check with integer polynomial division",
        "minimum distance of the product code is 9, hence every <= 2 bit error pattern is uniquely correctable",
        "CPython, bitarray, numpy behave as documented",
    ]
    nw = env.workers()
    want = lambda n: only is None or n in only  # noqa: E731

    # 1. error-free round trips ---------------------------------------------------------------
    enc_of = {}
    if want("errorfree_roundtrip"):
        MSGS = errorfree_messages(rep.thorough())
        s = rep.sub("errorfree_roundtrip",
                    "all messages of weight <= 2, their complements, 0101../1010.. (thorough: + all of weight 3): "
                    "encode == reference codeword (info placement, 13 row words, 15 column words), decode with and "
                    "without repair == message, repair_if_necessary(codeword) == codeword; every message is distinct")
        s.declared = len(MSGS)
        tasks = par.chunks(len(MSGS), nw * 8)
        for (lo, hi), (acc, encs) in zip(tasks, par.pmap(w_errorfree, tasks, nw)):
            s.merge(acc)
            for i, e in zip(range(lo, hi), encs):
                enc_of[MSGS[i]] = e
        s.extra["messages"] = len(MSGS)
        s.done()

    # 2. linearity of the encoder on the basis (uses the library outputs gathered above) --------
    if want("encoder_linearity") and enc_of:
        s = rep.sub("encoder_linearity",
                    "all 4560 unordered pairs of unit messages: enc(a^b) == enc(a)^enc(b)^enc(0); all 4657 weight<=2 "
                    "messages: enc(~m) == enc(m)^enc(1..1)^enc(0) (library outputs of sub-check 1, no new calls)")
        zero = enc_of.get("0" * K)
        ones = enc_of.get("1" * K)
        n = 0
        # an operand is None only if encode() failed for it -- already reported by sub-check 1; the case is then
        # counted as trivial ("operand_missing") so the declared space is still walked completely
        for i, j in itertools.combinations(range(K), 2):
            ops = (zero, enc_of.get(spaces.unit(K, i)), enc_of.get(spaces.unit(K, j)),
                   enc_of.get(spaces.flip("0" * K, (i, j))))
            have = None not in ops
            if have and ops[3] != ops[1] ^ ops[2] ^ ops[0]:
                s.violation("encoder_not_linear", {"unit_a": i, "unit_b": j}, "enc(a^b) != enc(a)^enc(b)^enc(0)")
            s.case(nontrivial=have, calls=0, outcome="pair" if have else "operand_missing")
            n += 1
        for pos in spaces.weight_le(K, 2):
            m = spaces.flip("0" * K, pos)
            ops = (zero, ones, enc_of.get(m), enc_of.get(spaces.complement(m)))
            have = None not in ops
            if have and ops[3] != ops[2] ^ ops[1] ^ ops[0]:
                s.violation("encoder_not_linear", {"message": m}, "enc(~m) != enc(m)^enc(1..1)^enc(0)")
            s.case(nontrivial=have, calls=0, outcome="complement" if have else "operand_missing",
                   sample={"message": m} if n == 4560 else None)
            n += 1
        s.declared = 4560 + 4657
        s.calls = max(s.calls, 1)
        s.done()

    # 3. fault sweep ------------------------------------------------------------------------------
    if want("fault_sweep"):
        BASES = base_words(rep)
        s = rep.sub("fault_sweep",
                    "every base word x ALL 19307 error patterns of weight <= 2 over the 196 transmitted bits; decode "
                    "with repair must return the base word. non-trivial: pattern hits at least one matrix bit "
                    "(everything except the empty pattern and the lone R(3) bit)")
        CODEWORDS = []
        for b in BASES:
            try:
                cw = BPTC19696.encode(bitarray(b)).to01()
            except Exception as e:
                s.violation("exception_encode:" + exc_sig(e), {"message": b}, repr(e))
                cw = ref_encode(b)
            if cw != ref_encode(b):
                for f in (structure_faults(cw, b) if len(cw) == N else ["length"]):
                    s.violation("encode_" + f, {"message": b, "got": cw, "want": ref_encode(b)},
                                "encoder output is not the ETSI BPTC(196,96) codeword of the message")
                if len(cw) != N:
                    cw = ref_encode(b)
            CODEWORDS.append(cw)
        s.declared = len(BASES) * len(PATTERNS)
        per_base = max(4, (nw * 6) // max(1, len(BASES))) if not rep.thorough() else 4
        tasks = [(bi, lo, hi) for bi in range(len(BASES)) for lo, hi in par.chunks(len(PATTERNS), per_base)]
        fails = {bi: {} for bi in range(len(BASES))}
        for acc, bi, fl in par.pmap(w_faults, tasks, nw):
            s.merge(acc)
            fails[bi].update(dict(fl))
        # translation invariance: the error effect must not depend on the base word
        ref = fails[0]
        for bi in range(1, len(BASES)):
            if fails[bi] != ref:
                diff = sorted(set(ref.items()) ^ set(fails[bi].items()))[:3]
                s.violation("decoder_data_dependent",
                            {"base_a": BASES[0], "base_b": BASES[bi],
                             "patterns": [list(PATTERNS[i]) for i, _ in diff]},
                            "the same error pattern has a different effect on different base words")
        # closed-form accounting of the failing set (see _PINNED)
        for bi in range(len(BASES)):
            pairs = [PATTERNS[i] for i in fails[bi] if pattern_class(PATTERNS[i]) == "double_same_column"]
            if pairs and (len(pairs) != 616 or pairs_digest(pairs) != _PINNED):
                s.violation("double_error_same_column_failing_set_differs_from_pinned_616",
                            {"message": BASES[bi], "count": len(pairs), "digest": pairs_digest(pairs),
                             "first": [list(p) for p in sorted(pairs)[:5]]},
                            "the set of mis-decoded same-column double errors is not the 616-pair set of the pinned tree")
                break
        s.extra["bases"] = len(BASES)
        s.extra["patterns_per_base"] = len(PATTERNS)
        s.extra["failing_patterns_base0"] = len(ref)
        s.extra["failing_same_column_digest_base0"] = pairs_digest(
            [PATTERNS[i] for i in ref if pattern_class(PATTERNS[i]) == "double_same_column"]) if ref else None
        s.done()

    # 4. data-dependent patterns: errors inside the support of sparse codewords ------------------------
    if want("support_errors_sparse_messages"):
        s = rep.sub("support_errors_sparse_messages",
                    "all 96 unit messages (thorough: + all weight-2 messages with both bits in one octet) x every single and double "
                    "error among the positions where their codeword holds a 1; decode with repair must return the message")
        msgs = [spaces.unit(K, i) for i in range(K)]
        if rep.thorough():
            for o in range(0, K, 8):
                for a, b in itertools.combinations(range(o, o + 8), 2):
                    msgs.append(spaces.flip("0" * K, (a, b)))
        for acc in par.pmap(w_support, par.split_list(msgs, nw * 4), nw):
            s.merge(acc)
        s.extra["messages"] = len(msgs)
        s.done()

    if want("encode_decode_again_after_caller_used_result"):
        s = rep.sub("encode_decode_again_after_caller_used_result",
                    "weight <= 1 messages + complements + seed words: encode, scribble on the returned bitarray, encode again; decode "
                    "(with 0 and 1 error, repair on), scribble on the returned bitarray, decode again")
        msgs = spaces.small_scope_messages(K, 1, extra=[env.det_bits(f"c02-again-{i}", K) for i in range(4)])
        for m in msgs:
            case = {"message": m}
            try:
                first = BPTC19696.encode(bitarray(m))
                snap = first.to01()
                first.invert()
                first.extend("1011")
                again = BPTC19696.encode(bitarray(m))
                if again.to01() != snap:
                    s.violation("second_encode_differs_after_caller_wrote_first_result", {**case, "len_again": len(again)},
                                "encoding the same message again gives other bits once the caller has modified the first result")
                again.invert()
                # the same bit strings stored little-endian (a bit string is its index order)
                if BPTC19696.encode(bitarray(m, endian="little")).to01() != snap:
                    s.violation("little_endian_message_encodes_differently", case)
                for flips in ((), (17,), (5, 150)):
                    rx_l = bitarray(snap, endian="little")
                    for i in flips:
                        rx_l.invert(i)
                    if BPTC19696.deinterleave_data_bits(rx_l, True).to01() != m:
                        s.violation("little_endian_block_decodes_differently", {**case, "flipped": list(flips)})
                for flips in ((), (17,)):
                    rx = bitarray(snap)
                    for i in flips:
                        rx.invert(i)
                    d1 = BPTC19696.deinterleave_data_bits(bitarray(rx), True)
                    dsnap = d1.to01()
                    d1.invert()
                    d2 = BPTC19696.deinterleave_data_bits(bitarray(rx), True)
                    if d2.to01() != dsnap or dsnap != m:
                        s.violation("second_decode_differs_after_caller_wrote_first_result", {**case, "flipped": list(flips)})
                    d2.invert()
            except Exception as e:
                s.violation("exception_encode_again:" + exc_sig(e), case, repr(e))
            s.case(nontrivial=True, calls=6, outcome="ok", sample=case if len(s.samples) < 1 else None)
        s.done()


    if want("repair_entry_point_both_orders"):
        s = rep.sub("repair_entry_point_both_orders",
                    "repair_if_necessary() called directly, on the on-air block and on deinterleave_all_bits(block) with deinterleaved=True: "
                    "all 19307 patterns of weight <= 2 x base words: an error-free codeword comes back unaltered in both orders, "
                    "and both orders give the same repaired block for every pattern")
        words = [env.det_bits("c02-repair-order", K)] + (["1" * K, spaces.unit(K, 5)] if rep.thorough() else [])
        tasks = [(w_, lo, hi) for w_ in words for lo, hi in par.chunks(len(PATTERNS), nw * 2)]
        s.declared = len(words) * len(PATTERNS)
        for acc in par.pmap(w_repair_orders, tasks, nw):
            s.merge(acc)
        s.done()

    if want("same_block_decoded_with_the_repair_switch_off_and_on"):
        s = rep.sub("same_block_decoded_with_the_repair_switch_off_and_on",
                    "all 19307 patterns of weight <= 2 x base words: the same received 196 bits (fresh copies) decoded four times in a row with the "
                    "repair switch off, on, off, on: with repair the original message every time, without repair the info cells as received every time")
        words = [env.det_bits("c02-switch-order", K)] + (["1" * K, spaces.unit(K, 7)] if rep.thorough() else [])
        tasks = [(w_, lo, hi) for w_ in words for lo, hi in par.chunks(len(PATTERNS), nw * 2)]
        s.declared = len(words) * len(PATTERNS)
        for acc in par.pmap(w_switch_orders, tasks, nw):
            s.merge(acc)
        s.done()

    if want("history_pollution"):
        # histories: a decode-with-repair of a damaged block (errors in every class of position, incl. the reserved bits) directly
        # followed by the obligations on an unrelated message -- shared scratch buffers / cached tables leak through here
        s = rep.sub("history_pollution",
                    "polluters = decode with repair of a codeword with 1-2 inverted bits (all 4 reserved positions alone and in pairs, "
                    "+ info / parity / mixed positions) x 4 victim messages: encode(victim) == reference codeword, repair leaves it "
                    "unaltered, all single errors and a cross-section of double errors on it still decode")
        reserved = sorted(set(range(N)) - set(CELL_OF_TX)) + sorted(TX[r][c] for r in range(ROWS) for c in range(COLS) if r == 0 and c < 3)
        polluters = [(p,) for p in reserved] + list(itertools.combinations(reserved, 2)) + [(INFO_TX[0],), (INFO_TX[40], INFO_TX[41]), (TX[12][14],), (TX[3][13], reserved[1])]
        victims = ["0" * K, "1" * K, spaces.unit(K, 19), env.det_bits("c02-victim", K)]
        pm = env.det_bits("c02-polluter-msg", K)
        probes = [(i,) for i in range(N)] + [(i, (i * 37 + 11) % N) for i in range(N) if i != (i * 37 + 11) % N] + list(itertools.combinations(reserved, 2))
        tasks = [(pol, v, pm, probes) for pol in polluters for v in victims]
        s.declared = len(tasks)
        for acc in par.pmap(w_history, tasks, nw):
            s.merge(acc)
        s.done()


    if want("input_containers"):
        s = rep.sub("input_containers",
                    "weight <= 1 messages + complements + seed words x {frozenbitarray, bitarray with a live memoryview, bitarray over an "
                    "imported read-only / writable buffer}: encode, decode (error-free and with one inverted bit, repair on and off) give "
                    "the same bits as for a plain bitarray and leave the argument as it was")
        for m in spaces.small_scope_messages(K, 1, extra=[env.det_bits(f"c02-cont-{i}", K) for i in range(3)]):
            case = {"message": m}
            ref = ref_encode(m)
            for kind_, arg, keep in hist.bit_containers(m):
                try:
                    if BPTC19696.encode(arg).to01() != ref:
                        s.violation(f"encode_differs_for_container:{kind_}", case)
                    if arg.to01() != m:
                        s.violation(f"encode_alters_argument:{kind_}", case)
                except Exception as e:  # noqa: BLE001
                    s.violation(f"exception_encode_container:{kind_}:" + exc_sig(e), case, repr(e))
                del keep
                s.case(nontrivial=True, calls=1, outcome=kind_, sample={**case, "container": kind_} if len(s.samples) < 2 else None)
            damaged = spaces.flip(ref, (INFO_TX[7],))
            for word, lab in ((ref, "errorfree"), (damaged, "one_error")):
                for kind_, arg, keep in hist.bit_containers(word):
                    try:
                        if BPTC19696.deinterleave_data_bits(arg, True).to01() != m:
                            s.violation(f"decode_with_repair_differs_for_container:{lab}:{kind_}", case)
                        if lab == "errorfree" and BPTC19696.deinterleave_data_bits(arg, False).to01() != m:
                            s.violation(f"decode_without_repair_differs_for_container:{kind_}", case)
                        if arg.to01() != word:
                            s.violation(f"decode_alters_argument:{lab}:{kind_}", case)
                    except Exception as e:  # noqa: BLE001
                        s.violation(f"exception_decode_container:{lab}:{kind_}:" + exc_sig(e), case, repr(e))
                    del keep
                    s.case(nontrivial=True, calls=2, outcome=(lab, kind_))
        s.done()

    if want("history_with_out_of_range_calls"):
        s = rep.sub("history_with_out_of_range_calls",
                    "every public function of BPTC19696 x 10 out-of-range arguments (empty, short, over-long, wrong container); whatever "
                    "that call does, the next valid encode / decode (0, 1, 2 inverted bits, repair on) gives the reference result")
        import numpy as _np
        funcs = {
            "encode": BPTC19696.encode, "deinterleave_all_bits": BPTC19696.deinterleave_all_bits,
            "deinterleave_data_bits": BPTC19696.deinterleave_data_bits, "repair_if_necessary": BPTC19696.repair_if_necessary,
            "repair_if_necessary_deinterleaved": lambda a: BPTC19696.repair_if_necessary(a, deinterleaved=True),
            "fill_encoding_table": lambda a: BPTC19696.fill_encoding_table(BPTC19696.make_encoding_table(), a),
        }
        bad_args = [
            ("empty_bitarray", lambda: bitarray()), ("bitarray_7", lambda: bitarray("1011011")), ("bitarray_95", lambda: bitarray("1" * 95)),
            ("bitarray_97", lambda: bitarray("1" * 97)), ("bitarray_195", lambda: bitarray("10" * 97 + "1")), ("bitarray_197", lambda: bitarray("10" * 98 + "1")),
            ("bitarray_264", lambda: bitarray("110" * 88)), ("bytes_12", lambda: bytes(range(12))), ("numpy_196", lambda: _np.array([1] * 196)), ("none", lambda: None),
        ]
        pm_ = env.det_bits("c02-oor", K)
        pcw = ref_encode(pm_)
        probes = [
            ("encode", lambda: BPTC19696.encode(bitarray(pm_)).to01()),
            ("decode_errorfree", lambda: BPTC19696.deinterleave_data_bits(bitarray(pcw), True).to01()),
            ("decode_one_error", lambda: BPTC19696.deinterleave_data_bits(bitarray(spaces.flip(pcw, (INFO_TX[3],))), True).to01()),
            ("decode_two_errors", lambda: BPTC19696.deinterleave_data_bits(bitarray(spaces.flip(pcw, (INFO_TX[3], TX[12][14]))), True).to01()),
            ("decode_no_repair", lambda: BPTC19696.deinterleave_data_bits(bitarray(pcw), False).to01()),
        ]
        hist.poisoned_histories(s, funcs, bad_args, probes)
        s.done()

    if want("kept_results"):
        s = rep.sub("kept_results", "encode / decode / repair / deinterleave_all_bits of 20 messages in a row with every returned bitarray kept by the caller: after the last "
                                    "call each is still the result of its own call")
        km = spaces.small_scope_messages(K, 0, extra=[env.det_bits(f"c02-kept-{i}", K) for i in range(18)])
        hist.kept_results(s, "encode", [({"message": m}, (lambda m=m: BPTC19696.encode(bitarray(m)))) for m in km], obs=lambda r: r.to01())
        hist.kept_results(s, "decode_one_error", [({"message": m}, (lambda m=m: BPTC19696.deinterleave_data_bits(bitarray(spaces.flip(ref_encode(m), (INFO_TX[5],))), True))) for m in km], obs=lambda r: r.to01())
        hist.kept_results(s, "repair_if_necessary", [({"message": m}, (lambda m=m: BPTC19696.repair_if_necessary(bitarray(spaces.flip(ref_encode(m), (INFO_TX[9],)))))) for m in km], obs=lambda r: r.to01())
        hist.kept_results(s, "deinterleave_all_bits", [({"message": m}, (lambda m=m: BPTC19696.deinterleave_all_bits(bitarray(ref_encode(m))))) for m in km], obs=lambda r: r.to01())
        s.done()

    if want("callers_buffer_overwritten_in_place"):
        s = rep.sub("callers_buffer_overwritten_in_place",
                    "the caller builds every message and holds every received block in ONE bitarray that it overwrites in place between calls (one-bit "
                    "changes, a field counted up, one and two channel errors moved around, the first content again): encode, decode with and without "
                    "repair, repair_if_necessary and deinterleave_all_bits answer for the buffer's present content (expected: the reference encoder / the "
                    "message; otherwise the same call on a fresh object, taken first)")
        base = env.det_bits("c02-reuse", K)
        ms = [base]
        for pos in (0, K - 1, K // 2, 17):
            ms.append(ms[-1][:pos] + ("1" if ms[-1][pos] == "0" else "0") + ms[-1][pos + 1:])
        ms += [base[:K - 3] + format(i, "03b") for i in range(8)] + [base]
        cws = [ref_encode(m) for m in ms]
        errs = [spaces.flip(c, (INFO_TX[(7 * i) % K],)) if i % 3 == 1 else (spaces.flip(c, (INFO_TX[(5 * i) % K], TX[2][(3 * i) % 15])) if i % 3 == 2 else c) for i, c in enumerate(cws)]
        hist.reused_buffer(s, "bptc", [
            ("encode", (lambda b: BPTC19696.encode(b).to01()), [bitarray(m) for m in ms], cws),
            ("decode_without_repair", (lambda b: BPTC19696.deinterleave_data_bits(b, False).to01()), [bitarray(c) for c in cws], list(ms)),
            ("decode_with_repair", (lambda b: BPTC19696.deinterleave_data_bits(b, True).to01()), [bitarray(e) for e in errs], None),
            ("repair_if_necessary", (lambda b: BPTC19696.repair_if_necessary(b).to01()), [bitarray(e) for e in errs], None),
            ("deinterleave_all_bits", (lambda b: BPTC19696.deinterleave_all_bits(b).to01()), [bitarray(e) for e in errs], None),
        ], may_write=("repair_if_necessary", "decode_with_repair"))
        s.done()

    if want("storage_twin_histories"):
        s = rep.sub("storage_twin_histories",
                    "5 messages x 3 containers that a cache keyed by storage octets confuses (big-endian bitarray, little-endian bitarray over the same octets = "
                    "another message, little-endian bitarray with the same bits): all ordered pairs of encode calls back to back give the reference codeword "
                    "of the message the container holds; all ordered pairs of decode calls (repair on / off) over the containers of 3 codewords with 0, 1, 2 "
                    "channel errors return the message")
        tms = [env.det_bits(f"c02-twin-{i}", K) for i in range(4)] + [("1011001" * 14)[:K]]
        hist.storage_twin_histories(s, "bptc", [("encode", BPTC19696.encode, tms, (lambda r, bits: r.to01() == ref_encode(bits)), False)])
        tcw = [ref_encode(m) for m in tms[:3]]
        rx = [tcw[0], spaces.flip(tcw[1], (INFO_TX[11],)), spaces.flip(tcw[2], (INFO_TX[40], TX[2][7]))]
        items = []
        for i, w in enumerate(rx):
            for k, o, b in hist.storage_twins(w):
                items.append((i, k, o, b == w))
        for ia, ka, oa, _ in items:
            for ib, kb, ob, valid in items:
                if not valid:
                    continue
                for rep_a in (False, True):
                    try:
                        BPTC19696.deinterleave_data_bits(oa.copy(), rep_a)
                    except Exception:  # noqa: BLE001
                        pass
                    try:
                        r = BPTC19696.deinterleave_data_bits(ob.copy(), True).to01()
                    except Exception as e:  # noqa: BLE001
                        s.violation("storage_twins:exception:bptc:decode:" + exc_sig(e), {"first": [ia, ka, rep_a], "second": [ib, kb]}, repr(e))
                        continue
                    if r != tms[ib]:
                        s.violation("storage_twins:wrong_result_in_a_history_of_storage_twins:bptc:decode", {"first": [ia, ka, rep_a], "second": [ib, kb]},
                                    "decode with repair after a decode of a container sharing storage octets / bits does not return the message")
                    s.case(nontrivial=True, calls=2, outcome="twin_pair_decode")
        s.done()

    if want("long_call_history"):
        s = rep.sub("long_call_history",
                    "encode / decode-with-repair of one fixed message called again and again in one process: the result never depends on how "
                    "many calls came before.  Depth 3 when a call leaves class/module data untouched (observed), 2^16+256 calls per entry "
                    "point when it does not, and always in the thorough tier")
        import okdmr.dmrlib.etsi.fec.bptc_196_96 as _mb, okdmr.dmrlib.etsi.fec.hamming_common as _mh
        from okdmr.dmrlib.etsi.fec.hamming_15_11_3 import Hamming15113 as _H15
        from okdmr.dmrlib.etsi.fec.hamming_13_9_3 import Hamming1393 as _H13
        lm = env.det_bits("c02-long", K)
        lcw = ref_encode(lm)
        lerr = spaces.flip(lcw, (INFO_TX[11], TX[2][13]))
        hist.long_history(s, [BPTC19696, _H15, _H13, _mh.HammingCommon, _mb, _mh], [
            ("encode", lambda: BPTC19696.encode(bitarray(lm)).to01()),
            ("decode_two_errors_with_repair", lambda: BPTC19696.deinterleave_data_bits(bitarray(lerr), True).to01()),
        ], always=rep.thorough(), deadline_s=400.0)
        hist.picklable_entry_points(s, {n_: getattr(BPTC19696, n_) for n_ in ("encode", "deinterleave_data_bits", "deinterleave_all_bits", "repair_if_necessary")})

        def msg_(i):
            return format((i * 0x9E3779B97F4A7C15F39CC060 + 1) % (1 << K), f"0{K}b")

        hist.many_distinct_inputs(s, [BPTC19696, _H15, _H13, _mh.HammingCommon, _mb, _mh], [
            ("encode", lambda i: msg_(i), lambda m_: BPTC19696.encode(bitarray(m_)).to01()),
            ("decode_one_error", lambda i: spaces.flip(ref_encode(msg_(i)), (INFO_TX[i % 96],)), lambda w_: BPTC19696.deinterleave_data_bits(bitarray(w_), True).to01()),
        ], always=rep.thorough(), n=20_000, deadline_s=400.0)
        # the repair switch in every way a caller may pass a true / false value: by position, by name, as 1 / 0, as numpy.bool_
        import numpy as _np2
        cwq = ref_encode(lm)
        for pat in ((), (INFO_TX[2],), (INFO_TX[2], TX[5][12]), (INFO_TX[30], INFO_TX[31])):
            w_ = spaces.flip(cwq, pat)
            for form, call_ in (("positional_True", lambda x: BPTC19696.deinterleave_data_bits(x, True)),
                                ("by_name_True", lambda x: BPTC19696.deinterleave_data_bits(bits=x, repair_if_necessary=True)),
                                ("positional_1", lambda x: BPTC19696.deinterleave_data_bits(x, 1)),
                                ("by_name_numpy_bool", lambda x: BPTC19696.deinterleave_data_bits(x, repair_if_necessary=_np2.bool_(True))),
                                ("default", lambda x: BPTC19696.deinterleave_data_bits(x))):
                case = {"message": lm, "flipped": list(pat), "repair_switch": form}
                try:
                    if call_(bitarray(w_)).to01() != lm:
                        s.violation(f"decode_with_repair_wrong_when_the_switch_is_given_as:{form}", case)
                except Exception as e:  # noqa: BLE001
                    s.violation(f"exception_repair_switch:{form}:" + exc_sig(e), case, repr(e))
                s.case(nontrivial=True, calls=1, outcome=form)
            for form, call_ in (("positional_False", lambda x: BPTC19696.deinterleave_data_bits(x, False)),
                                ("by_name_0", lambda x: BPTC19696.deinterleave_data_bits(x, repair_if_necessary=0))):
                if not pat:
                    try:
                        if call_(bitarray(w_)).to01() != lm:
                            s.violation(f"errorfree_decode_without_repair_wrong_when_the_switch_is_given_as:{form}", {"message": lm, "repair_switch": form})
                    except Exception as e:  # noqa: BLE001
                        s.violation(f"exception_repair_switch:{form}:" + exc_sig(e), {"message": lm}, repr(e))
                    s.case(nontrivial=True, calls=1, outcome=form)
        s.done()

    rep.bounds = {
        "error_patterns": "all of weight <= 2 over 196 bits (19307)",
        "base_words": f"{len(BASES)} (0, 1..1" + (", 96 unit messages" if rep.thorough() else "") + ", seed-chosen)",
        "errorfree_messages": "weight <= " + ("3" if rep.thorough() else "2") + " and complements of weight <= 2",
        "not_covered": "messages of weight 4..92 other than the seed-chosen ones (reduction: encoder linearity to order 2, "
                       "decoder translation invariance on every base word); error patterns of weight >= 3 (outside the statement)",
    }
    return rep.finish()


def replay(doc):
    bad = 0
    for case in doc.get("cases", []):
        m = case.get("message")
        if m is None:
            print("case without message, cannot replay:", case)
            continue
        if "flipped" in case:
            cw = BPTC19696.encode(bitarray(m))
            try:
                d = decode_with_errors(cw, case["flipped"]).to01()
            except Exception as e:  # noqa: BLE001
                d = repr(e)
            ok = d == m
            print(f"message={m} flipped={case['flipped']} class={pattern_class(tuple(case['flipped']))} "
                  f"decoded_ok={ok}" + ("" if ok else f" decoded={d}"))
            bad += not ok
        else:
            acc = Acc()
            check_errorfree(m, acc)
            print(f"message={m} error-free obligations: {sorted(acc.viol) or 'ok'}")
            bad += bool(acc.viol)
    return 1 if bad else 0

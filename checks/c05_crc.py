"""C05 -- CRC engines and front ends equal the standard's definition.

Technique: complete enumeration of stated finite input spaces on the real engines
(BitCrcCalculator bitwise / table-driven for the five ETSI configurations) and front ends
(CRC8 / CRC9 / CRC16 / CRC32), against integer-polynomial long division (mc/oracle/gf2.py).

WHAT IS TAKEN AS THE DEFINITION (ETSI TS 102 361-1 annex B.3, as cited in the library docstrings)
  generator polynomials
    7-bit  (reverse channel)   x^7+x^5+x^2+x+1
    8-bit  (B.3.7)             x^8+x^2+x+1
    CCITT  (B.3.8)             x^16+x^12+x^5+1
    32-bit (B.3.9)             x^32+x^26+x^23+x^22+x^16+x^12+x^11+x^10+x^8+x^7+x^5+x^4+x^2+x+1
    9-bit  (B.3.10)            x^9+x^6+x^4+x^3+1
  engine:  R(x) = M(x) * x^w mod G(x); the first bit of the bit string is the highest-order coefficient
           of M(x); a bit string is read in *index order* (bitarray equality ignores the storage
           endianness, so does the definition); zero initial value, no final xor.
  CRC-8  front end: the remainder itself (no inversion, no mask), as an int.
  CCITT  front end: octets MSB first; remainder inverted (xor 0xFFFF), then xor data-type mask (B.3.12).
  CRC-9  front end: M = data octets MSB first || [message CRC-32, 4 octets in on-air order, when present]
           || 7-bit data block serial number MSB first; remainder inverted (xor 0x1FF), xor mask.
           Parameter convention of calculate_from_parts: crc32 None = "not a last block"; bytes = appended as
           given; non-zero int = 4 octets big-endian.  The integer 0 is the PDU classes' default for "no
           message CRC" and is treated as absent on the pinned tree; the statement does not define it, so
           both readings (absent / four zero octets) are accepted and the implemented one is recorded.
  CRC-32 front end: every pair of octets swapped (an unpaired trailing octet stays), octets MSB first,
           the remainder itself as an int (no inversion, no mask).  The on-air field holds that int
           little-endian; that placement is outside CRC32.calculate.
  B.3.12 masks: PI header 6969, voice LC header 969696, terminator with LC 999999, CSBK A5A5, MBC header
           AAAA, data header CCCC, USBD 3333, rate 1/2 data 0F0, rate 3/4 data 1FF, rate 1 data 10F,
           reverse channel 7A.
  The transcription is anchored on the captured on-air vectors quoted in okdmr/tests (see _anchor()).
"""
from mc import env  # noqa: F401
from mc import par, spaces
from mc.report import Report, Acc, exc_sig
from mc.oracle import gf2

import itertools

from bitarray import bitarray

from okdmr.dmrlib.etsi.crc.crc import BitCrcCalculator, Crc7, Crc8, Crc9, Crc16, Crc32
from okdmr.dmrlib.etsi.crc.crc8 import CRC8
from okdmr.dmrlib.etsi.crc.crc9 import CRC9
from okdmr.dmrlib.etsi.crc.crc16 import CRC16
from okdmr.dmrlib.etsi.crc.crc32 import CRC32
from okdmr.dmrlib.etsi.layer2.elements.crc_masks import CrcMasks

EXPONENTS = {
    7: (7, 5, 2, 1, 0),
    8: (8, 2, 1, 0),
    9: (9, 6, 4, 3, 0),
    16: (16, 12, 5, 0),
    32: (32, 26, 23, 22, 16, 12, 11, 10, 8, 7, 5, 4, 2, 1, 0),
}
G = {w: sum(1 << e for e in ex) for w, ex in EXPONENTS.items()}
# width in which the table-driven register consumes the message (8 when w % 8 == 0, else the largest divisor in 2..15)
FEED = {7: 7, 8: 8, 9: 9, 16: 8, 32: 8}
LIBCFG = {7: Crc7.ETSI_DMR, 8: Crc8.ETSI_DMR, 9: Crc9.ETSI_DMR, 16: Crc16.ETSI_DMR, 32: Crc32.ETSI_DMR}
WIDTHS = (7, 8, 9, 16, 32)
MODES = ("bitwise", "table")
ENDIANS = ("big", "little")

MASK_TABLE = {  # B.3.12, transcribed
    "PiHeader": 0x6969,
    "VoiceLCHeader": 0x969696,
    "TerminatorWithLC": 0x999999,
    "CSBK": 0xA5A5,
    "MBCHeader": 0xAAAA,
    "DataHeader": 0xCCCC,
    "UnifiedSingleBlockData": 0x3333,
    "Rate12DataContinuation": 0x0F0,
    "Rate34DataContinuation": 0x1FF,
    "Rate1DataContinuation": 0x10F,
    "ReverseChannel": 0x7A,
}

ENG = {}


def engines():
    if not ENG:
        for w in WIDTHS:
            for mode in MODES:
                ENG[(w, mode)] = BitCrcCalculator(LIBCFG[w], table_based=(mode == "table"))
    return ENG


def rem(bits: str, w: int) -> int:
    return gf2.crc_remainder(bits, G[w])


def to_int(ba) -> int:
    """value of a returned checksum read in index order (first bit = highest order)"""
    s = ba.to01()
    return int(s, 2) if s else 0


def bytes_bits(b: bytes) -> str:
    return "".join(format(x, "08b") for x in b)


def chunk_reversed(bits: str, feed: int) -> str:
    """every complete feed-width chunk bit-reversed, a trailing partial chunk unchanged"""
    out = []
    for i in range(0, len(bits), feed):
        c = bits[i:i + feed]
        out.append(c[::-1] if len(c) == feed else c)
    return "".join(out)


# ------------------------------------------------------------------ definitions of the front ends
def def_crc8(bits: str) -> int:
    return rem(bits, 8)


def def_crc16(data: bytes, mask: int) -> int:
    return (rem(bytes_bits(data), 16) ^ 0xFFFF) ^ mask


def def_crc9_bits(bits: str, mask: int) -> int:
    return (rem(bits, 9) ^ 0x1FF) ^ mask


def def_crc9_parts(data: bytes, dbsn: int, mask: int, crc32) -> int:
    bits = bytes_bits(data)
    if crc32 is not None and not (isinstance(crc32, int) and crc32 == 0):
        c = crc32.to_bytes(4, "big") if isinstance(crc32, int) else bytes(crc32)
        bits += bytes_bits(c)
    bits += format(dbsn, "07b")
    return def_crc9_bits(bits, mask)


def swap_pairs(data: bytes) -> bytes:
    out = bytearray(data)
    for i in range(0, len(data) - 1, 2):
        out[i], out[i + 1] = data[i + 1], data[i]
    return bytes(out)


def def_crc32(data: bytes) -> int:
    return rem(bytes_bits(swap_pairs(data)), 32)


def _anchor():
    """the transcription above reproduces the captured on-air vectors quoted in the repository's tests"""
    assert G[7] == 0xA7 and G[8] == 0x107 and G[9] == 0x259 and G[16] == 0x11021 and G[32] == 0x104C11DB7
    assert def_crc16(bytes.fromhex("4da323383b23383b0560"), 0xCCCC) == 0x8040
    assert def_crc16(bytes.fromhex("bd0080180008fd23383b"), 0xA5A5) == 0xB2ED
    assert def_crc16(bytes.fromhex("211002177afc73000009"), 0x6969) == 0x0DDA
    assert def_crc9_parts(bytes.fromhex("47004d00500054002e004a0047004100"), 17, 0x1FF, None) == 459
    assert def_crc9_parts(bytes.fromhex("0001410048004f004a000000"), 0, 0x1FF, bytes.fromhex("a197ccb4")) == 447
    assert def_crc9_parts(bytes.fromhex("000000000000000000000000"), 2, 0x1FF, bytes.fromhex("f486aed8")) == 312
    assert def_crc32(bytes.fromhex("d6790062620003bf000700000000000000000000")) == int.from_bytes(bytes.fromhex("210b9a3d"), "little")
    assert def_crc32(bytes.fromhex("0600fb4f3d3f82afc6d80b42ce88668afc7d8b1807e83c308d95bb8be5dd59e95b2837e795af87005ae2a743535ca421601d")) == int.from_bytes(bytes.fromhex("c76ae25c"), "little")
    assert def_crc8("0001000000000000000000000000") == 0b00010110
    assert def_crc8("0001000000110000000011011010") == 0b10100011


# ------------------------------------------------------------------ message sets
def messages_of_length(n):
    """0..0, 1..1, all n unit vectors, 1010.., one seed fill -- ordered, de-duplicated"""
    if n == 0:
        return [""]
    out = []
    seen = set()
    for s in itertools.chain(["0" * n, "1" * n], (spaces.unit(n, i) for i in range(n)),
                             [("10" * n)[:n], env.det_bits(f"c05-fill-{n}", n)]):
        if s not in seen:
            seen.add(s)
            out.append(s)
    return out


def byte_strings(maxlen):
    """lengths 0..maxlen x {00.., ff.., every single-bit octet string, one seed fill} (de-duplicated)"""
    out = []
    seen = set()
    for n in range(maxlen + 1):
        cands = [bytes(n), b"\xff" * n]
        for i in range(8 * n):
            b = bytearray(n)
            b[i // 8] = 0x80 >> (i % 8)
            cands.append(bytes(b))
        cands.append(env.det_bytes(f"c05-bytes-{n}", n))
        for c in cands:
            if c not in seen:
                seen.add(c)
                out.append(c)
    return out


# ------------------------------------------------------------------ engines
def eval_engine(acc, w, mode, endian, msg, want, sample=False):
    case = {"op": "engine", "width": w, "mode": mode, "endian": endian, "bits": msg}
    try:
        got_ba = engines()[(w, mode)].calculate_checksum(bitarray(msg, endian=endian))
        if len(got_ba) != w:
            acc.violation(f"checksum_width:crc{w}", {**case, "len": len(got_ba)}, "checksum is not w bits wide")
        else:
            got = to_int(got_ba)
            if got != want:
                alt = rem(chunk_reversed(msg, FEED[w]), w)
                if mode == "table" and endian == "little" and got == alt:
                    acc.violation("table_mode_reads_little_endian_bitarray_chunks_bit_reversed",
                                  {**case, "got": got, "want": want},
                                  "the table-driven register indexes its table with ba2int (storage endianness) instead of index "
                                  "order: for bitarray(endian='little') every complete feed-width chunk is consumed bit-reversed, "
                                  "so it disagrees with the bitwise register and with the polynomial remainder")
                else:
                    acc.violation(f"remainder_mismatch:crc{w}:{mode}:{endian}", {**case, "got": got, "want": want},
                                  "engine result differs from M(x)*x^w mod G(x)")
    except Exception as e:
        acc.violation(f"exception_engine:{mode}:{endian}:" + exc_sig(e), case, repr(e))
    acc.case(nontrivial="1" in msg, outcome=(w, mode[0], endian[0], len(msg) % FEED[w] == 0), sample=case if sample else None)


def engine_space(kind, w, n, lo=0, hi=0):
    """the three message spaces of the engine sub-checks"""
    if kind == "lengths":
        return messages_of_length(n)
    if kind == "all":
        return [format(v, f"0{n}b") if n else "" for v in range(lo, hi)]
    if kind == "weight2":
        return [spaces.flip("0" * n, ij) for ij in itertools.combinations(range(n), 2)]
    raise KeyError(kind)


def w_engine(task):
    kind, w, n, lo, hi, endians = task
    acc = Acc()
    first = True
    for msg in engine_space(kind, w, n, lo, hi):
        want = rem(msg, w)
        for mode in MODES:
            for endian in endians:
                eval_engine(acc, w, mode, endian, msg, want,
                            sample=first and ((kind == "lengths" and n in (13, 87)) or (kind == "all" and n == 11)))
        first = False
    return acc


def engine_tasks(kind, params, endians):
    """(tasks, number of messages per width) for one message space"""
    tasks = []
    count = 0
    if kind == "lengths":
        for n in sorted(params, reverse=True):
            count += len(messages_of_length(n))
            tasks += [("lengths", w, n, 0, 0, endians) for w in WIDTHS]
    elif kind == "all":
        for n in range(params, -1, -1):
            count += 1 << n
            for lo, hi in par.chunks(1 << n, max(1, (1 << n) // 2048)):
                tasks += [("all", w, n, lo, hi, endians) for w in WIDTHS]
    elif kind == "weight2":
        for n in range(params, 1, -1):
            count += n * (n - 1) // 2
            tasks += [("weight2", w, n, 0, 0, endians) for w in WIDTHS]
    return tasks, count


def w_verify(task):
    """verify_checksum accepts exactly the computed value"""
    w, mode, msg, cands = task
    acc = Acc()
    want = rem(msg, w)
    eng = engines()[(w, mode)]
    shared = bitarray(msg)  # one message object for the whole candidate sweep, as a caller would write it
    for v in cands:
        case = {"op": "verify", "width": w, "mode": mode, "bits": msg, "candidate": v}
        try:
            got = bool(eng.verify_checksum(shared, v))
            if shared.to01() != msg:
                acc.violation(f"verify_checksum_modifies_message:crc{w}", {**case, "message_after": shared.to01()[:80]},
                              "verify_checksum changes the bit string passed to it")
                shared = bitarray(msg)
            if to_int(eng.calculate_checksum(shared)) != want or shared.to01() != msg:
                acc.violation(f"calculate_after_verify_wrong:crc{w}", case)
                shared = bitarray(msg)
            if got != (v == want):
                acc.violation(f"verify_checksum_wrong_verdict:crc{w}", {**case, "want_crc": want},
                              "verify_checksum accepts a value other than the remainder / rejects the remainder")
        except Exception as e:
            acc.violation("exception_verify:" + exc_sig(e), case, repr(e))
        acc.case(nontrivial=True, outcome=(w, v == want), sample=case if v == want else None)
    return acc


# ------------------------------------------------------------------ front ends
def mask_members():
    return list(CrcMasks)


def w_crc16(task):
    datas = task
    acc = Acc()
    for data in datas:
        for m in mask_members():
            case = {"op": "crc16", "data": data.hex(), "mask": m.name}
            want = def_crc16(data, MASK_TABLE.get(m.name, m.value))
            try:
                got = CRC16.calculate(data, m)
                if got != want:
                    acc.violation("crc16_front_end_mismatch", {**case, "got": got, "want": want},
                                  "CRC16.calculate != (remainder xor FFFF) xor mask")
            except Exception as e:
                acc.violation("exception_crc16:" + exc_sig(e), case, repr(e))
            acc.case(nontrivial=True, outcome=m.name, sample=case if len(data) == 10 and m.name == "CSBK" else None)
    return acc


def w_crc16_check(task):
    data, mname, lo, hi = task
    acc = Acc()
    m = CrcMasks[mname]
    want = def_crc16(data, MASK_TABLE[mname])
    for v in range(lo, hi):
        case = {"op": "crc16_check", "data": data.hex(), "mask": mname, "candidate": v}
        try:
            got = bool(CRC16.check(data, v, m))
            if got != (v == want):
                acc.violation("crc16_check_wrong_verdict", {**case, "want_crc": want}, "CRC16.check does not accept exactly the defined value")
        except Exception as e:
            acc.violation("exception_crc16:" + exc_sig(e), case, repr(e))
        acc.case(nontrivial=True, outcome=(v == want), sample=case if v == want else None)
    return acc


CRC9_MASKS = ("Rate12DataContinuation", "Rate34DataContinuation", "Rate1DataContinuation")
CRC9_DATA_LENGTHS = (6, 10, 12, 16, 18, 22)  # confirmed (last) block payload sizes of rate 1/2, 3/4, 1


def crc32_alphabet():
    return [None, 0, bytes(4), env.det_bytes("c05-crc32", 4), 1, env.det_int("c05-crc32-int", 32) | 0x80000000]


def w_crc9_parts(task):
    mname, dbsns, datas = task
    acc = Acc()
    m = CrcMasks[mname]
    for dbsn in dbsns:
        for data in datas:
            for c32 in crc32_alphabet():
                case = {"op": "crc9_parts", "data": data.hex(), "dbsn": dbsn, "mask": mname,
                        "crc32": c32.hex() if isinstance(c32, bytes) else c32}
                want = def_crc9_parts(data, dbsn, MASK_TABLE[mname], c32)
                ok_values = {want}
                int0 = isinstance(c32, int) and c32 == 0
                if int0:
                    # the statement does not say whether the integer 0 means "no message CRC" (pinned tree) or "message
                    # CRC 0x00000000" (four zero octets): both readings are accepted, the one implemented is recorded
                    ok_values.add(def_crc9_parts(data, dbsn, MASK_TABLE[mname], bytes(4)))
                reading = "-"
                try:
                    got = CRC9.calculate_from_parts(data=data, serial_number=dbsn, mask=m, crc32=c32)
                    if got not in ok_values:
                        acc.violation("crc9_front_end_mismatch", {**case, "got": got, "want": sorted(ok_values)},
                                      "CRC9.calculate_from_parts != (remainder of data||crc32||dbsn xor 1FF) xor mask")
                    elif int0:
                        reading = "int0=absent" if got == want else "int0=zero_octets"
                except Exception as e:
                    acc.violation("exception_crc9:" + exc_sig(e), case, repr(e))
                acc.case(nontrivial=True, outcome=(mname, len(data), type(c32).__name__, reading),
                         sample=case if dbsn == 17 and len(data) == 16 and c32 is None else None)
    return acc


def w_crc9_check(task):
    mname, data, dbsn, c32 = task
    acc = Acc()
    m = CrcMasks[mname]
    c32_oct = c32.to_bytes(4, "big") if isinstance(c32, int) else c32
    want = def_crc9_parts(data, dbsn, MASK_TABLE[mname], c32_oct)
    try:
        lib = CRC9.calculate_from_parts(data, dbsn, m, c32)
        if lib != want:
            acc.violation("crc9_front_end_mismatch", {"op": "crc9_parts", "data": data.hex(), "dbsn": dbsn, "mask": mname, "crc32": repr(c32), "got": lib, "want": want})
    except Exception as e:
        acc.violation("exception_crc9:" + exc_sig(e), {"data": data.hex(), "crc32": repr(c32)}, repr(e))
    for v in range(512):
        case = {"op": "crc9_check", "data": data.hex(), "dbsn": dbsn, "mask": mname, "crc32": (c32.hex() if isinstance(c32, bytes) else c32), "candidate": v}
        try:
            got = bool(CRC9.check(data=data, serial_number=dbsn, crc9=v, mask=m, crc32=c32))
            if got != (v == want):
                acc.violation("crc9_check_wrong_verdict", {**case, "want_crc": want})
        except Exception as e:
            acc.violation("exception_crc9:" + exc_sig(e), case, repr(e))
        acc.case(nontrivial=True, outcome=(v == want), sample=case if v == want else None)
    return acc


def w_crc32(task):
    datas = task
    acc = Acc()
    for data in datas:
        case = {"op": "crc32", "data": data.hex()}
        want = def_crc32(data)
        ncalls = 1
        try:
            got = CRC32.calculate(data)
            if got != want:
                acc.violation("crc32_front_end_mismatch", {**case, "got": got, "want": want},
                              "CRC32.calculate != remainder over the pair-swapped octets")
            # check(): exactly the computed value among a fixed candidate alphabet
            cands = {want, 0, 0xFFFFFFFF, (want + 1) & 0xFFFFFFFF, (want - 1) & 0xFFFFFFFF,
                     int.from_bytes(want.to_bytes(4, "big"), "little"), want ^ 0xFFFFFFFF}
            cands |= {want ^ (1 << i) for i in (0, 7, 8, 15, 16, 24, 31)}
            ncalls += len(cands)
            for v in sorted(cands):
                if bool(CRC32.check(data, v)) != (v == want):
                    acc.violation("crc32_check_wrong_verdict", {**case, "candidate": v, "want_crc": want})
        except Exception as e:
            acc.violation("exception_crc32:" + exc_sig(e), case, repr(e))
        acc.case(nontrivial=any(data), calls=ncalls, outcome=(len(data) % 2, min(len(data), 9)), sample=case if len(data) == 5 and data[0] == 0x80 else None)
    return acc


def crc8_messages():
    out = []
    seen = set()
    for pos in spaces.weight_le(28, 2):
        s = spaces.flip("0" * 28, pos)
        for x in (s, spaces.complement(s)):
            if x not in seen:
                seen.add(x)
                out.append(x)
    return out


def w_crc8(task):
    msgs = task
    acc = Acc()
    for msg in msgs:
        case = {"op": "crc8", "bits": msg}
        want = def_crc8(msg)
        try:
            got = CRC8.calculate(bitarray(msg))
            if got != want:
                acc.violation("crc8_front_end_mismatch", {**case, "got": got, "want": want}, "CRC8.calculate != remainder")
        except Exception as e:
            acc.violation("exception_crc8:" + exc_sig(e), case, repr(e))
        acc.case(nontrivial="1" in msg, outcome=want & 7, sample=case if msg.count("1") == 2 and msg[0] == "1" and msg[27] == "1" else None)
    return acc


def w_crc8_check(task):
    msg = task
    acc = Acc()
    want = def_crc8(msg)
    for v in range(256):
        case = {"op": "crc8_check", "bits": msg, "candidate": v}
        try:
            if bool(CRC8.check(bitarray(msg), v)) != (v == want):
                acc.violation("crc8_check_wrong_verdict", {**case, "want_crc": want})
        except Exception as e:
            acc.violation("exception_crc8:" + exc_sig(e), case, repr(e))
        acc.case(nontrivial=True, outcome=(v == want), sample=case if v == want else None)
    return acc


# ------------------------------------------------------------------ shared singletons
def w_singletons(task):
    name, w, pool, seqs = task
    calc = {"CRC8": CRC8, "CRC9": CRC9, "CRC16": CRC16, "CRC32": CRC32}[name].CALC
    acc = Acc()
    for seq in seqs:
        case = {"op": "singleton_sequence", "singleton": name + ".CALC", "inputs": [pool[i] for i in seq]}
        try:
            for k, i in enumerate(seq):
                got = to_int(calc.calculate_checksum(bitarray(pool[i])))
                if got != rem(pool[i], w):
                    acc.violation("singleton_result_not_remainder_of_own_input", {**case, "call": k, "got": got, "want": rem(pool[i], w)},
                                  "a calculation on the shared calculator is not the remainder of its own input (e.g. register not re-initialised between calls)")
                    break
        except Exception as e:
            acc.violation("exception_singleton:" + exc_sig(e), case, repr(e))
        acc.case(nontrivial=True, calls=len(seq), outcome=(name, seq[0]), sample=case if seq == (1, 2, 3) else None)
    return acc


def w_register_splits(task):
    """the documented register workflow: init 1x, update 1..n x, digest 1x -- for every split of the message into 2 pieces (and a
    family of 3-piece splits); the digest must be the remainder of the concatenation, in both modes"""
    w, mode, msgs = task
    acc = Acc()
    from okdmr.dmrlib.etsi.crc.crc import BitCrcRegister, TableBasedBitCrcRegister

    cls = TableBasedBitCrcRegister if mode == "table" else BitCrcRegister
    reg = cls(LIBCFG[w])
    for msg in msgs:
        want = rem(msg, w)
        n = len(msg)
        splits = [(i,) for i in range(n + 1)] + [(i, j) for i in range(0, n + 1, 3) for j in range(i, n + 1, 5)]
        for sp in splits:
            case = {"op": "register_updates", "width": w, "mode": mode, "bits": msg, "split_at": list(sp)}
            try:
                reg.init()
                pieces = []
                prev = 0
                for cut in sp + (n,):
                    pieces.append(msg[prev:cut])
                    prev = cut
                for pc in pieces:
                    reg.update(bitarray(pc))
                got = to_int(reg.digest())
                if got != want:
                    acc.violation(f"register_updates_not_remainder_of_concatenation:crc{w}:{mode}", {**case, "got": got, "want": want},
                                  "feeding a message to the register in several update() calls gives another CRC than the polynomial remainder of the whole message")
            except Exception as e:
                acc.violation("exception_register:" + exc_sig(e), case, repr(e))
            acc.case(nontrivial=True, calls=len(sp) + 3, outcome=(w, mode, len(sp)), sample=case if (len(sp) == 2 and len(acc.samples) < 1) else None)
    return acc


# ------------------------------------------------------------------ histories on the front ends (hidden caches / memo keys)
def collide_pool(tag, n):
    """bit strings that collide under careless cache keys: same zero-padded octets but different lengths, and the same string
    with the other storage order"""
    x = "1" + env.det_bits(f"c05-collide-{tag}-{n}", n - 1)
    pad = (-len(x)) % 8 or 8
    return [x, x + "0", x + "0" * pad, x[:-1] if x.endswith("0") else x + "00", "1", "10"]


def w_frontend_histories(task):
    name, seqs, pool = task
    acc = Acc()
    for seq in seqs:
        case = {"op": "front_end_history", "front_end": name, "inputs": [pool[i] for i in seq]}
        try:
            for k, i in enumerate(seq):
                bits = pool[i]
                for endian in ("big", "little"):
                    b = bitarray(bits, endian=endian)
                    if name == "CRC8.calculate":
                        got, want = CRC8.calculate(b), def_crc8(bits)
                        ok2 = CRC8.check(bitarray(bits, endian=endian), want)
                    elif name == "CRC9.calculate":
                        got, want = CRC9.calculate(b, CrcMasks.Rate34DataContinuation), def_crc9_bits(bits, MASK_TABLE["Rate34DataContinuation"])
                        ok2 = True
                    else:
                        data = bitarray(bits + "0" * ((-len(bits)) % 8)).tobytes()
                        if name == "CRC16.calculate":
                            got, want = CRC16.calculate(data, CrcMasks.CSBK), def_crc16(data, MASK_TABLE["CSBK"])
                            ok2 = CRC16.check(data, want, CrcMasks.CSBK)
                        else:
                            got, want = CRC32.calculate(data), def_crc32(data)
                            ok2 = CRC32.check(data, want)
                    if got != want or not ok2:
                        acc.violation(f"front_end_result_depends_on_earlier_calls:{name}", {**case, "call": k, "endian": endian, "got": got, "want": want, "check_accepts": bool(ok2)},
                                      "a front-end calculation in a call sequence is not the defined CRC of its own input (stale / shared state)")
                        raise StopIteration
        except StopIteration:
            pass
        except Exception as e:
            acc.violation("exception_front_end_history:" + exc_sig(e), case, repr(e))
        acc.case(nontrivial=True, calls=4 * len(seq), outcome=(name, seq[0]), sample=case if len(acc.samples) < 1 else None)
    return acc


def solve_tail(f, nbits, target):
    """find t (nbits wide) with f(t) == target for an affine-over-GF(2) f (Gaussian elimination on the 2^k basis); None if impossible"""
    f0 = f(0)
    cols = [f(1 << i) ^ f0 for i in range(nbits)]
    want = target ^ f0
    # eliminate
    rows = []  # (value, combination)
    for i, c in enumerate(cols):
        comb = 1 << i
        for v, cm in rows:
            if c ^ v < c:
                c ^= v
                comb ^= cm
        if c:
            rows.append((c, comb))
            rows.sort(reverse=True)
    t = 0
    for v, cm in rows:
        if want ^ v < want:
            want ^= v
            t ^= cm
    return t if want == 0 else None


def w_extreme_values(task):
    """messages whose defined CRC is all-zeros or all-ones: calculate must return it and check must accept exactly it"""
    acc = Acc()
    for name, mname, head, target in task:
        case = {"op": "extreme_crc_value", "front_end": name, "mask": mname, "target": hex(target)}
        try:
            if name == "CRC16":
                f = lambda t: def_crc16(head + t.to_bytes(2, "big"), MASK_TABLE[mname])  # noqa: E731
                t = solve_tail(f, 16, target)
                data = head + t.to_bytes(2, "big")
                got = CRC16.calculate(data, CrcMasks[mname])
                acc_ok = CRC16.check(data, target, CrcMasks[mname])
                rej = [v for v in (target ^ 1, target ^ 0x8000, (~target) & 0xFFFF) if CRC16.check(data, v, CrcMasks[mname])]
                case["data"] = data.hex()
            elif name == "CRC8":
                f = lambda t: def_crc8(head + format(t, "08b"))  # noqa: E731
                t = solve_tail(f, 8, target)
                bits = head + format(t, "08b")
                got = CRC8.calculate(bitarray(bits))
                acc_ok = CRC8.check(bitarray(bits), target)
                rej = [v for v in (target ^ 1, target ^ 0x80) if CRC8.check(bitarray(bits), v)]
                case["bits"] = bits
            elif name == "CRC9":
                f = lambda t: def_crc9_parts(head + t.to_bytes(2, "big"), 5, MASK_TABLE[mname], None)  # noqa: E731
                t = solve_tail(f, 16, target)
                data = head + t.to_bytes(2, "big")
                got = CRC9.calculate_from_parts(data, 5, CrcMasks[mname])
                acc_ok = CRC9.check(data, 5, target, CrcMasks[mname])
                rej = [v for v in (target ^ 1, target ^ 0x100) if CRC9.check(data, 5, v, CrcMasks[mname])]
                case["data"] = data.hex()
            else:
                f = lambda t: def_crc32(head + t.to_bytes(4, "big"))  # noqa: E731
                t = solve_tail(f, 32, target)
                data = head + t.to_bytes(4, "big")
                got = CRC32.calculate(data)
                acc_ok = CRC32.check(data, target)
                rej = [v for v in (target ^ 1, target ^ 0x80000000) if CRC32.check(data, v)]
                case["data"] = data.hex()
            if got != target:
                acc.violation(f"extreme_value_not_computed:{name}", {**case, "got": hex(got)}, "front end does not return the defined CRC for a message whose CRC is all-zeros / all-ones")
            if not acc_ok:
                acc.violation(f"extreme_value_rejected_by_check:{name}", case, "check() rejects the defined CRC when it is all-zeros / all-ones")
            if rej:
                acc.violation(f"check_accepts_neighbour_of_extreme_value:{name}", {**case, "accepted": [hex(v) for v in rej]})
        except Exception as e:
            acc.violation("exception_extreme_value:" + exc_sig(e), case, repr(e))
        acc.case(nontrivial=True, calls=5, outcome=(name, target == 0), sample=case if len(acc.samples) < 1 else None)
    return acc


# ------------------------------------------------------------------ detection corollaries
def w_ccitt_weight3(task):
    """96-bit PDU = 80 data bits || 16-bit check field; all error patterns of the given first position"""
    data, mname, firsts = task
    acc = Acc()
    m = CrcMasks[mname]
    crc = def_crc16(data, MASK_TABLE[mname])
    pdu = int.from_bytes(data, "big") << 16 | crc
    for a in firsts:
        pats = [(a,)] + [(a, b) for b in range(a + 1, 96)] + [(a, b, c) for b in range(a + 1, 96) for c in range(b + 1, 96)]
        for pos in pats:
            e = 0
            for p in pos:
                e |= 1 << (95 - p)
            x = pdu ^ e
            d2, c2 = (x >> 16).to_bytes(10, "big"), x & 0xFFFF
            case = {"op": "crc16_check", "data": d2.hex(), "mask": mname, "candidate": c2, "flipped_pdu_bits": list(pos)}
            try:
                if gf2.pmod(e, G[16]) == 0:
                    acc.violation("ORACLE_ERROR_undetectable_pattern", case, "checker bug: reference says this <=3-bit pattern is a multiple of G")
                elif CRC16.check(d2, c2, m):
                    acc.violation(f"ccitt_{len(pos)}_bit_error_accepted", case, "a 96-bit PDU with 1..3 inverted bits passes CRC16.check")
            except Exception as e2:
                acc.violation("exception_crc16:" + exc_sig(e2), case, repr(e2))
            acc.case(nontrivial=True, outcome=len(pos), sample=case if pos == (3, 50, 95) else None)
    return acc


def burst_count(n, w):
    return sum(1 << min(w - 1, n - s - 1) for s in range(n))


def w_bursts(task):
    """messages that differ by a burst of length <= blen get different CRCs (through the real front end)"""
    kind, base, blen, starts = task
    n = len(base)
    acc = Acc()
    b_int = int(base, 2)

    def crc_of(v):
        s = format(v, f"0{n}b")
        if kind == "crc8":
            return CRC8.calculate(bitarray(s))
        if kind == "crc9":
            return CRC9.calculate(bitarray(s), CrcMasks.Rate12DataContinuation)
        if kind == "crc16":
            return CRC16.calculate(v.to_bytes(n // 8, "big"), CrcMasks.CSBK)
        if kind == "crc32":
            return CRC32.calculate(v.to_bytes(n // 8, "big"))
        if kind == "crc7":
            return to_int(engines()[(7, "table")].calculate_checksum(bitarray(s)))
        raise KeyError(kind)

    try:
        ref = crc_of(b_int)
    except Exception as e:
        acc.violation("exception_burst_base:" + exc_sig(e), {"op": "burst", "front_end": kind, "base": base}, repr(e))
        ref = None
    for s0 in starts:
        span = min(blen - 1, n - s0 - 1)
        for mask in range(1 << span):
            e = 1 << (n - 1 - s0)
            for j in range(span):
                if (mask >> j) & 1:
                    e |= 1 << (n - 2 - s0 - j)
            case = {"op": "burst", "front_end": kind, "base": base, "error": format(e, f"0{n}b")}
            try:
                if ref is not None and crc_of(b_int ^ e) == ref:
                    acc.violation(f"burst_not_reflected_in_crc:{kind}", case,
                                  "two equal-length messages differing by a burst no longer than the CRC width get the same CRC")
            except Exception as e2:
                acc.violation("exception_burst:" + exc_sig(e2), case, repr(e2))
            acc.case(nontrivial=True, outcome=(kind, span), sample=case if (s0 == 3 and mask == 5) else None)
    return acc


def run(only=None):
    rep = Report("C05")
    _anchor()
    thorough = rep.thorough()
    nw = env.workers()
    engines()
    rep.explanation = (
        "Complete enumeration on the real CRC engines and front ends. state = one enumerated (engine, mode, storage "
        "endianness, message) or (front end, arguments) case; transition = one real library call; every case is an "
        "implementation execution compared with integer-polynomial long division."
    )
    rep.assumptions = [
        "definition transcribed in the header of checks/c05_crc.py from ETSI TS 102 361-1 B.3.7-B.3.10, B.3.12 as cited by the "
        "library docstrings; anchored on 10 captured on-air vectors quoted in okdmr/tests",
        "a bit string is the index-order content of a bitarray; storage endianness is not part of it (bitarray '==' ignores it)",
        "CRC-32 of an odd number of octets (never on air): the unpaired last octet is not swapped",
        "calculate_from_parts: crc32=0 (int) may mean 'no message CRC in this block' (pinned tree) or four zero octets; the "
        "statement does not say, both are accepted (in-band sentinel, owned by C04)",
        "CPython, bitarray behave as documented; asserts enabled",
    ]

    def want(n):
        return only is None or n in only

    # --- B.3.12 mask values
    s = rep.sub("mask_values", "the 11 data-type CRC masks of B.3.12: member exists and has the transcribed value")
    s.declared = len(MASK_TABLE)
    for name, val in MASK_TABLE.items():
        try:
            got = CrcMasks[name].value
            if got != val:
                s.violation("mask_value:" + name, {"mask": name, "got": got, "want": val}, "CRC mask differs from B.3.12")
        except KeyError:
            s.violation("mask_missing:" + name, {"mask": name})
        s.case(nontrivial=True, calls=1, outcome=name, sample={"mask": name, "value": val} if name == "CSBK" else None)
    s.done()

    # --- engines
    full = 400 if thorough else 128
    lengths = list(range(full + 1))
    if not thorough:
        # boundary lengths: multiples of the feed widths 7/8/9 and their neighbours near the PDU sizes, up to 400
        extra = {135, 136, 144, 183, 184, 192, 196, 216, 252, 255, 256, 257, 264, 288, 391, 392, 393, 396, 399, 400}
        lengths += sorted(x for x in extra if x > full)
    L_all = 16 if thorough else 12
    L_w2 = 64 if thorough else 40
    desc_len = (f"every length 0..{full}" + ("" if thorough else f" and {len(lengths) - full - 1} boundary lengths up to 400")
                + " x {0.., 1.., all unit vectors, 1010.., seed fill}")
    if want("engines_every_length"):
        s = rep.sub("engines_every_length",
                    "5 widths x {bitwise, table} x " + desc_len + " (big-endian storage); non-trivial: message with at least one 1 bit")
        tasks, cnt = engine_tasks("lengths", lengths, ("big",))
        s.declared = cnt * len(WIDTHS) * 2
        for acc in par.pmap(w_engine, tasks, nw):
            s.merge(acc)
        s.extra["lengths"] = len(lengths)
        s.extra["partial_feed_lengths"] = {str(w): sum(1 for n in lengths if n % FEED[w]) for w in WIDTHS}
        s.done()
    if want("engines_all_short_strings"):
        s = rep.sub("engines_all_short_strings",
                    f"all 2^n bit strings of every length n = 0..{L_all} x 5 widths x 2 modes (big-endian storage)")
        tasks, cnt = engine_tasks("all", L_all, ("big",))
        s.declared = cnt * len(WIDTHS) * 2
        for acc in par.pmap(w_engine, tasks, nw):
            s.merge(acc)
        s.done()
    if want("engines_weight2"):
        s = rep.sub("engines_weight2",
                    f"all weight-2 strings of every length 2..{L_w2} x 5 widths x 2 modes (with the unit vectors: additivity on "
                    "all basis pairs, against a linear reference)")
        tasks, cnt = engine_tasks("weight2", L_w2, ("big",))
        s.declared = cnt * len(WIDTHS) * 2
        for acc in par.pmap(w_engine, tasks, nw):
            s.merge(acc)
        s.done()
    if want("engines_little_endian_storage"):
        s = rep.sub("engines_little_endian_storage",
                    "the same three message spaces (" + desc_len + f"; all strings of length 0..{L_all}; all weight-2 strings of "
                    f"length 2..{L_w2}) supplied as bitarray(endian='little'): same bit string in index order, 5 widths x 2 modes")
        tasks = []
        cnt = 0
        for kind, prm in (("lengths", lengths), ("all", L_all), ("weight2", L_w2)):
            t, c = engine_tasks(kind, prm, ("little",))
            tasks += t
            cnt += c
        s.declared = cnt * len(WIDTHS) * 2
        for acc in par.pmap(w_engine, tasks, nw):
            s.merge(acc)
        s.done()

    # --- verify_checksum
    if want("verify_accepts_exactly"):
        s = rep.sub("verify_accepts_exactly",
                    "verify_checksum(msg, v): w = 7, 8, 9: all 2^w values x 2 modes x 3 messages; w = 16: all 2^16 values x table "
                    "mode x 2 messages; w = 32: {crc, crc^2^i (32), 0, ffffffff, crc+-1} x 2 modes x 2 messages")
        tasks = []
        decl = 0
        for w in (7, 8, 9):
            for mode in MODES:
                for k, n in enumerate((w + 3, 36, 87)):
                    msg = "1" + env.det_bits(f"c05-verify-{w}-{k}", n - 1)
                    tasks.append((w, mode, msg, list(range(1 << w))))
                    decl += 1 << w
        for k in range(2):
            msg = "1" + env.det_bits(f"c05-verify-16-{k}", 79)
            for lo, hi in par.chunks(1 << 16, 16):
                tasks.append((16, "table", msg, list(range(lo, hi))))
            decl += 1 << 16
        for mode in MODES:
            for k in range(2):
                msg = "1" + env.det_bits(f"c05-verify-32-{k}", 95)
                c = rem(msg, 32)
                cands = sorted({c, 0, 0xFFFFFFFF, (c + 1) & 0xFFFFFFFF, (c - 1) & 0xFFFFFFFF} | {c ^ (1 << i) for i in range(32)})
                tasks.append((32, mode, msg, cands))
                decl += len(cands)
        s.declared = decl
        for acc in par.pmap(w_verify, tasks, nw):
            s.merge(acc)
        s.done()

    # --- shared singletons
    if want("singleton_call_sequences"):
        s = rep.sub("singleton_call_sequences",
                    "CRC8/9/16/32.CALC: all 5^3 ordered sequences of three calls over a pool of 5 inputs (lengths 0, 5, w, "
                    "3*feed+2, 96): each result is the remainder of its own input")
        tasks = []
        for name, w in (("CRC8", 8), ("CRC9", 9), ("CRC16", 16), ("CRC32", 32)):
            pool = [""]
            for n in (5, w, 3 * FEED[w] + 2, 96):
                pool.append("1" + env.det_bits(f"c05-single-{name}-{n}", n - 1))
            seqs = list(itertools.product(range(5), repeat=3))
            for ch in par.split_list(seqs, 5):
                tasks.append((name, w, pool, ch))
        s.declared = 4 * 125
        for acc in par.pmap(w_singletons, tasks, nw):
            s.merge(acc)
        s.done()

    if want("register_split_updates"):
        s = rep.sub("register_split_updates",
                    "5 widths x bitwise/table registers used as documented (init, update..., digest): every 2-piece split and a grid of 3-piece splits of "
                    "messages of lengths {0, 1, w-1, w, feed+1, 2*feed+3, 28, 39, 87}; digest == remainder of the whole message")
        tasks = []
        decl = 0
        for w in WIDTHS:
            lens = sorted({0, 1, w - 1, w, FEED[w] + 1, 2 * FEED[w] + 3, 28, 39, 87})
            msgs = [("1" + env.det_bits(f"c05-split-{w}-{n}", n - 1)) if n else "" for n in lens]
            for mode in MODES:
                for mm in msgs:
                    tasks.append((w, mode, [mm]))
                    n = len(mm)
                    decl += (n + 1) + len([(i, j) for i in range(0, n + 1, 3) for j in range(i, n + 1, 5)])
        s.declared = decl
        for acc in par.pmap(w_register_splits, tasks, nw):
            s.merge(acc)
        s.done()

    if want("front_end_call_histories"):
        s = rep.sub("front_end_call_histories",
                    "CRC8 / CRC9 / CRC16 / CRC32 front ends: all 6^3 ordered sequences of three calls over a pool of inputs that share "
                    "zero-padded octets but differ in length (x, x0, x0.., shortened, '1', '10'), each as big- and little-endian bitarray: "
                    "every call returns the defined CRC of its own input and check() accepts it")
        tasks = []
        for name, n in (("CRC8.calculate", 28), ("CRC9.calculate", 87), ("CRC16.calculate", 75), ("CRC32.calculate", 131)):
            pool = collide_pool(name, n)
            seqs = list(itertools.product(range(len(pool)), repeat=3))
            for ch in par.split_list(seqs, 8):
                tasks.append((name, ch, pool))
        s.declared = 4 * 216
        for acc in par.pmap(w_frontend_histories, tasks, nw):
            s.merge(acc)
        s.done()


    if want("front_end_histories_with_failing_calls"):
        from mc import hist

        class _LateSlices:
            """a bit container whose slices beyond the first octet cannot be read"""

            def __init__(self, b):
                self.b = b

            def __len__(self):
                return len(self.b)

            def __getitem__(self, i):
                if isinstance(i, slice) and (i.start or 0) >= 8:
                    raise ValueError("late")
                return self.b[i]

            def bytereverse(self):
                return None

        s = rep.sub("front_end_histories_with_failing_calls",
                    "every front end and every engine (5 widths x bitwise/table) x 9 arguments that make the call fail, early or in the middle "
                    "of the message (non-bit element in a later octet, slice that cannot be read, wrong container, None, out-of-range "
                    "octet), followed by all front ends and engines on valid input: each returns the defined CRC of its own input")
        late_bits = [0, 1, 1, 0, 1, 0, 0, 1, 1, 1, 0, 0, 2, 0, 1, 1, 0, 0, 0, 1, 1, 1, 0, 1, 1, 0, 1, 0]
        pb = {n: "1" + env.det_bits(f"c05-fail-{n}", n - 1) for n in (28, 87, 80, 136, 61)}
        d16, d32 = bitarray(pb[80]).tobytes(), bitarray(pb[136]).tobytes()
        probes = [
            ("CRC8.calculate", lambda: (CRC8.calculate(bitarray(pb[28])), CRC8.check(bitarray(pb[28]), def_crc8(pb[28])))),
            ("CRC9.calculate", lambda: CRC9.calculate(bitarray(pb[87]), CrcMasks.Rate34DataContinuation)),
            ("CRC16.calculate", lambda: (CRC16.calculate(d16, CrcMasks.CSBK), CRC16.check(d16, def_crc16(d16, MASK_TABLE["CSBK"]), CrcMasks.CSBK))),
            ("CRC32.calculate", lambda: (CRC32.calculate(d32), CRC32.check(d32, def_crc32(d32)))),
        ]
        want_probe = {"CRC8.calculate": (def_crc8(pb[28]), True), "CRC9.calculate": def_crc9_bits(pb[87], MASK_TABLE["Rate34DataContinuation"]),
                      "CRC16.calculate": (def_crc16(d16, MASK_TABLE["CSBK"]), True), "CRC32.calculate": (def_crc32(d32), True)}
        for lab, th in probes:
            if th() != want_probe[lab]:
                s.violation(f"front_end_not_the_defined_crc:{lab}", {"front_end": lab})
        eng = []
        for w_ in WIDTHS:
          for mode in MODES:
            cfg = LIBCFG[w_]
            tb = mode == "table"
            eng.append((f"engine_crc{w_}_{mode}", cfg, tb))
            probes.append((f"engine_crc{w_}_{mode}", lambda cfg=cfg, tb=tb: BitCrcCalculator(cfg, table_based=tb).calculate_checksum(bitarray(pb[61])).to01()))
        funcs = {
            "CRC8.calculate": CRC8.calculate, "CRC8.check": lambda a: CRC8.check(a, 0x55),
            "CRC9.calculate": lambda a: CRC9.calculate(a, CrcMasks.Rate34DataContinuation),
            "CRC9.calculate_from_parts": lambda a: CRC9.calculate_from_parts(a, 3, CrcMasks.Rate12DataContinuation),
            "CRC16.calculate": lambda a: CRC16.calculate(a, CrcMasks.CSBK), "CRC32.calculate": CRC32.calculate,
        }
        for lab, cfg, tb in eng:
            funcs[lab] = lambda a, cfg=cfg, tb=tb: BitCrcCalculator(cfg, table_based=tb).calculate_checksum(a)
        bad_args = [
            ("late_non_bit_element", lambda: list(late_bits)), ("late_non_bit_element_x3", lambda: list(late_bits) * 3),
            ("late_unreadable_slice_28", lambda: _LateSlices(bitarray(pb[28]))), ("late_unreadable_slice_87", lambda: _LateSlices(bitarray(pb[87]))),
            ("late_bad_octet", lambda: [1, 2, 3, 4, 5, 6, 7, 8, 300, 10]), ("none", lambda: None), ("bytes_for_bits", lambda: b"\x01\x02\x03"),
            ("str", lambda: "0101"), ("int", lambda: 5),
        ]
        hist.poisoned_histories(s, funcs, bad_args, probes)
        s.done()

    if want("kept_results"):
        from mc import hist as _h
        s = rep.sub("kept_results", "every engine (5 widths x bitwise/table) and the shared calculators of the four front ends: calculate_checksum of 12 "
                                    "messages in a row with every returned bitarray kept by the caller: after the last call each is still the CRC of its own message")
        msgs = [("1" + env.det_bits(f"c05-kept-{i}", 40 + 7 * i)) for i in range(12)]
        for w_ in WIDTHS:
            for mode in MODES:
                calc = BitCrcCalculator(LIBCFG[w_], table_based=(mode == "table"))
                _h.kept_results(s, f"engine_crc{w_}_{mode}", [({"width": w_, "mode": mode, "message": m}, (lambda calc=calc, m=m: calc.calculate_checksum(bitarray(m)))) for m in msgs],
                                obs=lambda r: r.to01() if hasattr(r, "to01") else repr(r))
        for nm, cls_ in (("CRC8", CRC8), ("CRC9", CRC9), ("CRC16", CRC16), ("CRC32", CRC32)):
            calc = getattr(cls_, "CALC", None)
            if calc is not None and hasattr(calc, "calculate_checksum"):
                _h.kept_results(s, f"{nm}.CALC", [({"front_end": nm, "message": m}, (lambda calc=calc, m=m: calc.calculate_checksum(bitarray(m)))) for m in msgs],
                                obs=lambda r: r.to01() if hasattr(r, "to01") else repr(r))
        s.done()

    if want("callers_buffer_overwritten_in_place"):
        from mc import hist as _h
        s = rep.sub("callers_buffer_overwritten_in_place",
                    "the caller assembles every message in ONE bitarray / bytearray that it overwrites in place between calls (a field written, one to "
                    "three bits inverted, a serial number counted up, another length): every engine (5 widths x bitwise/table, also the little-endian "
                    "storage order), the shared calculators and the front ends CRC8.calculate / CRC8.check / CRC9.calculate / CRC9.calculate_from_parts / "
                    "CRC16.calculate / CRC32.calculate (bytearray) answer for the buffer's present content -- the values are the reference remainders")
        base = "1" + env.det_bits("c05-reuse", 79)
        seqs = [base]
        for pos in (9, 0, 79, 40):  # one bit, then two, three, four apart from the base: equal lengths, small distances
            seqs.append(seqs[-1][:pos] + ("1" if seqs[-1][pos] == "0" else "0") + seqs[-1][pos + 1:])
        seqs += [base[:73] + format(i, "07b") for i in range(6)]  # a 7-bit serial number counted up in the buffer
        seqs += [base[:41], base[:96 - 16], base + base[:17], base]  # other lengths, then the first content again
        ents = []
        for w_ in WIDTHS:
            for mode in MODES:
                calc = BitCrcCalculator(LIBCFG[w_], table_based=(mode == "table"))
                ents.append((f"engine_crc{w_}_{mode}", (lambda b, calc=calc: to_int(calc.calculate_checksum(b))), [bitarray(m) for m in seqs], None))
                ents.append((f"engine_crc{w_}_{mode}_little_endian_storage", (lambda b, calc=calc: to_int(calc.calculate_checksum(b))), [bitarray(m, endian="little") for m in seqs], None))
                ents.append((f"engine_crc{w_}_{mode}_verify", (lambda b, calc=calc, w_=w_: calc.verify_checksum(b, rem(seqs[0], w_))), [bitarray(m) for m in seqs], None))
        octs = [bytes(int(m[i:i + 8], 2) for i in range(0, len(m) - len(m) % 8, 8)) for m in seqs]
        ents.append(("CRC8.calculate", (lambda b: CRC8.calculate(b)), [bitarray(m) for m in seqs], [def_crc8(m) for m in seqs]))
        ents.append(("CRC8.check", (lambda b: CRC8.check(b, def_crc8(seqs[0]))), [bitarray(m) for m in seqs], [def_crc8(m) == def_crc8(seqs[0]) for m in seqs]))
        ents.append(("CRC8.CALC", (lambda b: to_int(CRC8.CALC.calculate_checksum(b))), [bitarray(m) for m in seqs], None))
        ents.append(("CRC9.CALC", (lambda b: to_int(CRC9.CALC.calculate_checksum(b))), [bitarray(m) for m in seqs], None))
        ents.append(("CRC16.CALC", (lambda b: to_int(CRC16.CALC.calculate_checksum(b))), [bitarray(m) for m in seqs], None))
        ents.append(("CRC32.CALC", (lambda b: to_int(CRC32.CALC.calculate_checksum(b))), [bitarray(m) for m in seqs], None))
        for mem in (CrcMasks.Rate12DataContinuation, CrcMasks.Rate34DataContinuation, CrcMasks.CSBK, CrcMasks.DataHeader):
            ents.append((f"CRC9.calculate[{mem.name}]", (lambda b, mem=mem: CRC9.calculate(b, mem)), [bitarray(m) for m in seqs], [def_crc9_bits(m, mem.value) for m in seqs]))
            ents.append((f"CRC9.calculate_from_parts[{mem.name}]", (lambda d, mem=mem: CRC9.calculate_from_parts(d, 5, mem)), [bytearray(o) for o in octs], [def_crc9_parts(o, 5, mem.value, None) for o in octs]))
            ents.append((f"CRC16.calculate[{mem.name}]", (lambda d, mem=mem: CRC16.calculate(d, mem)), [bytearray(o) for o in octs], [def_crc16(o, mem.value) for o in octs]))
        ents.append(("CRC32.calculate", (lambda d: CRC32.calculate(d)), [bytearray(o) for o in octs if len(o) % 2 == 0], [def_crc32(o) for o in octs if len(o) % 2 == 0]))
        _h.reused_buffer(s, "crc", ents)
        s.extra["messages_per_entry_point"] = len(seqs)
        s.done()

    if want("custom_configurations"):
        import zlib as _zlib
        import binascii as _binascii
        from okdmr.dmrlib.etsi.crc.crc import BitCrcConfiguration as _Cfg
        s = rep.sub("custom_configurations",
                    "the engine with configurations other than the five ETSI ones, against two references of the standard library: reflected "
                    "CRC-32 (input and output octets reversed, init / final xor all-ones) == zlib.crc32, CRC-16 with polynomial 0x1021 and init 0 == "
                    "binascii.crc_hqx; bitwise and table mode, all octet strings of length <= 1, weight <= 2 strings of 1..8 octets and seed strings; "
                    "the caller's bitarray is unchanged and a second call on the same bitarray gives the same CRC")
        cfgs = {
            "crc32_reflected": (_Cfg(width_bits=32, polynomial=0x04C11DB7, init_value=0xFFFFFFFF, final_xor_value=0xFFFFFFFF, reverse_input_bytes=True, reverse_output_bytes=True),
                                lambda d: _zlib.crc32(d) & 0xFFFFFFFF, 32),
            "crc16_xmodem": (_Cfg(width_bits=16, polynomial=0x1021, init_value=0), lambda d: _binascii.crc_hqx(d, 0), 16),
        }
        datas = [b""] + [bytes([v]) for v in range(256)]
        for n_ in (2, 3, 4, 8):
            for sbits in spaces.small_scope_messages(8 * n_, 2 if n_ <= 4 else 1):
                datas.append(int(sbits, 2).to_bytes(n_, "big"))
        datas += [env.det_bytes(f"c05-custom-{i}", 5 + 7 * i) for i in range(6)]
        for cname, (cfg, ref, w_) in cfgs.items():
            for mode in MODES:
                calc = BitCrcCalculator(cfg, table_based=(mode == "table"))
                for d_ in datas:
                    case = {"configuration": cname, "mode": mode, "data": d_.hex()}
                    try:
                        b_ = bitarray()
                        b_.frombytes(d_)
                        snap = b_.to01()
                        r1 = to_int(calc.calculate_checksum(b_))
                        if b_.to01() != snap:
                            s.violation(f"engine_modifies_the_callers_bitarray:{cname}", case, "the bitarray handed to calculate_checksum is different after the call")
                        r2 = to_int(calc.calculate_checksum(b_))
                        if r1 != ref(d_):
                            s.violation(f"engine_differs_from_the_standard_library_reference:{cname}:{mode}", {**case, "got": hex(r1), "want": hex(ref(d_))})
                        elif r2 != r1:
                            s.violation(f"second_call_on_the_same_bitarray_differs:{cname}:{mode}", {**case, "first": hex(r1), "second": hex(r2)})
                        if calc.verify_checksum(b_, ref(d_)) is not True or calc.verify_checksum(b_, ref(d_) ^ 1) is not False:
                            s.violation(f"verify_wrong_verdict:{cname}:{mode}", case)
                    except Exception as e:  # noqa: BLE001
                        s.violation(f"exception_custom_configuration:{cname}:" + exc_sig(e), case, repr(e))
                    s.case(nontrivial=True, calls=4, outcome=(cname, mode), sample=case if len(s.samples) < 1 else None)
        s.declared = len(cfgs) * len(MODES) * len(datas)
        s.done()

    if want("extreme_crc_values"):
        s = rep.sub("extreme_crc_values",
                    "messages constructed (GF(2) linear solve on the reference) so that the defined CRC is exactly all-zeros / all-ones: "
                    "CRC16 x the 5 sixteen-bit masks x 3 heads, CRC8, CRC9 x 3 masks, CRC32; calculate returns it, check accepts it and rejects its neighbours")
        cases = []
        for mname in MASK_TABLE:
            if mname not in ("PiHeader", "CSBK", "MBCHeader", "DataHeader", "UnifiedSingleBlockData"):
                continue  # the 16-bit masks
            for hi_, head in enumerate((bytes(8), env.det_bytes("c05-ext-16a", 8), env.det_bytes("c05-ext-16b", 12))):
                for target in (0x0000, 0xFFFF):
                    cases.append(("CRC16", mname, head, target))
        for head in ("0" * 20, "1" + env.det_bits("c05-ext-8", 19)):
            for target in (0x00, 0xFF):
                cases.append(("CRC8", "-", head, target))
        for mname in ("Rate12DataContinuation", "Rate34DataContinuation", "Rate1DataContinuation"):
            for head in (bytes(8), env.det_bytes("c05-ext-9", 14)):
                for target in (0x000, 0x1FF):
                    cases.append(("CRC9", mname, head, target))
        for head in (bytes(6), env.det_bytes("c05-ext-32", 12)):
            for target in (0x00000000, 0xFFFFFFFF):
                cases.append(("CRC32", "-", head, target))
        s.declared = len(cases)
        for acc in par.pmap(w_extreme_values, par.split_list(cases, 16), nw):
            s.merge(acc)
        s.done()

    # --- front ends
    if want("crc16_front_end"):
        datas = byte_strings(24 if thorough else 12)
        s = rep.sub("crc16_front_end",
                    f"CRC16.calculate: octet strings of length 0..{24 if thorough else 12} x {{00.., ff.., every single-bit string, "
                    "seed fill}} x all 11 masks (for the 24-bit RS masks the same formula is applied)")
        s.declared = len(datas) * len(mask_members())
        for acc in par.pmap(w_crc16, par.split_list(datas, 64), nw):
            s.merge(acc)
        s.done()
        s = rep.sub("crc16_check_all_values",
                    "CRC16.check(data, v, mask) for all 2^16 values v, 3 ten-octet messages (zero / seed / seed) under CSBK, "
                    "DataHeader, PiHeader masks: accepted iff v is the defined value")
        tasks = []
        for data, mname in ((bytes(10), "CSBK"), (env.det_bytes("c05-chk16-a", 10), "DataHeader"), (env.det_bytes("c05-chk16-b", 10), "PiHeader")):
            for lo, hi in par.chunks(1 << 16, 16):
                tasks.append((data, mname, lo, hi))
        s.declared = 3 << 16
        for acc in par.pmap(w_crc16_check, tasks, nw):
            s.merge(acc)
        s.done()

    if want("crc9_front_end"):
        s = rep.sub("crc9_front_end",
                    "CRC9.calculate_from_parts: 3 rate masks x all 128 serial numbers x data lengths {6,10,12,16,18,22} x "
                    "{zero, seed, single-bit-first, single-bit-last} data x crc32 in {None, 0, 4 zero octets, 4 seed octets, "
                    "int 1, seed int}")
        datas = []
        for n in CRC9_DATA_LENGTHS:
            datas += [bytes(n), env.det_bytes(f"c05-crc9-{n}", n), b"\x80" + bytes(n - 1), bytes(n - 1) + b"\x01"]
        tasks = [(mn, list(range(lo, hi)), datas) for mn in CRC9_MASKS for lo, hi in par.chunks(128, 32)]
        s.declared = 3 * 128 * len(datas) * len(crc32_alphabet())
        for acc in par.pmap(w_crc9_parts, tasks, nw):
            s.merge(acc)
        s.done()
        s = rep.sub("crc9_check_all_values",
                    "CRC9.check for all 512 values: 3 masks x 4 (data, dbsn, crc32) settings: accepted iff v is the defined value")
        tasks = []
        for mn in CRC9_MASKS:
            tasks.append((mn, bytes(10), 0, None))
            tasks.append((mn, env.det_bytes("c05-c9c-a", 16), 127, None))
            tasks.append((mn, env.det_bytes("c05-c9c-b", 12), 5, env.det_bytes("c05-c9c-c", 4)))
            tasks.append((mn, env.det_bytes("c05-c9c-d", 22), 64, None))
            # the message CRC-32 given as an int stands for its 4 octets big-endian (as calculate_from_parts and the PDU classes use it)
            tasks.append((mn, env.det_bytes("c05-c9c-e", 6), 9, 0x12345678))
            tasks.append((mn, env.det_bytes("c05-c9c-f", 18), 100, 0x000000FE))
        s.declared = len(tasks) * 512
        for acc in par.pmap(w_crc9_check, tasks, nw):
            s.merge(acc)
        s.done()

    if want("crc32_front_end"):
        L = 96 if thorough else 40
        datas = byte_strings(L)
        # the longest messages a transmission carries (and the octet counts around 2^8 and 2^16 / 2^15 word and octet indices)
        for n_ in (255, 256, 257, 258, 300, 511, 512, 513, 1500, 1501, 2750, 2751):
            for fill in (bytes(n_), b"\xff" * n_, env.det_bytes(f"c05-crc32-long-{n_}", n_), bytes(n_ - 1) + b"\x01", b"\x80" + bytes(n_ - 1),
                         bytes(256) + b"\x01" + bytes(n_ - 257) if n_ > 257 else bytes(n_)):
                if fill not in datas:
                    datas.append(fill)
        s = rep.sub("crc32_front_end",
                    f"CRC32.calculate / check: octet strings of every length 0..{L} (odd lengths included) and of 255..2751 octets (12 lengths) x {{00.., ff.., every "
                    "single-bit string, seed fill}}; check() over a fixed candidate alphabet per message (crc, 0, ffffffff, crc+-1, byte-swapped, inverted, 7 single-bit neighbours)")
        s.declared = len(datas)
        for acc in par.pmap(w_crc32, par.split_list(list(reversed(datas)), 128), nw):
            s.merge(acc)
        s.done()

    if want("crc8_front_end"):
        msgs = crc8_messages()
        s = rep.sub("crc8_front_end", "CRC8.calculate: all 28-bit strings of weight <= 2 and their complements; "
                                      "CRC8.check: all 256 values for 3 messages")
        s.declared = len(msgs) + 3 * 256
        for acc in par.pmap(w_crc8, par.split_list(msgs, 32), nw):
            s.merge(acc)
        for acc in par.pmap(w_crc8_check, ["0" * 28, "1" + env.det_bits("c05-crc8-a", 27), env.det_bits("c05-crc8-b", 27) + "1"], nw):
            s.merge(acc)
        s.done()

    # --- consequences
    if want("ccitt_96bit_pdu_1_to_3_bit_errors"):
        bases = [(env.det_bytes("c05-w3-a", 10), "CSBK")]
        if thorough:
            bases += [(bytes(10), "DataHeader"), (env.det_bytes("c05-w3-b", 10), "PiHeader")]
        s = rep.sub("ccitt_96bit_pdu_1_to_3_bit_errors",
                    f"{len(bases)} PDU(s) of 80 data + 16 check bits x all C(96,1)+C(96,2)+C(96,3) = 147 536 error patterns over all "
                    "96 bits: CRC16.check must reject")
        s.declared = len(bases) * 147536
        tasks = [(d, mn, [a]) for d, mn in bases for a in range(96)]
        for acc in par.pmap(w_ccitt_weight3, tasks, nw):
            s.merge(acc)
        s.done()

    if want("bursts_within_crc_width"):
        plan = [  # front end, message length, maximum burst length enumerated
            ("crc7", 32, 7),
            ("crc8", 28, 8),
            ("crc9", 87, 9),
            ("crc16", 24, 16),
            ("crc16", 80, 16 if thorough else 12),
            ("crc32", 96, 16 if thorough else 12),
        ]
        if thorough:
            plan += [("crc9", 135, 9), ("crc9", 183, 9)]
        s = rep.sub("bursts_within_crc_width",
                    "per front end one seed message; every burst (first and last flipped bit < L apart, all interiors, all start "
                    "positions) with L = CRC width (bounds: CRC-32 L = " + ("16" if thorough else "12")
                    + ("" if thorough else "; CCITT on the 80-bit message L = 12, complete L = 16 on a 24-bit message") + "): CRC must change. "
                    "lengths: " + ", ".join(f"{k}:{n}b" for k, n, _ in plan))
        tasks = []
        decl = 0
        for kind, n, blen in plan:
            base = env.det_bits(f"c05-burst-{kind}-{n}", n)
            decl += burst_count(n, blen)
            for s0 in range(n):
                tasks.append((kind, base, blen, [s0]))
        s.declared = decl
        for acc in par.pmap(w_bursts, tasks, nw):
            s.merge(acc)
        s.done()

    rep.bounds = {
        "engine_lengths": "every length 0..400 (thorough) / 0..128 + 20 boundary lengths up to 400 (quick), unit-vector basis + fills",
        "engine_exhaustive": "all strings up to length " + ("16" if thorough else "12"),
        "front_end_octet_strings": "structured (zero, ones, single-bit, seed) per length, not all values",
        "crc32_bursts": "bursts up to " + ("16" if thorough else "12") + " bits (2^31 interiors per position for 32 are not enumerable)",
        "crc32_check": "candidate alphabet, not all 2^32 values",
    }
    return rep.finish()


def replay(doc):
    bad = 0
    for c in doc.get("cases", []):
        op = c.get("op")
        try:
            if op == "engine":
                w = c["width"]
                got = to_int(engines()[(w, c["mode"])].calculate_checksum(bitarray(c["bits"], endian=c["endian"])))
                print(f"crc{w} {c['mode']} endian={c['endian']} bits={c['bits']}: got {got}, remainder {rem(c['bits'], w)}")
                bad |= got != rem(c["bits"], w)
            elif op == "crc16":
                d = bytes.fromhex(c["data"])
                got, wnt = CRC16.calculate(d, CrcMasks[c["mask"]]), def_crc16(d, MASK_TABLE[c["mask"]])
                print(f"CRC16.calculate({d.hex()},{c['mask']}) = {got}, defined {wnt}")
                bad |= got != wnt
            elif op == "crc16_check":
                d = bytes.fromhex(c["data"])
                got, wnt = bool(CRC16.check(d, c["candidate"], CrcMasks[c["mask"]])), def_crc16(d, MASK_TABLE[c["mask"]]) == c["candidate"]
                print(f"CRC16.check({d.hex()},{c['candidate']},{c['mask']}) = {got}, defined {wnt}")
                bad |= got != wnt
            elif op == "crc9_parts":
                d = bytes.fromhex(c["data"])
                c32 = bytes.fromhex(c["crc32"]) if isinstance(c["crc32"], str) else c["crc32"]
                got = CRC9.calculate_from_parts(data=d, serial_number=c["dbsn"], mask=CrcMasks[c["mask"]], crc32=c32)
                wnt = def_crc9_parts(d, c["dbsn"], MASK_TABLE[c["mask"]], c32)
                print(f"CRC9.calculate_from_parts({d.hex()},{c['dbsn']},{c['mask']},{c['crc32']}) = {got}, defined {wnt}")
                bad |= got != wnt
            elif op == "crc32":
                d = bytes.fromhex(c["data"])
                print(f"CRC32.calculate({d.hex()}) = {CRC32.calculate(d)}, defined {def_crc32(d)}")
                bad |= CRC32.calculate(d) != def_crc32(d)
            elif op == "crc8":
                got = CRC8.calculate(bitarray(c["bits"]))
                print(f"CRC8.calculate({c['bits']}) = {got}, defined {def_crc8(c['bits'])}")
                bad |= got != def_crc8(c["bits"])
            else:
                print("no replay recipe for", c)
        except Exception as e:
            print("exception", repr(e), "on", c)
            bad = 1
    return 1 if bad else 0

"""C03 -- layer-2/3 PDUs and information elements survive encode-decode with every field;
element enumerations are total over their bit width.

Technique: complete enumeration of explicitly bounded spaces on the real code (E1).
  1. elements_all_values : all 2^w values of every w-bit element (w <= 8), sync patterns + all 1-bit neighbours
  2. *_fields            : per PDU kind, fields -> bits -> fields over one-at-a-time + all-pairs products of
                           per-field alphabets (full product when small); the expected bit string is produced
                           by the harness's own transcription of the ETSI layout (LAYOUT tables below)
  3. gps_codes           : GPS Info raw codes (quick: structured subset, thorough: all 2^25 + 2^24)
  4. arbitrary_bits      : right-length bit strings -> documented error or decode/encode fixed point
CRC *values* are C04's business: check-field positions are masked out of the layout comparison.
"""
from mc import env  # noqa: F401  (must be first)
from mc import par, spaces
from mc.hist import observe
from mc.report import Report, Acc, exc_sig

import itertools

from bitarray import bitarray
from bitarray.util import int2ba, ba2int

from okdmr.dmrlib.etsi.layer2.pdu.csbk import CSBK
from okdmr.dmrlib.etsi.layer2.pdu.data_header import DataHeader
from okdmr.dmrlib.etsi.layer2.pdu.full_link_control import FullLinkControl
from okdmr.dmrlib.etsi.layer2.pdu.short_link_control import ShortLinkControl
from okdmr.dmrlib.etsi.layer2.pdu.pi_header import PIHeader
from okdmr.dmrlib.etsi.layer2.pdu.rate12_data import Rate12Data, Rate12DataTypes
from okdmr.dmrlib.etsi.layer2.pdu.rate34_data import Rate34Data, Rate34DataTypes
from okdmr.dmrlib.etsi.layer2.pdu.rate1_data import Rate1Data, Rate1DataTypes
from okdmr.dmrlib.etsi.layer3.pdu.udp_ipv4_compressed_header import UDPIPv4CompressedHeader

from okdmr.dmrlib.etsi.layer2.elements.access_types import AccessTypes
from okdmr.dmrlib.etsi.layer2.elements.csbk_opcodes import CsbkOpcodes
from okdmr.dmrlib.etsi.layer2.elements.data_packet_formats import DataPacketFormats
from okdmr.dmrlib.etsi.layer2.elements.data_types import DataTypes
from okdmr.dmrlib.etsi.layer2.elements.defined_data_formats import DefinedDataFormats
from okdmr.dmrlib.etsi.layer2.elements.feature_set_ids import FeatureSetIDs
from okdmr.dmrlib.etsi.layer2.elements.flcos import FLCOs
from okdmr.dmrlib.etsi.layer2.elements.fragment_sequence_number import FragmentSequenceNumber
from okdmr.dmrlib.etsi.layer2.elements.full_message_flag import FullMessageFlag
from okdmr.dmrlib.etsi.layer2.elements.lcss import LCSS
from okdmr.dmrlib.etsi.layer2.elements.preemption_power_indicator import PreemptionPowerIndicator
from okdmr.dmrlib.etsi.layer2.elements.resynchronize_flag import ResynchronizeFlag
from okdmr.dmrlib.etsi.layer2.elements.sap_identifier import SAPIdentifier
from okdmr.dmrlib.etsi.layer2.elements.sarq import SARQ
from okdmr.dmrlib.etsi.layer2.elements.slcos import SLCOs
from okdmr.dmrlib.etsi.layer2.elements.supplementary_flag import SupplementaryFlag
from okdmr.dmrlib.etsi.layer2.elements.sync_patterns import SyncPatterns
from okdmr.dmrlib.etsi.layer2.elements.udt_format import UDTFormat
from okdmr.dmrlib.etsi.layer3.elements.activity_id import ActivityID
from okdmr.dmrlib.etsi.layer3.elements.additional_information_field import AdditionalInformationField
from okdmr.dmrlib.etsi.layer3.elements.announcement_type import AnnouncementType
from okdmr.dmrlib.etsi.layer3.elements.answer_response import AnswerResponse
from okdmr.dmrlib.etsi.layer3.elements.channel_timing_opcode import ChannelTimingOpcode
from okdmr.dmrlib.etsi.layer3.elements.dynamic_identifier import DynamicIdentifier
from okdmr.dmrlib.etsi.layer3.elements.ip_address_identifier import IPAddressIdentifier
from okdmr.dmrlib.etsi.layer3.elements.position_error import PositionError
from okdmr.dmrlib.etsi.layer3.elements.random_access_service_function import RandomAccessServiceFunction
from okdmr.dmrlib.etsi.layer3.elements.reason_code import ReasonCode
from okdmr.dmrlib.etsi.layer3.elements.service_options import ServiceOptions
from okdmr.dmrlib.etsi.layer3.elements.source_type import SourceType
from okdmr.dmrlib.etsi.layer3.elements.talker_alias_data_format import TalkerAliasDataFormat
from okdmr.dmrlib.etsi.layer3.elements.udp_port_identifier import UDPPortIdentifier
from okdmr.dmrlib.etsi.layer3.elements.udt_option_flag import UDTOptionFlag

# the documented "undefined / not implemented" family
DOC_ERRORS = (ValueError, KeyError, AssertionError, NotImplementedError)


def ba(s: str) -> bitarray:
    return bitarray(s)


def bits_of(v: int, n: int) -> str:
    return format(v, f"0{n}b") if n else ""


# =====================================================================================
# Harness-side transcription of the PDU layouts (ETSI TS 102 361-1 clause 9, -2 clause 7,
# -3 clause 7.2.4, -4 clause 7.1.1).  Segment kinds:
#   ("c", width, value)          constant / reserved bits
#   ("f", field, width, shift)   bits [shift+width-1 .. shift] of the raw field code
#   ("crc", width)               check field (value owned by C04, masked here)
# =====================================================================================
def F(name, width, shift=0):
    return ("f", name, width, shift)


def C(width, value=0):
    return ("c", width, value)


def K(width):
    return ("crc", width)


class Kind:
    def __init__(self, family, name, layout, build, read, parse, alpha=None, typed=None):
        self.family = family
        self.name = name
        self.layout = layout
        self.build = build
        self.read = read
        self.parse = parse
        self.alt_builds = []  # other documented argument types for the same field values: must serialise to the same bits
        self.length = sum(seg[1] if seg[0] != "f" else seg[2] for seg in layout)
        self.widths = {}
        for seg in layout:
            if seg[0] == "f":
                self.widths[seg[1]] = max(self.widths.get(seg[1], 0), seg[2] + seg[3])
        self.fields = list(self.widths)
        self.alpha = {}
        for f in self.fields:
            if alpha and f in alpha:
                self.alpha[f] = list(alpha[f])
            else:
                self.alpha[f] = wide_alphabet(self.widths[f])
        # positions covered by a check field and, per bit position, the owning field (for signatures)
        self.crc_mask = []
        self.owner = []
        for seg in layout:
            if seg[0] == "crc":
                self.crc_mask += [True] * seg[1]
                self.owner += ["<crc>"] * seg[1]
            elif seg[0] == "c":
                self.crc_mask += [False] * seg[1]
                self.owner += ["<reserved>"] * seg[1]
            else:
                self.crc_mask += [False] * seg[2]
                self.owner += [seg[1]] * seg[2]

    def expected_bits(self, vals) -> str:
        out = []
        for seg in self.layout:
            if seg[0] == "c":
                out.append(bits_of(seg[2], seg[1]))
            elif seg[0] == "crc":
                out.append("x" * seg[1])
            else:
                _, name, width, shift = seg
                out.append(bits_of((vals[name] >> shift) & ((1 << width) - 1), width))
        return "".join(out)


def wide_alphabet(width):
    """every value for width <= 8; else boundary values, 0x55/0xAA fills, walking ones and zeros"""
    if width <= 8:
        return list(range(1 << width))
    if width <= 32:
        return spaces.field_alphabet(width)
    # payload-like fields: zero, ones, fills, all unit vectors and their complements
    m = (1 << width) - 1
    vals = [0, m, int(("01" * width)[:width], 2), int(("10" * width)[:width], 2)]
    for i in range(width):
        vals.append(1 << i)
        vals.append(m ^ (1 << i))
    return list(dict.fromkeys(vals))


def pair_alphabet(alpha, width):
    """reduced alphabet used inside pair products in the quick tier"""
    if len(alpha) <= 32:
        return list(alpha)
    m = (1 << width) - 1
    want = [0, 1, m, m - 1, 1 << (width - 1), (1 << (width - 1)) - 1,
            int(("01" * width)[:width], 2), int(("10" * width)[:width], 2), 1 << (width // 2)]
    s = set(alpha)
    out = [v for v in dict.fromkeys(want) if v in s]
    if len(out) < 4:  # enum-like alphabets: take a spread of defined values
        step = max(1, len(alpha) // 8)
        out = list(dict.fromkeys(out + alpha[::step] + [alpha[-1]]))
    return out


# ---- defined values of the enumerated elements, transcribed from the ETSI clauses cited ---------
# (value -> member name).  Used as field alphabets *and* as the totality oracle (sub-check 1).
FID_DEFINED = {  # TS 102 361-1 9.3.13 + the MFID list referenced there
    0x00: "StandardizedFID", 0x01: "ReservedForFutureStandardization", 0x04: "FlydeMicroLtd", 0x05: "ProdElSpa",
    0x06: "TridentMicroSystems", 0x07: "RadiodataGmbh", 0x08: "HytScienceTech", 0x09: "AselsanElektronik",
    0x0A: "KirisunCommunications", 0x0B: "DmrAssociationLtd", 0x10: "MotorolaLtd", 0x13: "ElectronicMarketingCompany",
    0x1C: "ElectronicMarketingCompany2", 0x20: "JvcKenwood", 0x33: "RadioActivity", 0x3C: "RadioActivity2",
    0x58: "TaitElectronicsLtd", 0x68: "HytScienceTech2", 0x77: "VertexStandard", 0x80: "ReservedForFutureMFID",
}
CSBKO_DEFINED = {  # TS 102 361-2 B.1, TS 102 361-4 B.1, Hytera 0b001000
    0b001000: "HyteraIPSCSync", 0b000100: "UnitToUnitVoiceServiceRequest",
    0b000101: "UnitToUnitVoiceServiceAnswerResponse", 0b000111: "ChannelTimingCSBK",
    0b100110: "NegativeAcknowledgementResponse", 0b111000: "BSOutboundActivation", 0b111101: "PreambleCSBK",
    0b110000: "PrivateVoiceChannelGrant", 0b110001: "TalkgroupVoiceChannelGrant",
    0b110010: "PrivateBroadcastVoiceChannelGrant", 0b110011: "PrivateDataChannelGrantSingleItem",
    0b110100: "TalkgroupDataChannelGrantSingleItem", 0b110101: "DuplexPrivateVoiceChannelGrant",
    0b110110: "DuplexPrivateDataChannelGrant", 0b110111: "PrivateDataChannelGrantMultiItem",
    0b111001: "MovePDUs", 0b011001: "AlohaPDUsForRandomAccessProtocol", 0b101000: "AnnouncementPDUsWithoutResponse",
    0b101110: "Clear", 0b101111: "Protect", 0b011100: "Ahoy", 0b100000: "AcknowledgementResponseOutboundTSCC",
    0b100001: "AcknowledgementResponseInboundTSCC", 0b100010: "AcknowledgementResponseOutboundPayload",
    0b100011: "AcknowledgementResponseInboundPayload", 0b011010: "UnifiedDataTransportOutboundHeader",
    0b011011: "UnifiedDataTransportInboundHeader", 0b100100: "UnifiedDataTransportForDGNAOutboundHeader",
    0b100101: "UnifiedDataTransportForDGNAInboundHeader", 0b011111: "RandomAccessServiceRequest",
    0b011110: "AckvitationPDU", 0b101010: "Maintenance",
}
FLCO_DEFINED = {0b000000: "GroupVoiceChannelUser", 0b000011: "UnitToUnitVoiceChannelUser", 0b000100: "TalkerAliasHeader",
                0b000101: "TalkerAliasBlock1", 0b000110: "TalkerAliasBlock2", 0b000111: "TalkerAliasBlock3",
                0b001000: "GPSInfo", 0b110000: "TerminatorDataLinkControl"}
SAP_DEFINED = {0: "UDT", 2: "TCP_IP_compression", 3: "UDP_IP_compression", 4: "IP_PacketData", 5: "ARP",
               9: "Proprietary", 10: "ShortData", 15: "Reserved"}
DPF_DEFINED = {0: "UnifiedDataTransport", 1: "ResponsePacket", 2: "DataPacketUnconfirmed", 3: "DataPacketConfirmed",
               12: "Reserved", 13: "ShortDataDefined", 14: "ShortDataRawOrStatusPrecoded", 15: "ProprietaryDataPacket"}
DD_DEFINED = {**{i: n for i, n in enumerate(
    ["Binary", "BCD", "Charset7bit", "CharsetISO_8859_1", "CharsetISO_8859_2", "CharsetISO_8859_3", "CharsetISO_8859_4",
     "CharsetISO_8859_5", "CharsetISO_8859_6", "CharsetISO_8859_7", "CharsetISO_8859_8", "CharsetISO_8859_9",
     "CharsetISO_8859_10", "CharsetISO_8859_11", "CharsetISO_8859_13", "CharsetISO_8859_14", "CharsetISO_8859_15",
     "CharsetISO_8859_16", "CharsetUTF8", "CharsetUTF16", "CharsetUTF16_BE", "CharsetUTF16_LE", "CharsetUTF32",
     "CharsetUTF32_BE", "CharsetUTF32_LE"])}, 63: "Reserved"}
UDTF_DEFINED = {0: "Binary", 1: "AddressMSorTG", 2: "BCD4bit", 3: "ISO7bit", 4: "ISO8bit", 5: "LocationNMEA",
                6: "AddressIP", 7: "Unicode16bit", 8: "ManufacturerSpecific", 10: "Mixed", 15: "Reserved"}
ACTIVITY_DEFINED = {0: "NoActivity", 1: "Reserved", 2: "GroupCSBK", 3: "IndividualCSBK", 8: "GroupVoice",
                    9: "IndividualVoice", 10: "IndividualData", 11: "GroupData", 12: "EmergencyGroupVoice",
                    13: "EmergencyIndividualVoice"}
ANNOUNCEMENT_DEFINED = {0: "AnnounceOrWithdrawTSCC", 1: "SpecifyCallTimers", 2: "VoteNowAdvice", 3: "LocalTime",
                        4: "BroadcastMassRegistration", 5: "LogicalPhysicalChannelRelationship",
                        6: "AdjacentSiteInformation", 7: "GeneralSiteParams", 8: "Reserved", 0x1E: "ManufacturerSpecific"}
IPID_DEFINED = {0: "RadioNetwork", 1: "USBEthernetInterfaceNetwork", 2: "Reserved", 12: "ManufacturerSpecific"}

LON_STEP = 360 / 2 ** 25
LAT_STEP = 180 / 2 ** 24


def signed(code, width):
    return code - (1 << width) if code >> (width - 1) else code


def so_build(v):  # TS 102 361-2 7.2.1: E, privacy, 2 reserved, broadcast, OVCM, 2-bit priority
    return ServiceOptions(is_emergency=(v >> 7) & 1, is_privacy=(v >> 6) & 1,
                          reserved=ba(bits_of((v >> 4) & 3, 2)), is_broadcast=(v >> 3) & 1,
                          is_open_voice_call_mode=(v >> 2) & 1, priority_level=v & 3)


def so_read(o):
    return (int(o.is_emergency) << 7 | int(o.is_privacy) << 6 | int(o.reserved[0]) << 5 | int(o.reserved[1]) << 4
            | int(o.is_broadcast) << 3 | int(o.is_open_voice_call_mode) << 2 | o.priority_level)


def flag(x):
    return int(bool(x))


# ------------------------------------------------------------------ CSBK (96 bit) ---------------
def _csbk_kind(name, opcode, body, build_extra, read_extra, alpha=None):
    layout = [F("last_block", 1), F("protect_flag", 1), C(6, opcode), F("fid", 8)] + body + [K(16)]
    a = {"fid": list(FID_DEFINED)}
    a.update(alpha or {})

    def build(v):
        return CSBK(csbko=CsbkOpcodes(opcode), last_block=v["last_block"], protect_flag=v["protect_flag"],
                    manufacturers_feature_set_id=FeatureSetIDs(v["fid"]), **build_extra(v))

    def read(o):
        d = {"last_block": flag(o.last_block), "protect_flag": flag(o.protect_flag), "fid": o.feature_set.value}
        d.update(read_extra(o))
        return d

    return Kind("csbk", "csbk_" + name, layout, build, read, CSBK.from_bits, a)


def csbk_kinds():
    ks = []
    ks.append(_csbk_kind(
        "bs_outbound_activation", 0b111000, [C(16), F("bs_address", 24), F("source_address", 24)],
        lambda v: dict(bs_address=v["bs_address"], source_address=v["source_address"]),
        lambda o: dict(bs_address=o.bs_address, source_address=o.source_address)))
    ks.append(_csbk_kind(
        "uu_v_req", 0b000100, [F("service_options", 8), C(8), F("target_address", 24), F("source_address", 24)],
        lambda v: dict(service_options=so_build(v["service_options"]), target_address=v["target_address"],
                       source_address=v["source_address"]),
        lambda o: dict(service_options=so_read(o.service_options), target_address=o.target_address,
                       source_address=o.source_address)))
    ks.append(_csbk_kind(
        "uu_ans_rsp", 0b000101,
        [F("service_options", 8), F("answer_response", 8), F("target_address", 24), F("source_address", 24)],
        lambda v: dict(service_options=so_build(v["service_options"]), answer_response=AnswerResponse(v["answer_response"]),
                       target_address=v["target_address"], source_address=v["source_address"]),
        lambda o: dict(service_options=so_read(o.service_options), answer_response=o.answer_response.value,
                       target_address=o.target_address, source_address=o.source_address),
        {"answer_response": [0b00100000, 0b00100001]}))
    ks.append(_csbk_kind(
        "nack_rsp", 0b100110,
        [F("additional_information", 1), F("source_type", 1), F("service_type", 6), F("reason_code", 8),
         F("source_address", 24), F("target_address", 24)],
        lambda v: dict(additional_information_field=AdditionalInformationField(v["additional_information"]),
                       source_type=SourceType(v["source_type"]), service_type=CsbkOpcodes(v["service_type"]),
                       reason_code=ReasonCode(v["reason_code"]), source_address=v["source_address"],
                       target_address=v["target_address"]),
        lambda o: dict(additional_information=o.additional_information_field.value, source_type=o.source_type.value,
                       service_type=o.service_type.value, reason_code=o.reason_code.value,
                       source_address=o.source_address, target_address=o.target_address),
        {"service_type": sorted(CSBKO_DEFINED), "reason_code": [0b00100001]}))
    # Pre_CSBK: bit 16 = 0 -> CSBK content follows, bit 17 = 0 -> target is an individual (TS 102 361-2 7.1.2.4/7.2.7/7.2.8)
    ks.append(_csbk_kind(
        "preamble", 0b111101,
        [F("data_follows", 1), F("target_is_group", 1), C(6), F("blocks_to_follow", 8), F("target_address", 24),
         F("source_address", 24)],
        lambda v: dict(csbk_content_follows_preambles=not v["data_follows"],
                       target_address_is_individual=not v["target_is_group"], blocks_to_follow=v["blocks_to_follow"],
                       target_address=v["target_address"], source_address=v["source_address"]),
        lambda o: dict(data_follows=flag(not o.csbk_content_follows_preambles),
                       target_is_group=flag(not o.target_address_is_individual), blocks_to_follow=o.blocks_to_follow,
                       target_address=o.target_address, source_address=o.source_address)))
    ks.append(_csbk_kind(
        "channel_timing", 0b000111,
        [F("sync_age", 11), F("generation", 5), F("leader_identifier", 20), F("new_leader", 1),
         F("leader_dynamic_identifier", 2), F("channel_timing_opcode", 1, 1), F("source_identifier", 20), C(1),
         F("source_dynamic_identifier", 2), F("channel_timing_opcode", 1, 0)],
        lambda v: dict(sync_age=v["sync_age"], generation=v["generation"], leader_identifier=v["leader_identifier"],
                       new_leader=v["new_leader"], leader_dynamic_identifier=DynamicIdentifier(v["leader_dynamic_identifier"]),
                       channel_timing_opcode=ChannelTimingOpcode(v["channel_timing_opcode"]),
                       source_identifier=v["source_identifier"],
                       source_dynamic_identifier=DynamicIdentifier(v["source_dynamic_identifier"])),
        lambda o: dict(sync_age=o.sync_age, generation=o.generation, leader_identifier=o.leader_identifier,
                       new_leader=int(o.new_leader), leader_dynamic_identifier=o.leader_dynamic_identifier.value,
                       channel_timing_opcode=o.channel_timing_opcode.value, source_identifier=o.source_identifier,
                       source_dynamic_identifier=o.source_dynamic_identifier.value)))
    ks.append(_csbk_kind(
        "hytera_ipsc_sync", 0b001000, [F("raw_data", 64)],
        lambda v: dict(raw_data=v["raw_data"].to_bytes(8, "big")),
        lambda o: dict(raw_data=int.from_bytes(o.raw_data, "big"))))
    ks.append(_csbk_kind(
        "aloha", 0b011001,
        [C(1), F("tsccas_support", 1), F("site_timeslot_synchronized", 1), F("document_version_control", 3),
         F("tscc_is_offset_timing", 1), F("ts_active_connection", 1), F("aloha_mask", 5), F("service_function", 2),
         F("nrand_wait", 4), F("tscc_reg_required", 1), F("tscc_backoff", 4), F("system_identity_code", 16),
         F("target_address", 24)],
        lambda v: dict(tsccas_support=bool(v["tsccas_support"]), site_timeslot_synchronized=bool(v["site_timeslot_synchronized"]),
                       document_version_control=v["document_version_control"],
                       tscc_is_offset_timing=bool(v["tscc_is_offset_timing"]),
                       ts_active_connection=bool(v["ts_active_connection"]), aloha_mask=v["aloha_mask"],
                       service_function=RandomAccessServiceFunction(v["service_function"]), nrand_wait=v["nrand_wait"],
                       tscc_reg_required=bool(v["tscc_reg_required"]), tscc_backoff=v["tscc_backoff"],
                       system_identity_code=v["system_identity_code"], target_address=v["target_address"]),
        lambda o: dict(tsccas_support=flag(o.tsccas_support), site_timeslot_synchronized=flag(o.site_timeslot_synchronized),
                       document_version_control=o.document_version_control,
                       tscc_is_offset_timing=flag(o.tscc_is_offset_timing), ts_active_connection=flag(o.ts_active_connection),
                       aloha_mask=o.aloha_mask, service_function=o.service_function.value, nrand_wait=o.nrand_wait,
                       tscc_reg_required=flag(o.tscc_reg_required), tscc_backoff=o.tscc_backoff,
                       system_identity_code=o.system_identity_code, target_address=o.target_address)))
    ks.append(_csbk_kind(
        "c_bcast", 0b101000,
        [F("announcement_type", 5), F("broadcast_params", 14, 24), F("tscc_reg_required", 1), F("tscc_backoff", 4),
         F("system_identity_code", 16), F("broadcast_params", 24, 0)],
        lambda v: dict(announcement_type=AnnouncementType(v["announcement_type"]),
                       broadcast_params=ba(bits_of(v["broadcast_params"], 38)),
                       tscc_reg_required=bool(v["tscc_reg_required"]), tscc_backoff=v["tscc_backoff"],
                       system_identity_code=v["system_identity_code"]),
        lambda o: dict(announcement_type=o.announcement_type.value, broadcast_params=ba2int(o.broadcast_params),
                       tscc_reg_required=flag(o.tscc_reg_required), tscc_backoff=o.tscc_backoff,
                       system_identity_code=o.system_identity_code),
        {"announcement_type": sorted(ANNOUNCEMENT_DEFINED)}))
    return ks


# ------------------------------------------------------------------ data headers (96 bit) -------
def _dh_common_build(v, **kw):
    return DataHeader(**kw)


def data_header_kinds():
    sap = {"sap": sorted(SAP_DEFINED)}
    ks = []

    def rd_common(o):
        return dict(sap=o.sap_identifier.value, llid_destination=o.llid_destination, llid_source=o.llid_source,
                    full_message_flag=o.full_message_flag.value)

    ks.append(Kind(
        "data_header", "dh_confirmed",
        [F("is_group", 1), F("is_response_requested", 1), C(1), F("pad_octet_count", 1, 4), C(4, 0b0011), F("sap", 4),
         F("pad_octet_count", 4, 0), F("llid_destination", 24), F("llid_source", 24), F("full_message_flag", 1),
         F("blocks_to_follow", 7), F("resynchronize_flag", 1), F("send_sequence_number", 3),
         F("fragment_sequence_number", 4), K(16)],
        lambda v: DataHeader(dpf=DataPacketFormats.DataPacketConfirmed, is_group=v["is_group"],
                             is_response_requested=v["is_response_requested"], pad_octet_count=v["pad_octet_count"],
                             sap_identifier=SAPIdentifier(v["sap"]), llid_destination=v["llid_destination"],
                             llid_source=v["llid_source"], full_message_flag=FullMessageFlag(v["full_message_flag"]),
                             blocks_to_follow=v["blocks_to_follow"], resynchronize_flag=ResynchronizeFlag(v["resynchronize_flag"]),
                             send_sequence_number=v["send_sequence_number"],
                             fragment_sequence_number=v["fragment_sequence_number"]),
        lambda o: dict(rd_common(o), is_group=flag(o.is_group), is_response_requested=flag(o.is_response_requested),
                       pad_octet_count=o.pad_octet_count, blocks_to_follow=o.blocks_to_follow,
                       resynchronize_flag=o.resynchronize_flag.value, send_sequence_number=o.send_sequence_number,
                       fragment_sequence_number=o.fragment_sequence_number.value),
        DataHeader.from_bits, sap))
    ks.append(Kind(
        "data_header", "dh_unconfirmed",
        [F("is_group", 1), F("is_response_requested", 1), C(1), F("pad_octet_count", 1, 4), C(4, 0b0010), F("sap", 4),
         F("pad_octet_count", 4, 0), F("llid_destination", 24), F("llid_source", 24), F("full_message_flag", 1),
         F("blocks_to_follow", 7), C(4), F("fragment_sequence_number", 4), K(16)],
        lambda v: DataHeader(dpf=DataPacketFormats.DataPacketUnconfirmed, is_group=v["is_group"],
                             is_response_requested=v["is_response_requested"], pad_octet_count=v["pad_octet_count"],
                             sap_identifier=SAPIdentifier(v["sap"]), llid_destination=v["llid_destination"],
                             llid_source=v["llid_source"], full_message_flag=FullMessageFlag(v["full_message_flag"]),
                             blocks_to_follow=v["blocks_to_follow"],
                             fragment_sequence_number=FragmentSequenceNumber(v["fragment_sequence_number"])),
        lambda o: dict(rd_common(o), is_group=flag(o.is_group), is_response_requested=flag(o.is_response_requested),
                       pad_octet_count=o.pad_octet_count, blocks_to_follow=o.blocks_to_follow,
                       fragment_sequence_number=o.fragment_sequence_number.value),
        DataHeader.from_bits, sap))
    # response header: the library exposes bit 1 as the A (response requested) field and bit 64 as F
    ks.append(Kind(
        "data_header", "dh_response",
        [C(1), F("is_response_requested", 1), C(2), C(4, 0b0001), F("sap", 4), C(4), F("llid_destination", 24),
         F("llid_source", 24), F("full_message_flag", 1), F("blocks_to_follow", 7), F("response_class", 2),
         F("response_type", 3), F("response_status", 3), K(16)],
        lambda v: DataHeader(dpf=DataPacketFormats.ResponsePacket, is_response_requested=v["is_response_requested"],
                             sap_identifier=SAPIdentifier(v["sap"]), llid_destination=v["llid_destination"],
                             llid_source=v["llid_source"], full_message_flag=FullMessageFlag(v["full_message_flag"]),
                             blocks_to_follow=v["blocks_to_follow"], response_class=v["response_class"],
                             response_type=v["response_type"], response_status=v["response_status"]),
        lambda o: dict(rd_common(o), is_response_requested=flag(o.is_response_requested),
                       blocks_to_follow=o.blocks_to_follow, response_class=o.response_class,
                       response_type=o.response_type, response_status=o.response_status),
        DataHeader.from_bits, sap))
    ks.append(Kind(
        "data_header", "dh_short_data_defined",
        [F("is_group", 1), F("is_response_requested", 1), F("appended_blocks", 2, 4), C(4, 0b1101), F("sap", 4),
         F("appended_blocks", 4, 0), F("llid_destination", 24), F("llid_source", 24), F("defined_data_format", 6),
         F("sarq", 1), F("full_message_flag", 1), F("bit_padding", 8), K(16)],
        lambda v: DataHeader(dpf=DataPacketFormats.ShortDataDefined, is_group=v["is_group"],
                             is_response_requested=v["is_response_requested"], appended_blocks=v["appended_blocks"],
                             sap_identifier=SAPIdentifier(v["sap"]), llid_destination=v["llid_destination"],
                             llid_source=v["llid_source"], defined_data_format=DefinedDataFormats(v["defined_data_format"]),
                             sarq=SARQ(v["sarq"]), full_message_flag=FullMessageFlag(v["full_message_flag"]),
                             bit_padding=ba(bits_of(v["bit_padding"], 8))),
        lambda o: dict(rd_common(o), is_group=flag(o.is_group), is_response_requested=flag(o.is_response_requested),
                       appended_blocks=o.appended_blocks, defined_data_format=o.defined_data_format.value,
                       sarq=o.sarq.value, bit_padding=ba2int(o.bit_padding) if len(o.bit_padding) else -1),
        DataHeader.from_bits, dict(sap, defined_data_format=sorted(DD_DEFINED))))
    ks.append(Kind(
        "data_header", "dh_udt",
        [F("is_group", 1), F("is_response_requested", 1), F("is_emergency", 1), F("udt_option_flag", 1), C(4, 0b0000),
         F("sap", 4), F("udt_format", 4), F("llid_destination", 24), F("llid_source", 24), F("pad_nibbles_count", 5),
         C(1), F("appended_blocks", 2), F("supplementary_flag", 1), C(1), F("udt_opcode", 6), K(16)],
        lambda v: DataHeader(dpf=DataPacketFormats.UnifiedDataTransport, is_group=v["is_group"],
                             is_response_requested=v["is_response_requested"], is_emergency=v["is_emergency"],
                             udt_option_flag=UDTOptionFlag(v["udt_option_flag"]), sap_identifier=SAPIdentifier(v["sap"]),
                             udt_format=UDTFormat(v["udt_format"]), llid_destination=v["llid_destination"],
                             llid_source=v["llid_source"], pad_nibbles_count=v["pad_nibbles_count"],
                             appended_blocks=v["appended_blocks"], supplementary_flag=SupplementaryFlag(v["supplementary_flag"]),
                             udt_opcode=CsbkOpcodes(v["udt_opcode"])),
        lambda o: dict(sap=o.sap_identifier.value, llid_destination=o.llid_destination, llid_source=o.llid_source,
                       is_group=flag(o.is_group), is_response_requested=flag(o.is_response_requested),
                       is_emergency=flag(o.is_emergency), udt_option_flag=o.udt_option_flag.value,
                       udt_format=o.udt_format.value, pad_nibbles_count=o.pad_nibbles_count,
                       appended_blocks=o.appended_blocks, supplementary_flag=o.supplementary_flag.value,
                       udt_opcode=o.udt_opcode.value),
        DataHeader.from_bits, dict(sap, udt_format=sorted(UDTF_DEFINED), udt_opcode=sorted(CSBKO_DEFINED))))
    return ks


# ------------------------------------------------------------------ full LC (96 / 77 bit) -------
def full_lc_kinds():
    ks = []
    for crcw in (24, 5):
        sfx = "_96" if crcw == 24 else "_77"

        def mk(name, flco, body, build_extra, read_extra, alpha=None, crcw=crcw, sfx=sfx):
            layout = [F("protect_flag", 1), C(1), C(6, flco), F("fid", 8)] + body + [F("crc", crcw)]
            a = {"fid": list(FID_DEFINED)}
            a.update(alpha or {})

            def build(v):
                return FullLinkControl(protect_flag=v["protect_flag"], flco=FLCOs(flco), fid=FeatureSetIDs(v["fid"]),
                                       crc=ba(bits_of(v["crc"], crcw)), **build_extra(v))

            def read(o):
                d = {"protect_flag": flag(o.protect_flag), "fid": o.feature_set_id.value, "crc": ba2int(o.crc)}
                d.update(read_extra(o))
                return d

            return Kind("full_lc", "flc_" + name + sfx, layout, build, read, FullLinkControl.from_bits, a)

        ks.append(mk("group_voice", 0b000000, [F("service_options", 8), F("group_address", 24), F("source_address", 24)],
                     lambda v: dict(service_options=so_build(v["service_options"]), group_address=v["group_address"],
                                    source_address=v["source_address"]),
                     lambda o: dict(service_options=so_read(o.service_options), group_address=o.group_address,
                                    source_address=o.source_address)))
        ks.append(mk("unit_to_unit", 0b000011, [F("service_options", 8), F("target_address", 24), F("source_address", 24)],
                     lambda v: dict(service_options=so_build(v["service_options"]), target_address=v["target_address"],
                                    source_address=v["source_address"]),
                     lambda o: dict(service_options=so_read(o.service_options), target_address=o.target_address,
                                    source_address=o.source_address)))

        def gps_read(o):
            lo = o.longitude / LON_STEP
            la = o.latitude / LAT_STEP
            return dict(position_error=o.position_error.value,
                        longitude=(int(lo) & 0x1FFFFFF) if lo == int(lo) else lo,
                        latitude=(int(la) & 0xFFFFFF) if la == int(la) else la)

        ks.append(mk("gps_info", 0b001000, [C(4), F("position_error", 3), F("longitude", 25), F("latitude", 24)],
                     lambda v: dict(position_error=PositionError(v["position_error"]),
                                    longitude=signed(v["longitude"], 25) * LON_STEP,
                                    latitude=signed(v["latitude"], 24) * LAT_STEP),
                     gps_read))
        ks.append(mk("talker_alias_header", 0b000100,
                     [F("talker_alias_data_format", 2), F("talker_alias_data_length", 5), F("talker_alias_data_msb", 1),
                      F("talker_alias_data", 48)],
                     lambda v: dict(talker_alias_data_format=TalkerAliasDataFormat(v["talker_alias_data_format"]),
                                    talker_alias_data_length=v["talker_alias_data_length"],
                                    talker_alias_data_msb=v["talker_alias_data_msb"],
                                    talker_alias_data=v["talker_alias_data"].to_bytes(6, "big")),
                     lambda o: dict(talker_alias_data_format=o.talker_alias_data_format.value,
                                    talker_alias_data_length=o.talker_alias_data_length,
                                    talker_alias_data_msb=flag(o.talker_alias_data_msb),
                                    talker_alias_data=int.from_bytes(o.talker_alias_data, "big"))))
        for i, flco in ((1, 0b000101), (2, 0b000110), (3, 0b000111)):
            ks.append(mk(f"talker_alias_block{i}", flco, [F("talker_alias_data", 56)],
                         lambda v: dict(talker_alias_data=v["talker_alias_data"].to_bytes(7, "big")),
                         lambda o: dict(talker_alias_data=int.from_bytes(o.talker_alias_data, "big"))))
    return ks


# ------------------------------------------------------------------ short LC (36 bit) -----------
def short_lc_kinds():
    return [
        Kind("short_lc", "slc_null", [C(4, 0b0000), C(24), K(8)],
             lambda v: ShortLinkControl(slco=SLCOs(0)), lambda o: {}, ShortLinkControl.from_bits),
        Kind("short_lc", "slc_activity_update",
             [C(4, 0b0001), F("ts1_activity_id", 4), F("ts2_activity_id", 4), F("ts1_address", 8), F("ts2_address", 8), K(8)],
             lambda v: ShortLinkControl(slco=SLCOs(1), ts1_activity_id=ActivityID(v["ts1_activity_id"]),
                                        ts2_activity_id=ActivityID(v["ts2_activity_id"]),
                                        ts1_address=ba(bits_of(v["ts1_address"], 8)),
                                        ts2_address=ba(bits_of(v["ts2_address"], 8))),
             lambda o: dict(ts1_activity_id=o.ts1_activity_id.value, ts2_activity_id=o.ts2_activity_id.value,
                            ts1_address=ba2int(o.ts1_address), ts2_address=ba2int(o.ts2_address)),
             ShortLinkControl.from_bits,
             {"ts1_activity_id": sorted(ACTIVITY_DEFINED), "ts2_activity_id": sorted(ACTIVITY_DEFINED)}),
    ]


def pi_header_kinds():
    return [Kind("pi_header", "pi_header", [F("data", 80), K(16)],
                 lambda v: PIHeader(data=v["data"].to_bytes(10, "big")),
                 lambda o: dict(data=int.from_bytes(o.data, "big")), PIHeader.from_bits)]


# ------------------------------------------------------------------ rate 1/2, 3/4, 1 blocks -----
RATES = {
    "r12": (Rate12Data, Rate12DataTypes, 96),
    "r34": (Rate34Data, Rate34DataTypes, 144),
    "r1": (Rate1Data, Rate1DataTypes, 192),
}


def rate_kinds():
    ks = []
    for rn, (cls, T, L) in RATES.items():
        def mk(variant, layout, tname, cls=cls, T=T, rn=rn):
            t = getattr(T, tname)
            dbits = [s for s in layout if s[0] == "f" and s[1] == "data"][0][2]

            def build(v):
                kw = dict(data=v["data"].to_bytes(dbits // 8, "big"), packet_type=t)
                if "dbsn" in v:
                    kw["dbsn"] = v["dbsn"]
                if "crc32" in v:
                    kw["crc32"] = v["crc32"]
                return cls(**kw)

            def read(o):
                d = dict(data=int.from_bytes(o.data, "big"))
                if tname.startswith("Confirmed"):
                    d["dbsn"] = o.dbsn
                if tname.endswith("LastBlock"):
                    d["crc32"] = o.crc32
                d["_packet_type"] = o.packet_type.name
                return d

            k = Kind("rate_data", f"{rn}_{variant}", layout, build, read,
                     lambda b: cls.from_bits_typed(b, t))
            k.typename = tname
            return k

        ks.append(mk("unconfirmed", [F("data", L)], "Unconfirmed"))
        ks.append(mk("confirmed", [F("dbsn", 7), K(9), F("data", L - 16)], "Confirmed"))
        ks.append(mk("unconfirmed_last", [F("data", L - 32), F("crc32", 32)], "UnconfirmedLastBlock"))
        ks.append(mk("confirmed_last", [F("dbsn", 7), K(9), F("data", L - 48), F("crc32", 32)], "ConfirmedLastBlock"))
    return ks


# ------------------------------------------------------------------ UDP/IPv4 compressed header --
def udp_kinds():
    ks = []
    for udw in (0, 40, 3):  # 3: a tail that is not a whole number of octets
        for variant, spid0, dpid0 in (("ext0", False, False), ("ext1_src", True, False), ("ext1_dst", False, True),
                                      ("ext2", True, True)):
            layout = [F("ipv4_identification", 16), F("said", 4), F("daid", 4), C(1)]
            layout.append(C(7, 0) if spid0 else F("spid", 7))
            layout.append(C(1))
            layout.append(C(7, 0) if dpid0 else F("dpid", 7))
            if spid0 or dpid0:
                layout.append(F("extended_header_1", 16))
            if spid0 and dpid0:
                layout.append(F("extended_header_2", 16))
            if udw:
                layout.append(F("user_data", udw))

            def build(v, spid0=spid0, dpid0=dpid0, udw=udw):
                return UDPIPv4CompressedHeader(
                    ipv4_identification=v["ipv4_identification"], source_ip_address_id=IPAddressIdentifier(v["said"]),
                    destination_ip_address_id=IPAddressIdentifier(v["daid"]),
                    udp_source_port_id=0 if spid0 else v["spid"], udp_destination_port_id=0 if dpid0 else v["dpid"],
                    user_data=ba(bits_of(v.get("user_data", 0), udw)), extended_header_1=v.get("extended_header_1"),
                    extended_header_2=v.get("extended_header_2"))

            def read(o, spid0=spid0, dpid0=dpid0, udw=udw):
                d = dict(ipv4_identification=o.ipv4_identification, said=o.source_ip_address_id.value,
                         daid=o.destination_ip_address_id.value)
                if not spid0:
                    d["spid"] = o.udp_source_port_original
                if not dpid0:
                    d["dpid"] = o.udp_destination_port_original
                if spid0 or dpid0:
                    d["extended_header_1"] = o.extended_header_1
                if spid0 and dpid0:
                    d["extended_header_2"] = o.extended_header_2
                if udw:
                    d["user_data"] = ba2int(o.user_data) if len(o.user_data) == udw else -1
                d["_spid_member"] = o.udp_source_port_id.name
                d["_dpid_member"] = o.udp_destination_port_id.name
                return d

            a = {"said": sorted(IPID_DEFINED), "daid": sorted(IPID_DEFINED),
                 "spid": list(range(1, 128)), "dpid": list(range(1, 128))}
            k_ = Kind("udp_ipv4", f"udp_{variant}_ud{udw}", layout, build, read, UDPIPv4CompressedHeader.from_bits, a)

            def build_members(v, spid0=spid0, dpid0=dpid0, udw=udw):
                """port / address identifiers given as enumeration members (documented Union[member, int] arguments); only for
                values that are members themselves (0, 1, 2), other values can only be given as ints"""
                sp = 0 if spid0 else v["spid"]
                dp = 0 if dpid0 else v["dpid"]
                if sp not in (0, 1, 2) or dp not in (0, 1, 2):
                    return None
                return UDPIPv4CompressedHeader(
                    ipv4_identification=v["ipv4_identification"], source_ip_address_id=v["said"], destination_ip_address_id=v["daid"],
                    udp_source_port_id=UDPPortIdentifier(sp), udp_destination_port_id=UDPPortIdentifier(dp),
                    user_data=ba(bits_of(v.get("user_data", 0), udw)), extended_header_1=v.get("extended_header_1"),
                    extended_header_2=v.get("extended_header_2"))

            k_.alt_builds.append(("identifiers_as_members", build_members))
            ks.append(k_)
    return ks


def spid_member(v):  # TS 102 361-3 7.2.4.3/7.2.4.4
    if v == 0:
        return "InExtendedHeader"
    if v == 1:
        return "UTF16BE_TextMessage"
    if v == 2:
        return "LocationInterfaceProtocol"
    return "Reserved" if v < 95 else "ManufacturerSpecific"


def all_kinds():
    return csbk_kinds() + data_header_kinds() + full_lc_kinds() + short_lc_kinds() + pi_header_kinds() + rate_kinds() + udp_kinds()


# =====================================================================================
# case spaces for the fields -> bits -> fields sub-checks
# =====================================================================================
FULL_PRODUCT_LIMIT = {"quick": 6000, "thorough": 60000}


def kind_cases(kind, tier, seed_bases=True):
    """complete, duplicate-free, stably ordered list of field assignments for one PDU kind"""
    names = kind.fields
    if not names:
        return [{}]
    alpha = kind.alpha
    if spaces.product_size([alpha[n] for n in names]) <= FULL_PRODUCT_LIMIT[tier]:
        return [dict(zip(names, combo)) for combo in itertools.product(*[alpha[n] for n in names])]
    palpha = alpha if tier == "thorough" else {n: pair_alphabet(alpha[n], kind.widths[n]) for n in names}
    # very wide payload fields never need the full unit-vector set inside pair products
    palpha = {n: (palpha[n] if len(palpha[n]) <= 64 else pair_alphabet(alpha[n], kind.widths[n])) for n in names}
    bases = [{n: alpha[n][0] for n in names}, {n: alpha[n][-1] for n in names}]
    if seed_bases:
        nb = 2 if tier == "thorough" else 1
        for b in range(nb):
            bases.append({n: alpha[n][env.det_int(f"c03|{kind.name}|{n}|{b}", 32) % len(alpha[n])] for n in names})
    seen = set()
    out = []

    def emit(d):
        k = tuple(d[n] for n in names)
        if k not in seen:
            seen.add(k)
            out.append(dict(d))

    for b in bases:
        emit(b)
        for n in names:
            for v in alpha[n]:
                d = dict(b)
                d[n] = v
                emit(d)
    for b in bases[:2] if tier == "quick" else bases:
        for n1, n2 in itertools.combinations(names, 2):
            for v1 in palpha[n1]:
                for v2 in palpha[n2]:
                    d = dict(b)
                    d[n1] = v1
                    d[n2] = v2
                    emit(d)
    return out


def extra_expectations(kind, vals):
    """derived public attributes that must also hold after decode"""
    e = {}
    if kind.family == "rate_data":
        e["_packet_type"] = kind.typename
    if kind.family == "udp_ipv4":
        e["_spid_member"] = spid_member(vals.get("spid", 0))
        e["_dpid_member"] = spid_member(vals.get("dpid", 0))
    return e


def roundtrip_case(kind, vals, acc, detail=None):
    """one fields -> bits -> fields -> bits evaluation; records violations on acc; returns outcome label"""
    case = {"kind": kind.name, "values": {k: (v if v < (1 << 53) else hex(v)) for k, v in vals.items()}}
    try:
        obj = kind.build(vals)
        bits = obj.as_bits()
        # the caller owns the returned bitarray: writing into it must not change what the object serialises to next time
        _scratch = obj.as_bits()
        if _scratch is bits or len(_scratch) != len(bits):
            pass
        _scratch.invert()
        if obj.as_bits() != bits:
            acc.violation(f"{kind.name}:as_bits_result_aliases_object_state", case,
                          "as_bits() hands out an object whose modification changes later serialisations")
    except Exception as e:  # in-range field values must serialise
        acc.violation(f"{kind.name}:exception_on_encode:" + exc_sig(e), case, repr(e))
        return "exception"
    if len(bits) != kind.length:
        acc.violation(f"{kind.name}:wrong_length", {**case, "got": len(bits), "want": kind.length},
                      "serialisation does not have the kind's fixed length")
        return "length"
    got = bits.to01()
    for alt_name, alt in kind.alt_builds + [("flags_as_bool", None)]:
        try:
            if alt is None:
                if not any(kind.widths.get(k) == 1 for k in vals):
                    continue
                alt_obj = kind.build({k: (bool(x) if kind.widths.get(k) == 1 else x) for k, x in vals.items()})
            else:
                alt_obj = alt(vals)
            if alt_obj is None:
                continue
            alt_bits = alt_obj.as_bits().to01()
        except Exception:  # noqa: BLE001  (an argument form the constructor does not take is not this check's business)
            continue
        masked = lambda b: "".join(c for c, m in zip(b, kind.crc_mask) if not m)  # noqa: E731
        if len(alt_bits) != len(got) or masked(alt_bits) != masked(got):
            acc.violation(f"{kind.name}:other_argument_type_serialises_differently:{alt_name}", {**case, "bits": got, "alt_bits": alt_bits},
                          "the same field values given in another documented argument type serialise to other bits")
    want = kind.expected_bits(vals)
    bad_fields = []
    for i, (g, w) in enumerate(zip(got, want)):
        if w != "x" and g != w and kind.owner[i] not in bad_fields:
            bad_fields.append(kind.owner[i])
    for f in bad_fields:
        acc.violation(f"{kind.name}:encoded_bits_differ_from_layout:{f}", {**case, "got": got, "want": want},
                      "as_bits() does not carry the field value at the position the standard's layout gives it")
    try:
        back = kind.parse(bitarray(got))
        rd = kind.read(back)
        bits2 = back.as_bits()
    except Exception as e:
        acc.violation(f"{kind.name}:exception_on_decode:" + exc_sig(e), {**case, "bits": got}, repr(e))
        return "exception"
    want_fields = dict(vals)
    want_fields.update(extra_expectations(kind, vals))
    lost = [f for f in want_fields if rd.get(f) != want_fields[f]]
    for f in lost:
        acc.violation(f"{kind.name}:field_not_preserved:{f}",
                      {**case, "field": f, "built": want_fields[f] if not isinstance(want_fields[f], int) or want_fields[f] < (1 << 53) else hex(want_fields[f]),
                       "decoded": repr(rd.get(f))},
                      "field value differs after from_bits(as_bits())")
    if bits2 != bits:
        acc.violation(f"{kind.name}:second_encode_differs", {**case, "first": got, "second": bits2.to01()},
                      "from_bits(as_bits()).as_bits() != as_bits()")
    # looking at a PDU (repr, str, ==, len, hash) between two serialisations must not change it
    try:
        observe(obj, light=True)
        observe(back, light=True)
        if obj.as_bits() != bits or back.as_bits() != bits2:
            acc.violation(f"{kind.name}:serialisation_changes_after_the_pdu_was_looked_at", case,
                          "as_bits() differs after repr()/str()/==/len()/hash() on the object")
    except Exception as e:  # noqa: BLE001
        acc.violation(f"{kind.name}:exception_after_looking_at_pdu:" + exc_sig(e), case, repr(e))
    # the caller re-uses the buffer it parsed from: the parsed PDU owns its content
    try:
        src = bitarray(got)
        back2 = kind.parse(src)
        src.invert()
        if back2.as_bits() != bits2 or kind.read(back2) != rd:
            acc.violation(f"{kind.name}:parsed_pdu_changes_when_caller_reuses_the_buffer_it_was_parsed_from", case,
                          "a PDU parsed from a bitarray serialises / reads differently once the caller has overwritten that bitarray")
        if hasattr(type(obj), "from_bytes") and hasattr(obj, "as_bytes"):
            srcb = bytearray(bitarray(got + "0" * (-len(got) % 8)).tobytes())
            back3 = type(obj).from_bytes(srcb)
            want3 = back3.as_bits().to01()
            for i_ in range(len(srcb)):
                srcb[i_] ^= 0xFF
            if back3.as_bits().to01() != want3:
                acc.violation(f"{kind.name}:parsed_pdu_changes_when_caller_reuses_the_buffer_it_was_parsed_from", {**case, "parsed_with": "from_bytes(bytearray)"})
    except Exception as e:  # noqa: BLE001
        acc.violation(f"{kind.name}:exception_on_decode_from_reused_buffer:" + exc_sig(e), {**case, "bits": got}, repr(e))
    # byte interface of the same PDU (CSBK, data header, full LC, UDP/IPv4): same bits, zero padded to octets
    bytes_bad = False
    if bits2 == bits and hasattr(obj, "as_bytes") and hasattr(type(obj), "from_bytes"):  # (a lossy bit round trip is already reported)
        try:
            by = obj.as_bytes()
            padded = got + "0" * (-len(got) % 8)
            if by != bitarray(padded).tobytes():
                bytes_bad = True
                acc.violation(f"{kind.name}:as_bytes_differs_from_as_bits", {**case, "bytes": by.hex(), "bits": got},
                              "as_bytes() is not the octet packing of as_bits()")
            elif len(got) % 8 == 0 and type(obj).from_bytes(by).as_bits() != bits:  # (octets cannot carry a length that is not a whole number of octets)
                bytes_bad = True
                acc.violation(f"{kind.name}:from_bytes_as_bytes_differs", {**case, "bytes": by.hex(), "bits": got},
                              "from_bytes(as_bytes()).as_bits() != as_bits()")
        except Exception as e:
            bytes_bad = True
            acc.violation(f"{kind.name}:exception_on_bytes_interface:" + exc_sig(e), {**case, "bits": got}, repr(e))
    if detail is not None:
        detail.update(bits=got, want=want, decoded=rd, second=bits2.to01())
    if bytes_bad:
        return "deviates"
    return "ok" if not (bad_fields or lost or bits2 != bits) else "deviates"


KINDS = {}
CASES = {}


def w_fields(task):
    kname, lo, hi = task
    kind = KINDS[kname]
    cases = CASES[kname]
    acc = Acc()
    for i in range(lo, hi):
        vals = cases[i]
        out = roundtrip_case(kind, vals, acc)
        acc.case(nontrivial=True, calls=6 if kname[:3] in ('csb', 'dh_', 'flc', 'udp') else 4, outcome=(kname, out),
                 sample={"kind": kname, "values": {k: (v if v < (1 << 53) else hex(v)) for k, v in vals.items()}} if i == lo and lo == 0 else None)
    return acc


# =====================================================================================
# sub-check 1: elements, exhaustive over their width
# =====================================================================================
def rng_fold(table):
    """table: list of (lo, hi, member name or None=error expected) -> function"""
    def f(v):
        for lo, hi, name in table:
            if lo <= v <= hi:
                return name
        return None
    return f


def all_defined(cls_names):
    return dict(cls_names)


# (label, class, width, defined{value: name}, fold(v)->reserved member name or None (= only an error is acceptable))
ELEMENTS = [
    ("AccessTypes", AccessTypes, 1, {0: "InboundChannelIdle", 1: "InboundChannelBusy"}, lambda v: None),
    ("CsbkOpcodes", CsbkOpcodes, 6, CSBKO_DEFINED, lambda v: None),
    ("DataPacketFormats", DataPacketFormats, 4, DPF_DEFINED, lambda v: "Reserved"),
    ("DataTypes", DataTypes, 4,
     {0: "PIHeader", 1: "VoiceLCHeader", 2: "TerminatorWithLC", 3: "CSBK", 4: "MBCHeader", 5: "MBCContinuation",
      6: "DataHeader", 7: "Rate12Data", 8: "Rate34Data", 9: "Idle", 10: "Rate1Data", 11: "UnifiedSingleBlockData",
      12: "Reserved"}, lambda v: "Reserved"),
    ("DefinedDataFormats", DefinedDataFormats, 6, DD_DEFINED, lambda v: "Reserved"),
    # FID: 0x01-0x03 reserved for future standardisation, 0x04-0x7F manufacturer range (the class folds unassigned
    # MFIDs onto the member carrying the first MFID value 0x04), 0x80-0xFF reserved for future MFID
    ("FeatureSetIDs", FeatureSetIDs, 8, FID_DEFINED,
     rng_fold([(0x01, 0x03, "ReservedForFutureStandardization"), (0x04, 0x7F, "FlydeMicroLtd"), (0x80, 0xFF, "ReservedForFutureMFID")])),
    ("FLCOs", FLCOs, 6, FLCO_DEFINED, lambda v: None),
    ("FullMessageFlag", FullMessageFlag, 1, {1: "FirstTryToCompletePacket", 0: "SubsequentTry"}, lambda v: None),
    ("LCSS", LCSS, 2, {0: "SingleFragmentLCorCSBK", 1: "FirstFragmentLC", 2: "LastFragmentLCorCSBK", 3: "ContinuationFragmentLCorCSBK"}, lambda v: None),
    ("PreemptionPowerIndicator", PreemptionPowerIndicator, 1,
     {0: "CarriesSameChannelOrNullEmbeddedMessage", 1: "CarriesReverseChannelInformation"}, lambda v: None),
    ("ResynchronizeFlag", ResynchronizeFlag, 1, {0: "DoNotSync", 1: "SyncSeqNumberWithDataHeader"}, lambda v: None),
    ("SAPIdentifier", SAPIdentifier, 4, SAP_DEFINED, lambda v: "Reserved"),
    ("SARQ", SARQ, 1, {0: "NotRequired", 1: "Required"}, lambda v: None),
    ("SLCOs", SLCOs, 4, {0: "NullMessage", 1: "ActivityUpdate", 2: "ControlChannelSystemParams", 3: "PayloadChannelSystemParams",
                         4: "Reserved", 12: "ManufacturerSelectable"},
     rng_fold([(4, 11, "Reserved"), (12, 15, "ManufacturerSelectable")])),
    ("SupplementaryFlag", SupplementaryFlag, 1, {0: "ShortData", 1: "SupplementaryData"}, lambda v: None),
    ("UDTFormat", UDTFormat, 4, UDTF_DEFINED, rng_fold([(9, 9, "ManufacturerSpecific"), (11, 14, "Reserved")])),
    ("ActivityID", ActivityID, 4, ACTIVITY_DEFINED, rng_fold([(4, 7, "Reserved"), (14, 15, "Reserved")])),
    ("AdditionalInformationField", AdditionalInformationField, 1, {0: "Ignore", 1: "Valid"}, lambda v: None),
    ("AnnouncementType", AnnouncementType, 5, ANNOUNCEMENT_DEFINED,
     rng_fold([(8, 0b11101, "Reserved"), (0b11110, 0b11111, "ManufacturerSpecific")])),
    ("AnswerResponse", AnswerResponse, 8, {0b00100000: "Proceed", 0b00100001: "Deny"}, lambda v: None),
    ("ChannelTimingOpcode", ChannelTimingOpcode, 2,
     {0: "UnalignedRequest", 1: "UnalignedTerminator", 2: "AlignedChannelTimingStatus", 3: "AlignedChannelTimingPush"}, lambda v: None),
    ("DynamicIdentifier", DynamicIdentifier, 2,
     {0: "InitialUnknown", 1: "LeaderPreferenceLow", 2: "LeaderPreferenceMedium", 3: "LeaderPreferenceHigh"}, lambda v: None),
    ("IPAddressIdentifier", IPAddressIdentifier, 4, IPID_DEFINED, rng_fold([(2, 11, "Reserved"), (12, 15, "ManufacturerSpecific")])),
    ("PositionError", PositionError, 3,
     {0: "LessThan2m", 1: "LessThan20m", 2: "LessThan200m", 3: "LessThan2km", 4: "LessThan20km", 5: "LessThan200km",
      6: "MoreThan200km", 7: "PositionErrorNotKnown"}, lambda v: None),
    ("RandomAccessServiceFunction", RandomAccessServiceFunction, 2,
     {0: "ALL_SERVICES", 1: "REGISTRATION_AND_PAYLOAD_CHANNEL", 2: "REGISTRATION_WITHOUT_PAYLOAD_CHANNEL", 3: "REGISTRATION_ONLY"}, lambda v: None),
    ("ReasonCode", ReasonCode, 8, {0b00100001: "MSDoesNotSupportThisFeatureOrService"}, lambda v: None),
    ("SourceType", SourceType, 1, {0: "BSSourced", 1: "MSSourced"}, lambda v: None),
    ("TalkerAliasDataFormat", TalkerAliasDataFormat, 2,
     {0: "SevenBitCharacters", 1: "ISOEightBitCharacters", 2: "UnicodeUTF8", 3: "UnicodeUTF16LE"}, lambda v: None),
    ("UDPPortIdentifier", UDPPortIdentifier, 7,
     {0: "InExtendedHeader", 1: "UTF16BE_TextMessage", 2: "LocationInterfaceProtocol", 3: "Reserved", 95: "ManufacturerSpecific"},
     rng_fold([(3, 94, "Reserved"), (95, 127, "ManufacturerSpecific")])),
    ("UDTOptionFlag", UDTOptionFlag, 1, {0: "OACSU", 1: "FOACSU"}, lambda v: None),
]

SYNC_DEFINED = {  # TS 102 361-1 9.1.1 table 9.2
    0x755FD7DF75F7: "BsSourcedVoice", 0xDFF57D75DF5D: "BsSourcedData", 0x7F7D5DD57DFD: "MsSourcedVoice",
    0xD5D7F77FD757: "MsSourcedData", 0x77D55F7DFD77: "MsSourcedRcSync", 0x5D577F7757FF: "Tdma1Voice",
    0xF7FDD5DDFD55: "Tdma1Data", 0x7DFFD5F55D5F: "Tdma2Voice", 0xD7557F5FF7F5: "Tdma2Data", 0xDD7FF5D757DD: "Reserved",
}


def element_case(label, cls, width, defined, fold, v, acc):
    case = {"element": label, "value": v, "bits": bits_of(v, width)}
    paths = [("by_value", lambda: cls(v))]
    if hasattr(cls, "from_bits"):
        paths.append(("from_bits", lambda: cls.from_bits(ba(bits_of(v, width)))))
    outcome = None
    for pname, fn in paths:
        try:
            m = fn()
        except DOC_ERRORS as e:
            if v in defined:
                acc.violation(f"{label}:defined_value_rejected", {**case, "path": pname}, repr(e))
            outcome = "error"
            continue
        except Exception as e:
            acc.violation(f"{label}:exception:" + exc_sig(e), {**case, "path": pname}, repr(e))
            outcome = "exception"
            continue
        if m is None:
            acc.violation(f"{label}:maps_to_nothing", {**case, "path": pname}, "element constructor returned None")
            outcome = "none"
            continue
        if v in defined:
            if m.name != defined[v] or m.value != v:
                acc.violation(f"{label}:defined_value_not_itself", {**case, "path": pname, "got": repr(m)},
                              "a defined value does not map to the member the standard names for it")
            outcome = "defined"
        else:
            want = fold(v)
            if want is None or m.name != want:
                acc.violation(f"{label}:undefined_value_wrong_member", {**case, "path": pname, "got": repr(m), "want": want},
                              "an undefined value maps to a member other than the standard's reserved member")
            outcome = "folded"
        if hasattr(m, "as_bits"):
            try:
                b = m.as_bits()
                if len(b) != width:
                    acc.violation(f"{label}:as_bits_width", {**case, "got": len(b)})
                elif v in defined and ba2int(b) != v:
                    acc.violation(f"{label}:as_bits_value", {**case, "got": b.to01()})
                if cls.from_bits(b) is not m:
                    acc.violation(f"{label}:from_bits_as_bits_not_idempotent", case)
                # the caller owns the bits it was handed (head = X.as_bits(); head += ...): the member serialises the same afterwards
                orig = b.to01()
                try:
                    b.invert()
                    b.extend(ba("1011"))
                except TypeError:  # an immutable result is the library's right
                    pass
                again = m.as_bits()
                if again.to01() != orig:
                    acc.violation(f"{label}:as_bits_changed_after_the_caller_wrote_into_the_returned_bits", {**case, "first": orig, "again": again.to01()},
                                  "as_bits() hands out a shared object: after the caller extended / inverted what it got, the member serialises differently")
            except Exception as e:
                acc.violation(f"{label}:exception:" + exc_sig(e), {**case, "path": "as_bits"}, repr(e))
    return outcome


def w_elements(task):
    idx, lo, hi = task
    label, cls, width, defined, fold = ELEMENTS[idx]
    acc = Acc()
    for v in range(lo, hi):
        out = element_case(label, cls, width, defined, fold, v, acc)
        acc.case(nontrivial=True, calls=2, outcome=(label, out),
                 sample={"element": label, "value": v, "outcome": out} if v == lo and lo == 0 else None)
    return acc


def w_element_pairs(task):
    """histories of length 2 on one element class: decoding value a first must not change what value b decodes / serialises to
    (enumeration members are process-wide singletons: state written on them leaks into every later PDU)"""
    idx, alo, ahi = task
    label, cls, width, defined, fold = ELEMENTS[idx]
    acc = Acc()
    if not hasattr(cls, "from_bits"):
        return acc

    def one(v):
        try:
            m = cls.from_bits(ba(bits_of(v, width)))
            return ("member", m.name, m.as_bits().to01() if hasattr(m, "as_bits") else None)
        except DOC_ERRORS as e:
            return ("error", type(e).__name__, None)
        except Exception as e:  # noqa: BLE001
            return ("exception", exc_sig(e), None)

    # reference: every value alone, taken in a forked grandchild-free way: first pass in ascending order *before* any pairing
    alone = {v: one(v) for v in range(1 << width)}
    for a in range(alo, ahi):
        for b in range(1 << width):
            one(a)
            got = one(b)
            if got != alone[b]:
                acc.violation(f"{label}:value_decodes_differently_after_another_value", {"element": label, "first": a, "then": b, "alone": list(alone[b]), "after": list(got)},
                              "an element value decodes / serialises differently after another value of the same element was decoded")
            acc.case(nontrivial=True, calls=2, outcome=(label, got[0]), sample={"element": label, "first": a, "then": b} if (a == alo and b == 1) else None)
    # and the ascending-order table itself must be what a descending sweep sees
    for v in range((1 << width) - 1, -1, -1):
        if alo == 0 and one(v) != alone[v]:
            acc.violation(f"{label}:value_decodes_differently_in_descending_sweep", {"element": label, "value": v})
    return acc


def class_elements(s):
    """ServiceOptions (8 bit) and FragmentSequenceNumber (4 bit): classes, not enums -- all values, field-exact"""
    for v in range(256):
        case = {"element": "ServiceOptions", "value": v}
        try:
            o = ServiceOptions.from_bits(ba(bits_of(v, 8)))
            if o is None:
                s.violation("ServiceOptions:maps_to_nothing", case)
            else:
                if so_read(o) != v:
                    s.violation("ServiceOptions:fields_differ", {**case, "read": so_read(o)}, "decoded flags differ from TS 102 361-2 7.2.1 layout")
                if o.as_bits().to01() != bits_of(v, 8):
                    s.violation("ServiceOptions:as_bits_value", {**case, "got": o.as_bits().to01()})
                if so_build(v).as_bits().to01() != bits_of(v, 8):
                    s.violation("ServiceOptions:built_from_fields_bits", {**case, "got": so_build(v).as_bits().to01()})
        except Exception as e:
            s.violation("ServiceOptions:exception:" + exc_sig(e), case, repr(e))
        s.case(nontrivial=True, calls=3, outcome=("ServiceOptions", "defined"))
    for v in range(16):
        case = {"element": "FragmentSequenceNumber", "value": v}
        try:
            for o in (FragmentSequenceNumber(v), FragmentSequenceNumber.from_bits(ba(bits_of(v, 4)))):
                if o is None or o.value != v or o.as_bits().to01() != bits_of(v, 4):
                    s.violation("FragmentSequenceNumber:value_not_itself", case)
                # TS 102 361-1 9.3.36: 0000 single unconfirmed, 1xxx last fragment
                if o.is_last() != (v == 0 or v >= 8):
                    s.violation("FragmentSequenceNumber:is_last", case)
        except Exception as e:
            s.violation("FragmentSequenceNumber:exception:" + exc_sig(e), case, repr(e))
        s.case(nontrivial=True, calls=2, outcome=("FragmentSequenceNumber", "defined"))
    return 256 + 16


def sync_patterns(s):
    n = 0
    for c, name in SYNC_DEFINED.items():
        for pos in [None] + list(range(48)):
            v = c if pos is None else c ^ (1 << (47 - pos))
            case = {"element": "SyncPatterns", "value": hex(v), "neighbour_of": name, "flipped": pos}
            want = name if pos is None else SYNC_DEFINED.get(v, "EmbeddedSignalling")
            try:
                for pname, m in (("by_value", SyncPatterns(v)), ("from_bits", SyncPatterns.from_bits(ba(bits_of(v, 48)))),
                                 ("resolve_bytes", SyncPatterns.resolve_bytes(v.to_bytes(6, "big")))):
                    if m is None:
                        s.violation("SyncPatterns:maps_to_nothing", {**case, "path": pname})
                    elif m.name != want:
                        s.violation("SyncPatterns:wrong_member", {**case, "path": pname, "got": m.name, "want": want})
                    elif pos is None and (m.value != c or m.as_bits().to01() != bits_of(c, 48)):
                        s.violation("SyncPatterns:defined_value_not_itself", {**case, "path": pname})
            except Exception as e:
                s.violation("SyncPatterns:exception:" + exc_sig(e), case, repr(e))
            s.case(nontrivial=True, calls=3, outcome=("SyncPatterns", want == "EmbeddedSignalling"),
                   sample=case if n == 0 else None)
            n += 1
    return n


# =====================================================================================
# sub-check 3: GPS Info raw codes
# =====================================================================================
GPS_PREFIX = "0" + "0" + bits_of(0b001000, 6) + bits_of(0, 8) + "0000" + "011"  # PF,R,FLCO,FID,4 reserved,position error


def gps_quick_codes(width):
    """structured subset: |n| < 2^12, all +-2^k, +-2^k +-1, extremes (as unsigned two's complement codes)"""
    m = 1 << width
    s = set(range(-(1 << 12) + 1, 1 << 12))
    for k in range(width - 1):
        for d in (-1, 0, 1):
            s.add((1 << k) + d)
            s.add(-(1 << k) + d)
    s.update([-(m >> 1), -(m >> 1) + 1, (m >> 1) - 1, (m >> 1) - 2])
    return sorted(v & (m - 1) for v in s if -(m >> 1) <= v < (m >> 1))


def w_gps(task):
    axis, lo, hi, codes, other = task
    acc = Acc()
    crc = "0" * 24
    n = 0
    width = 25 if axis == "lon" else 24
    step = LON_STEP if axis == "lon" else LAT_STEP
    rng = codes[lo:hi] if codes is not None else range(lo, hi)
    bad = 0
    for code in rng:
        if axis == "lon":
            s = GPS_PREFIX + bits_of(code, 25) + bits_of(other, 24) + crc
        else:
            s = GPS_PREFIX + bits_of(other, 25) + bits_of(code, 24) + crc
        try:
            o = FullLinkControl.from_bits(bitarray(s))
            out = o.as_bits().to01()
            val = o.longitude if axis == "lon" else o.latitude
            if out != s:
                bad += 1
                acc.violation(f"gps_{axis}:code_not_preserved", {"axis": axis, "code": code, "bits": s, "got": out},
                              "encode(decode(code)) != code")
            elif abs(val - signed(code, width) * step) >= step:
                acc.violation(f"gps_{axis}:decoded_value_off_by_a_step", {"axis": axis, "code": code, "value": val})
        except Exception as e:
            acc.violation(f"gps_{axis}:exception:" + exc_sig(e), {"axis": axis, "code": code, "bits": s}, repr(e))
        n += 1
    acc.n += n
    acc.calls += 2 * n
    acc.nontrivial += n
    acc.outcomes[(axis, "preserved")] += n - bad
    if bad:
        acc.outcomes[(axis, "changed")] += bad
    if lo == 0:
        acc.samples.append({"axis": axis, "first_code": 0, "other_axis_code": other})
    return acc


def gps_float_cases():
    """field-level floats that are not grid points: |decode(encode(x)) - x| < one quantisation step"""
    out = []
    for axis, step, lim in (("lon", LON_STEP, 180.0), ("lat", LAT_STEP, 90.0)):
        xs = [0.0, step / 3, -step / 3, 0.5 * step, -0.5 * step, 1.5 * step, -1.5 * step, 14.4210, 50.0755, -33.8688,
              -0.000001, 0.000001, lim - step, lim - 1.5 * step, -lim, -lim + step / 2, 45.0, -45.0, 89.999999, -89.999999,
              12.3456789, -12.3456789]
        if axis == "lon":
            xs += [151.2093, -151.2093, 179.999999, -179.999999, 120.0, -120.0]
        for x in xs:
            if -lim <= x < lim:
                out.append((axis, step, x))
    return out


# =====================================================================================
# sub-check 4: arbitrary right-length bit strings -> documented error or fixed point
# =====================================================================================
def pattern_set(n, weight, seedlabel):
    """0, ~0, all vectors of weight <= `weight` and complements, 0x55/0xAA, walking byte patterns, one seed word"""
    pats = spaces.small_scope_messages(n, weight)
    seen = set(pats)
    for start in range(0, n, 8):
        for byte in (0xFF, 0xA5, 0x5A):
            s = "0" * start + bits_of(byte, 8)[: n - start] + "0" * max(0, n - start - 8)
            if s not in seen:
                seen.add(s)
                pats.append(s)
    sd = env.det_bits(seedlabel, n)
    if sd not in seen:
        pats.append(sd)
    return pats


def arbitrary_parsers(thorough):
    """(label, length, parser, prefix-writer list).  A prefix writer overwrites the opcode/format bits."""
    w = 2 if thorough else 1
    out = []

    def over(pos, width, value):
        return lambda s: s[:pos] + bits_of(value, width) + s[pos + width:]

    out.append(("csbk", 96, CSBK.from_bits, [(f"csbko={v}", over(2, 6, v)) for v in range(64)], 1))
    out.append(("data_header", 96, DataHeader.from_bits, [(f"dpf={v}", over(4, 4, v)) for v in range(16)], w))
    out.append(("full_lc_96", 96, FullLinkControl.from_bits, [(f"flco={v}", over(2, 6, v)) for v in range(64)], 1))
    out.append(("full_lc_77", 77, FullLinkControl.from_bits, [(f"flco={v}", over(2, 6, v)) for v in range(64)], 1))
    out.append(("short_lc", 36, ShortLinkControl.from_bits, [(f"slco={v}", over(0, 4, v)) for v in range(16)], w))
    out.append(("pi_header", 96, PIHeader.from_bits, [("-", lambda s: s)], w))
    for rn, (cls, T, L) in RATES.items():
        for tname in ("Undefined", "Unconfirmed", "Confirmed", "UnconfirmedLastBlock", "ConfirmedLastBlock"):
            t = getattr(T, tname)
            out.append((f"{rn}_{tname}", L, (lambda b, cls=cls, t=t: cls.from_bits_typed(b, t)), [("-", lambda s: s)], w))
        out.append((f"{rn}_from_bits", L, cls.from_bits, [("-", lambda s: s)], 1))
    for L in (40, 56, 72, 96):
        prefixes = []
        for sp in (0, 1, 95):
            for dp in (0, 2, 127):
                prefixes.append((f"spid={sp},dpid={dp}",
                                 (lambda s, sp=sp, dp=dp: s[:25] + bits_of(sp, 7) + s[32] + bits_of(dp, 7) + s[40:])))
        out.append((f"udp_ipv4_{L}", L, UDPIPv4CompressedHeader.from_bits, prefixes, 1))
    return out


ARB = []


def arb_inputs(entry):
    label, L, parser, prefixes, weight = entry
    pats = pattern_set(L, weight, f"c03|arb|{label}")
    seen = set()
    out = []
    for pname, pw in prefixes:
        for p in pats:
            s = pw(p)
            if s not in seen:
                seen.add(s)
                out.append(s)
    return out


ARB_INPUTS = {}


def w_arbitrary(task):
    idx, lo, hi = task
    label, L, parser, prefixes, weight = ARB[idx]
    inputs = ARB_INPUTS[label]
    acc = Acc()
    for i in range(lo, hi):
        x = inputs[i]
        case = {"parser": label, "bits": x}
        outcome = None
        try:
            o = parser(bitarray(x))
        except DOC_ERRORS as e:
            outcome = "documented_error:" + type(e).__name__
        except Exception as e:
            acc.violation(f"{label}:undocumented_exception:" + exc_sig(e), case, repr(e))
            outcome = "exception"
        else:
            try:
                if o is None:
                    acc.violation(f"{label}:decoded_to_nothing", case)
                    outcome = "none"
                else:
                    y = o.as_bits()
                    if len(y) != L:
                        acc.violation(f"{label}:reencoded_length", {**case, "got": len(y)}, "re-encoded length differs from input length")
                    y2 = parser(bitarray(y)).as_bits()
                    if y2 != y:
                        acc.violation(f"{label}:not_a_fixed_point", {**case, "y": y.to01(), "y2": y2.to01()},
                                      "decode-then-encode applied to its own output changes it")
                    outcome = "fixed_point" if y.to01() == x else "normalised"
            except DOC_ERRORS as e:
                # decoding succeeded, re-encoding / re-decoding the library's own output did not
                acc.violation(f"{label}:decoded_object_not_reencodable:" + exc_sig(e), case, repr(e))
                outcome = "reencode_error"
            except Exception as e:
                acc.violation(f"{label}:undocumented_exception:" + exc_sig(e), case, repr(e))
                outcome = "exception"
        acc.case(nontrivial=True, calls=3, outcome=(label.split("_")[0], outcome), sample=case if i == 0 else None)
    return acc


# =====================================================================================
def run(only=None):
    rep = Report("C03")
    tier = rep.tier
    rep.explanation = (
        "Complete enumeration of stated finite spaces on the real encoders/decoders. state = one enumerated field "
        "assignment / element value / bit string; transition = one real library call on it (constructor, as_bits, "
        "from_bits, as_bits); every case is an implementation execution. Expected bit strings come from the harness's "
        "own transcription of the ETSI layouts; check-field positions are masked (C04 owns them)."
    )
    rep.assumptions = [
        "layout tables and defined-value tables in this file are a faithful transcription of ETSI TS 102 361-1 cl. 9, "
        "-2 cl. 7, -3 cl. 7.2.4, -4 cl. 7.1.1 (response header: bit 1 = A and bit 64 = F as the library exposes them)",
        "an unassigned MFID in 0x04-0x7F folding onto the class's first-MFID member counts as 'the reserved member'",
        "CPython, bitarray behave as documented",
    ]
    nw = env.workers()

    def want(name):
        return only is None or name in only

    # ---- 1. elements ------------------------------------------------------------------------
    if want("elements_all_values"):
        s = rep.sub("elements_all_values",
                    "all 2^w values of each of the %d enumerated elements (w <= 8) by value and via from_bits, ServiceOptions "
                    "(256) and FragmentSequenceNumber (16) as classes, the 10 SYNC constants and all 48 single-bit neighbours "
                    "of each; every value is a distinct non-trivial case" % len(ELEMENTS))
        tasks = []
        decl = 0
        for i, (label, cls, width, defined, fold) in enumerate(ELEMENTS):
            tasks += [(i, lo, hi) for lo, hi in par.chunks(1 << width, 2)]
            decl += 1 << width
        for acc in par.pmap(w_elements, tasks, nw):
            s.merge(acc)
        decl += class_elements(s)
        decl += sync_patterns(s)
        s.declared = decl
        s.done()

    if want("element_value_pairs"):
        s = rep.sub("element_value_pairs",
                    "every enumerated element: all ordered pairs (a, b) of its 2^w values -- decode a, then decode + serialise b: must equal b decoded alone")
        tasks = []
        decl = 0
        for i, (label, cls, width, defined, fold) in enumerate(ELEMENTS):
            if not hasattr(cls, "from_bits"):
                continue
            tasks += [(i, lo, hi) for lo, hi in par.chunks(1 << width, 16 if width >= 7 else 2)]
            decl += (1 << width) ** 2
        s.declared = decl
        for acc in par.pmap(w_element_pairs, tasks, nw):
            s.merge(acc)
        s.done()

    # ---- 2. fields -> bits -> fields ----------------------------------------------------------
    kinds = all_kinds()
    for k in kinds:
        KINDS[k.name] = k
    families = []
    for k in kinds:
        if k.family not in families:
            families.append(k.family)
    for fam in families:
        sub = fam + "_fields"
        if not want(sub):
            continue
        fk = [k for k in kinds if k.family == fam]
        s = rep.sub(sub, "per PDU kind the full product of per-field alphabets when <= %d cases, else every base assignment "
                         "(all-first, all-last, seed-chosen) with each field over its full alphabet (every value for <= 8 bit, "
                         "boundary + walking ones/zeros for wider, all unit vectors + complements for payloads, all defined members "
                         "for enumerations) plus all pairs of fields over %s alphabets; cases are duplicate-free field vectors"
                    % (FULL_PRODUCT_LIMIT[tier], "full" if tier == "thorough" else "boundary-reduced"))
        tasks = []
        decl = 0
        sizes = {}
        for k in fk:
            CASES[k.name] = kind_cases(k, tier)
            n = len(CASES[k.name])
            sizes[k.name] = n
            decl += n
            tasks += [(k.name, lo, hi) for lo, hi in par.chunks(n, max(1, min(32, n // 200)))]
        s.declared = decl
        s.extra["cases_per_kind"] = sizes
        for acc in par.pmap(w_fields, tasks, nw):
            s.merge(acc)
        s.done()
        rep.log(f"{sub}: {decl} cases, {len(s.viol)} violation signatures, {s.wall}s")

    # ---- 3. GPS raw codes ---------------------------------------------------------------------
    if want("gps_codes"):
        s = rep.sub("gps_codes",
                    "GPS Info raw codes through from_bits/as_bits: " +
                    ("all 2^25 longitude codes and all 2^24 latitude codes, the other axis at 2 base codes"
                     if tier == "thorough" else
                     "structured subset (|n| < 2^12, +-2^k, +-2^k+-1, extremes) of both axes, the other axis at 2 base codes")
                    + "; plus off-grid floats through the constructor (|decode(encode(x)) - x| < one step)")
        tasks = []
        decl = 0
        others = {"lon": [0, 0x800001], "lat": [0, 0x1000001]}  # codes of the *other* axis
        for axis, width in (("lon", 25), ("lat", 24)):
            if tier == "thorough":
                for oi, other in enumerate(others[axis]):
                    if oi == 0:
                        tasks += [(axis, lo, hi, None, other) for lo, hi in par.chunks(1 << width, 256)]
                        decl += 1 << width
                    else:
                        codes = gps_quick_codes(width)
                        tasks += [(axis, lo, hi, codes, other) for lo, hi in par.chunks(len(codes), 16)]
                        decl += len(codes)
            else:
                codes = gps_quick_codes(width)
                for other in others[axis]:
                    tasks += [(axis, lo, hi, codes, other) for lo, hi in par.chunks(len(codes), 16)]
                    decl += len(codes)
        for acc in par.pmap(w_gps, tasks, nw):
            s.merge(acc)
        for axis, step, x in gps_float_cases():
            case = {"axis": axis, "value": x}
            try:
                kw = dict(protect_flag=0, flco=FLCOs.GPSInfo, fid=FeatureSetIDs.StandardizedFID, crc=ba("0" * 24),
                          position_error=PositionError.LessThan2m, longitude=x if axis == "lon" else 0.0,
                          latitude=x if axis == "lat" else 0.0)
                o = FullLinkControl(**kw)
                b = o.as_bits()
                back = FullLinkControl.from_bits(b)
                got = back.longitude if axis == "lon" else back.latitude
                if len(b) != 96:
                    s.violation(f"gps_{axis}:float_wrong_length", case)
                if abs(got - x) >= step:
                    s.violation(f"gps_{axis}:float_off_by_more_than_a_step", {**case, "decoded": got}, "quantisation error >= one step")
                if back.as_bits() != b:
                    s.violation(f"gps_{axis}:float_second_encode_differs", case)
            except Exception as e:
                s.violation(f"gps_{axis}:exception:" + exc_sig(e), case, repr(e))
            s.case(nontrivial=True, calls=4, outcome=(axis, "float"))
            decl += 1
        s.declared = decl
        s.done()
        rep.log(f"gps_codes: {decl} cases, {s.wall}s")

    # ---- 4. arbitrary bit strings ---------------------------------------------------------------
    if want("arbitrary_bits"):
        s = rep.sub("arbitrary_bits",
                    "for every parser (CSBK, data header, full LC 96/77, short LC, PI header, 3 rates x 5 typed variants + "
                    "from_bits, UDP/IPv4 at 40/56/72/96 bits): every opcode/format prefix x {0, ~0, all vectors of weight <= w and "
                    "complements, 0x55/0xAA fills, walking byte patterns 0xFF/0xA5/0x5A, one seed word}, w = 1 (quick) / 2 for "
                    "unprefixed or <= 16-prefix parsers (thorough); oracle: documented error, or re-encoding has the input "
                    "length and is a fixed point of decode-then-encode")
        ARB.clear()
        ARB.extend(arbitrary_parsers(tier == "thorough"))
        tasks = []
        decl = 0
        # parse direction of every enumerated field: from the bits of every PDU kind built at its base values, every field of <= 8 bits
        # over all 2^w raw values (defined or not), the rest of the PDU untouched
        extra_inputs = {}
        fam_label = {"csbk": "csbk", "data_header": "data_header", "short_lc": "short_lc"}
        for k_ in all_kinds():
            try:
                base_bits = k_.build({n_: k_.alpha[n_][0] for n_ in k_.fields}).as_bits().to01()
            except Exception:  # noqa: BLE001
                continue
            lab = fam_label.get(k_.family) or ({96: "full_lc_96", 77: "full_lc_77"}.get(len(base_bits)) if k_.family == "full_lc" else None)
            if lab is None:
                continue
            for f_, w_ in k_.widths.items():
                if w_ > 8:
                    continue
                pos = [i for i, o in enumerate(k_.owner) if o == f_]
                if len(pos) != w_ or pos != list(range(pos[0], pos[0] + w_)):
                    continue
                for v in range(1 << w_):
                    extra_inputs.setdefault(lab, set()).add(base_bits[:pos[0]] + bits_of(v, w_) + base_bits[pos[0] + w_:])
                # ... and with every other narrow field at each of its defined (alphabet) values: a raw value of one field is often only
                # looked at for particular values of another (NACK reason / service type)
                budget = 20000
                for g_, wg in k_.widths.items():
                    if g_ == f_ or wg > 8 or budget <= 0:
                        continue
                    posg = [i for i, o in enumerate(k_.owner) if o == g_]
                    if len(posg) != wg or posg != list(range(posg[0], posg[0] + wg)):
                        continue
                    for gv in list(k_.alpha[g_])[:16]:
                        if not isinstance(gv, int) or gv >= (1 << wg):
                            continue
                        bb = base_bits[:posg[0]] + bits_of(gv, wg) + base_bits[posg[0] + wg:]
                        for v in range(1 << w_):
                            extra_inputs.setdefault(lab, set()).add(bb[:pos[0]] + bits_of(v, w_) + bb[pos[0] + w_:])
                        budget -= 1 << w_
        for i, entry in enumerate(ARB):
            ARB_INPUTS[entry[0]] = arb_inputs(entry)
            have = set(ARB_INPUTS[entry[0]])
            ARB_INPUTS[entry[0]] += sorted(x for x in extra_inputs.get(entry[0], ()) if x not in have)
            n = len(ARB_INPUTS[entry[0]])
            decl += n
            tasks += [(i, lo, hi) for lo, hi in par.chunks(n, max(1, min(32, n // 300)))]
        s.declared = decl
        for acc in par.pmap(w_arbitrary, tasks, nw):
            s.merge(acc)
        s.done()
        rep.log(f"arbitrary_bits: {decl} cases, {s.wall}s")

    # ---- 5. typed views of one rate block, reached by converting an earlier view ------------------------
    if want("typed_view_conversions"):
        s = rep.sub("typed_view_conversions",
                    "3 rates x {0, ~0, all vectors of weight 1 and complements, walking bytes, 4 seed words} x all ordered pairs (T1, T2) of the typed "
                    "views (+ the untyped from_bits view as T1): from_bits_typed(bits, T1).convert(T2) has the bits, the public fields and the "
                    "verdicts of from_bits_typed(bits, T2); converting there and back gives the first view again")

        def w_conv(task):
            rn, vecs = task
            cls, T, L = RATES[rn]
            acc = Acc()
            types = list(T)
            for bits01 in vecs:
                for t1 in [None] + types:
                    try:
                        first = cls.from_bits(bitarray(bits01)) if t1 is None else cls.from_bits_typed(bitarray(bits01), t1)
                    except Exception:  # noqa: BLE001  (a view that does not exist for this block: nothing to convert)
                        continue
                    for t2 in types:
                        case = {"rate": rn, "bits": hex(int(bits01, 2)), "first_view": getattr(t1, "name", "from_bits"), "converted_to": t2.name}
                        try:
                            direct = cls.from_bits_typed(bitarray(bits01), t2)
                        except Exception:  # noqa: BLE001
                            continue
                        try:
                            conv = first.convert(t2)
                            want_f = {k: repr(v) for k, v in vars(direct).items() if not k.startswith("_")}
                            got_f = {k: repr(v) for k, v in vars(conv).items() if not k.startswith("_")}
                            if conv.as_bits() != direct.as_bits():
                                acc.violation(f"{rn}:converted_view_serialises_differently", {**case, "converted": conv.as_bits().to01(), "direct": direct.as_bits().to01()},
                                              "a rate block decoded as T1 and converted to T2 serialises to other bits than the same block decoded as T2")
                            elif got_f != want_f:
                                bad = sorted(k for k in want_f if got_f.get(k) != want_f[k])
                                acc.violation(f"{rn}:converted_view_fields_differ:" + "+".join(bad), {**case, "converted": {k: got_f.get(k) for k in bad}, "direct": {k: want_f[k] for k in bad}})
                            if t1 is not None:
                                back = conv.convert(t1)
                                if back.as_bits() != first.as_bits():
                                    acc.violation(f"{rn}:conversion_there_and_back_differs", case)
                        except Exception as e:  # noqa: BLE001
                            acc.violation(f"{rn}:exception_convert:" + exc_sig(e), case, repr(e))
                        acc.case(nontrivial=True, calls=4, outcome=(rn, t2.name), sample=case if len(acc.samples) < 1 else None)
            return acc

        # content coincidence: an unconfirmed block whose user data happens to begin with what a confirmed block begins with (a tunnelled
        # confirmed block): the untyped and the unconfirmed view still see L bits of user data
        for rn, (cls, T, L) in RATES.items():
            for dbsn in (0, 1, 0x55, 0x7F):
                for j in range(3):
                    rest = env.det_bytes(f"c03-coincide-{rn}-{dbsn}-{j}", (L - 16) // 8)
                    case = {"rate": rn, "dbsn": dbsn, "rest": rest.hex()}
                    try:
                        inner = cls(data=rest, dbsn=dbsn, packet_type=T.Confirmed).as_bits()
                        outer = cls(data=inner.tobytes(), packet_type=T.Unconfirmed)
                        ob = outer.as_bits()
                        for how, back in (("from_bits", cls.from_bits(bitarray(ob))), ("from_bits_typed(Unconfirmed)", cls.from_bits_typed(bitarray(ob), T.Unconfirmed))):
                            if bytes(back.data) != inner.tobytes() or back.as_bits() != ob:
                                s.violation(f"{rn}:unconfirmed_block_that_looks_like_a_confirmed_one_is_decoded_differently:{how}",
                                            {**case, "packet_type": back.packet_type.name, "data_octets": len(back.data)},
                                            "an unconfirmed block built from fields whose user data begins with a valid serial number + CRC-9 does not parse back to its user data")
                    except Exception as e:  # noqa: BLE001
                        s.violation(f"{rn}:exception_coincidence:" + exc_sig(e), case, repr(e))
                    s.case(nontrivial=True, calls=4, outcome=(rn, "coincidence"))
        tasks = []
        for rn, (cls, T, L) in RATES.items():
            vecs = spaces.small_scope_messages(L, 1, extra=[env.det_bits(f"c03-conv-{rn}-{i}", L) for i in range(4)] + [("11111111" + "00000000") * (L // 16), ("10100101") * (L // 8)])
            tasks += [(rn, ch) for ch in par.split_list(vecs, 8)]
        for acc in par.pmap(w_conv, tasks, nw):
            s.merge(acc)
        s.done()

    rep.bounds = {
        "elements": "all 2^w values, w <= 8; 10 SYNC constants + 480 single-bit neighbours",
        "pdu_fields": "full products <= %d else one-at-a-time + all pairs over %s alphabets on %s bases"
                      % (FULL_PRODUCT_LIMIT[tier], "full" if tier == "thorough" else "reduced", "4" if tier == "thorough" else "3 (pairs on 2)"),
        "gps": "all 2^25 + 2^24 codes" if tier == "thorough" else "structured subset (~8.3k codes per axis)",
        "arbitrary_bits": "weight <= %d from each prefix base" % (2 if tier == "thorough" else 1),
        "not_covered": "wide (>8 bit) fields only at boundary/walking values; interactions of >= 3 fields; arbitrary strings of weight > 2",
    }
    return rep.finish()


def replay(doc):
    """re-run the stored cases of a replay file and print what happens"""
    for k in all_kinds():
        KINDS[k.name] = k
    still = 0
    for case in doc.get("cases", []):
        acc = Acc()
        if "kind" in case and "values" in case:
            vals = {k: (int(v, 16) if isinstance(v, str) else v) for k, v in case["values"].items()}
            detail = {}
            out = roundtrip_case(KINDS[case["kind"]], vals, acc, detail)
            print("case", case["kind"], vals, "->", out)
            for kk, vv in detail.items():
                print("   ", kk, vv)
        elif "parser" in case:
            ARB.clear()
            ARB.extend(arbitrary_parsers(True))
            idx = [i for i, e in enumerate(ARB) if e[0] == case["parser"]][0]
            ARB_INPUTS[case["parser"]] = [case["bits"]]
            acc = w_arbitrary((idx, 0, 1))
            print("case", case["parser"], case["bits"])
        elif "element" in case and isinstance(case.get("value"), int):
            for e in ELEMENTS:
                if e[0] == case["element"]:
                    print("case", case, "->", element_case(*e, case["value"], acc))
        elif "axis" in case and "code" in case:
            acc = w_gps((case["axis"], 0, 1, [case["code"]], 0))
        for sig, (cnt, cs, what) in acc.viol.items():
            print("  STILL FAILS:", sig, what)
            still = 1
    return still

"""C12 -- Hytera HDAP / HRNP / HSTRP framing and re-encoding (RRS, LP, TMP, RCP).

Technique: complete enumeration of explicitly bounded field spaces on the real classes.
For every implemented opcode (RRS 5, LP 2, TMP 8, RCP 18 incl. UnknownService) a PDU is
*built from a field vector*, serialised, walked by an independent frame walker written here,
parsed back by the library's generic entry point and serialised again; then the same PDU is
nested in HRNP (DATA) and in HSTRP (option TLV chain) and the wrappers are walked/parsed too.

Spaces (all enumerated completely, stable order, sizes declared):
  * per opcode: every base vector, every one-field and every two-field variation of two base
    vectors over the per-field alphabets (`spaces.one_at_a_time_and_pairs`), plus the full
    product of the (small) alphabets where it fits the tier's limit (LP report: full GPS product
    in the thorough tier);
  * HRNP: representative PDUs of every opcode x full product of the header field alphabets
    (version, block, source, destination, packet number incl. the packet number that drives the
    checksum to 0x0000) + the six data-less HRNP opcodes;
  * HSTRP: representative PDUs x every option list of 0..3 options over (type x data length)
    alphabets x flag bits x sequence numbers.

Oracle (independent of the library; the tables below are transcribed from the protocol
descriptions okdmr/kaitai/hytera/*.ksy and validated against the packets captured in the
repository tests -- sub-check `oracle_selftest_captures`):
  byte 0 = service | 0x80*reliable; bytes 1-2 opcode; bytes 3-4 = number of bytes between
  header and checksum in the service's endianness (big: RRS/LP/TMP, little: RCP); checksum
  = ((~sum(opcode..payload)) + 0x33) & 0xFF; last byte 0x03; len(p) == len(p.as_bytes());
  HRNP: 0x7E, version, block, opcode, source, destination, packet number BE, total length BE,
  16-bit ones-complement checksum, inner bytes; HSTRP: "2B", version, flag byte, 16-bit sequence
  number, (type | 0x80 if more, length, data)*, inner bytes.
  Round trip: X.from_bytes(b).as_bytes() == b and the named fields of the parsed object equal
  the field vector (reliable / confirmed / option flags, ids, request ids, UTF-16 text, GPS).
"""
from mc import env  # noqa: F401  (must be first)
from mc import par, spaces
from mc.report import Report, Acc, exc_sig
from mc.hist import scramble, observe

import datetime
import itertools
import sys

from okdmr.dmrlib.hytera.pdu.hdap import HDAP
from okdmr.dmrlib.hytera.pdu.hrnp import HRNP, HRNPOpcodes
from okdmr.dmrlib.hytera.pdu.hstrp import HSTRP, HSTRPPacketType, HSTRPOptions, HSTRPOptionType
from okdmr.dmrlib.hytera.pdu.radio_ip import RadioIP
from okdmr.dmrlib.hytera.pdu.radio_registration_service import (
    RadioRegistrationService,
    RRSTypes,
    RRSResult,
    RRSRadioState,
)
from okdmr.dmrlib.hytera.pdu.location_protocol import (
    LocationProtocol,
    LocationProtocolSpecificService,
    GPSData,
)
from okdmr.dmrlib.hytera.pdu.text_message_protocol import (
    TextMessageProtocol,
    TMPService,
    TMPResultCodes,
)
from okdmr.dmrlib.hytera.pdu.radio_control_protocol import (
    RadioControlProtocol,
    RCPOpcode,
    RCPCallType,
    RCPResult,
    RadioIpIdTarget,
    RepeaterMode,
    RepeaterStatus,
    RepeaterServiceType,
    StatusChangeNotificationTargets,
    StatusChangeNotificationSetting,
)
from okdmr.dmrlib.etsi.layer3.elements.talker_alias_data_format import TalkerAliasDataFormat

# ---------------------------------------------------------------------------------------------
# independent reference: frame walkers (no library code, no library tables)
# ---------------------------------------------------------------------------------------------
SERVICE = {"RCP": 0x02, "LP": 0x08, "TMP": 0x09, "RRS": 0x11}  # hytera_dmr_application_protocol.ksy
ENDIAN = {"RCP": "little", "LP": "big", "TMP": "big", "RRS": "big"}

# opcode tables transcribed from radio_registration_service.ksy / location_protocol.ksy /
# text_message_protocol.ksy / radio_control_protocol.ksy (member *names* are the library's)
RRS_OP = {
    "RadioRegistrationRequest": 0x03,
    "RadioRegistrationAnswer": 0x80,
    "RadioGoingOffline": 0x01,
    "RegistrationStatusCheckRequest": 0x02,
    "RegistrationStatusCheckAnswer": 0x82,
}
LP_OP = {"StandardRequest": 0xA001, "StandardReport": 0xA002}
TMP_OP = {
    "SendPrivateMessage": 0xA1,
    "SendPrivateMessageAck": 0xA2,
    "SendGroupMessage": 0xB1,
    "SendGroupMessageAck": 0xB2,
    "PrivateShortData": 0xAE,
    "PrivateShortDataAck": 0xAF,
    "GroupShortData": 0xBE,
    "GroupShortDataAck": 0xBF,
}
RCP_OP = {
    "CallRequest": 0x0841,
    "CallReply": 0x8841,
    "RepeaterBroadcastTransmitStatus": 0xB845,
    "BroadcastMessageConfigurationRequest": 0x1847,
    "BroadcastMessageConfigurationReply": 0x8847,
    "RadioIDAndRadioIPQueryRequest": 0x0452,
    "RadioIDAndRadioIPQueryReply": 0x8452,
    "BroadcastStatusConfigurationRequest": 0x10C9,
    "BroadcastStatusConfigurationReply": 0x80C9,
    "SendTalkerAliasRequest": 0x0852,
    "SendTalkerAliasReply": 0x8852,
    "ZoneAndChannelOperationRequest": 0x00C4,
    "ZoneAndChannelOperationReply": 0x80C4,
    "StatusChangeNotificationRequest": 0x10C7,
    "StatusChangeNotificationReply": 0x80C7,
    "RadioStatusReport": 0xB0C8,
}


def hdap_checksum(checked: bytes) -> int:
    """one byte over opcode, length and payload: ((~sum) + 0x33) mod 256"""
    return ((~sum(checked)) + 0x33) & 0xFF


def walk_hdap(b: bytes, family: str, reliable: bool, opcode_bytes: bytes):
    """returns list of problem kinds of the HDAP frame `b` (empty list = well-formed)"""
    out = []
    if len(b) < 7:
        return ["frame_shorter_than_7_bytes"]
    if b[0] != (SERVICE[family] | (0x80 if reliable else 0)):
        out.append("service_byte")
    if b[1:3] != opcode_bytes:
        out.append("opcode_bytes")
    if int.from_bytes(b[3:5], ENDIAN[family]) != len(b) - 7:
        out.append("length_field")
    if b[-2] != hdap_checksum(b[1:-2]):
        out.append("checksum")
    if b[-1] != 0x03:
        out.append("terminator")
    return out


def hrnp_checksum(frame: bytes) -> int:
    """16-bit ones-complement of the ones-complement sum of the frame without its checksum
    field (bytes 10-11), zero padded to an even length. s mod 0xFFFF formulation."""
    data = frame[:10] + frame[12:]
    if len(data) & 1:
        data += b"\x00"
    s = 0
    for i in range(0, len(data), 2):
        s += (data[i] << 8) | data[i + 1]
    r = s % 0xFFFF
    if r == 0 and s != 0:
        r = 0xFFFF
    return (~r) & 0xFFFF


def walk_hrnp(b: bytes, version, block, opcode, source, destination, packet_number, inner: bytes):
    out = []
    if len(b) < 12:
        return ["hrnp_shorter_than_12_bytes"]
    if b[0] != 0x7E:
        out.append("hrnp_header_byte")
    if b[1] != version:
        out.append("hrnp_version")
    if b[2] != block:
        out.append("hrnp_block_number")
    if b[3] != opcode:
        out.append("hrnp_opcode")
    if b[4] != source or b[5] != destination:
        out.append("hrnp_source_destination")
    if int.from_bytes(b[6:8], "big") != packet_number:
        out.append("hrnp_packet_number")
    if int.from_bytes(b[8:10], "big") != len(b):
        out.append("hrnp_length_field")
    if int.from_bytes(b[10:12], "big") != hrnp_checksum(b):
        out.append("hrnp_checksum")
    if b[12:] != inner:
        out.append("hrnp_inner_bytes")
    return out


HSTRP_OPT = {"RTP": 1, "DeviceID": 3, "ChannelID": 4, "XPTSiteID": 5, "XPTIndex": 6, "XPTChannelType": 7}
# flag byte (reserved, reserved, option, reject, close, connect, heartbeat, ack)
HSTRP_FLAG = {"have_options": 0x20, "is_reject": 0x10, "is_close": 0x08, "is_connect": 0x04, "is_heartbeat": 0x02, "is_ack": 0x01}


def build_hstrp_ref(version, flags, sn, options, inner: bytes) -> bytes:
    """reference writer: options = [(type_name, data_bytes)]"""
    fb = 0
    for k, v in flags.items():
        if v:
            fb |= HSTRP_FLAG[k]
    out = b"2B" + bytes([version, fb]) + sn.to_bytes(2, "big")
    for i, (t, d) in enumerate(options):
        more = 0x80 if i < len(options) - 1 else 0
        out += bytes([HSTRP_OPT[t] | more, len(d)]) + d
    return out + inner


# ---------------------------------------------------------------------------------------------
# captured packets (from okdmr/tests/dmrlib/hytera/pdu/*.py) -- validate the walkers
# ---------------------------------------------------------------------------------------------
CAPTURED_HDAP = [
    "02040005006400000001c403",
    "0204800600000f690600012903",
    "02c910050002000101014f03",
    "0241080500006f0000007503",
    "024108050000d20400000e03",
    "0241880100006803",
    "0245b810000100040004000000fd080000fa372300c303",
    "0245b81000010005000000000000000000000000001F03",
    "02471808000000000000000000cb03",
    "02471808000700000000000000c403",
    "0247880100006203",
    "025284060000010A0003E95F03",
    "02528406000000E90300006A03",
    "02c7100900040b010601050012012303",
    "02c8b003000b0400a803",
    "0980a10022000000010a01b2070a03640e4f004c004900560045005200200054004500530054007a03",
    "0980a2000D000000010a01b2070a030000003103",
    "09c0a200120003000000020a01b2070a03000000010203e203",
    "0980B1001400000001000000010A000835610068006F006A000203",
    "08a0020032000000010a2110dd0000413138333634383236313031354e343731382e383035314530313835342e34333837302e313132310b03",
    "08a002003200000003002337fb0000410000000000000000000000004e353030332e383737314530313432362e353330320000000000007003",
    "9100800009" "0a000050" "00" "00000e10" "3103",
    "91000200040a0000140e03",
    "11008200050a00002100" "8003",
    "11000300040a000064bd03",
]
CAPTURED_HRNP = [
    "7e0400fe20100000000c60e1",
    "7e0300fe20100000000c60e2",
    "7e0400002010000100189b6002040005006400000001c403",
    "7e040000102000010019d6240204800600000f690600012903",
    "7e0400fd10200000000c70d2",
    "7e030000201000000018fefe02c910050002000101014f03",
    "7e04000020100000001873890241080500006f0000007503",
    "7E04001010200001000C71BE",
    "7e04000020100001001b43b502471808000700000000000000c403",
    "7E040000102000010014857A0247880100006203",
    "7E040000102000030019FDF9025284060000010A0003E95F03",
    "7E040000102000020019E41402528406000000E90300006A03",
    "7E04000010200004002767790980B1001400000001000000010A000835610068006F006A000203",
    "7e04000020100000001c03f502c7100900040b010601050012012303",
    "7e04000020100000001602fb02c8b003000b0400a803",
]
# (hex, [(option type, data hex)], offset of the inner HDAP)
CAPTURED_HSTRP = [
    ("32420020000183040001869f04010211000300040a000064bd03", [("DeviceID", "0001869f"), ("ChannelID", "02")]),
    ("324200000001024108050000d20400000e03", []),
    ("32420020001383040001869f0401010241880100006803", [("DeviceID", "0001869f"), ("ChannelID", "01")]),
    ("32420020000b830400066b0e0401010245b810000100040004000000fd080000fa372300c303", [("DeviceID", "00066b0e"), ("ChannelID", "01")]),
]
SERVICE_REV = {v: k for k, v in SERVICE.items()}


# ---------------------------------------------------------------------------------------------
# field alphabets
# ---------------------------------------------------------------------------------------------
def uniq(seq):
    seen = set()
    out = []
    for v in seq:
        if v not in seen:
            seen.add(v)
            out.append(v)
    return out


def alphabets(thorough: bool):
    A = {}
    A["bool"] = [False, True]
    A["id24"] = (
        uniq(spaces.field_alphabet(24) + [0x010203, env.det_int("c12.id24", 24)])
        if thorough
        else uniq([1001, 0, 1, 2, 0x7FFFFF, 0x800000, 0xFFFFFF, 0xFFFFFE, 0xFF, 0xFF00, 0xFF0000, 0x010203, env.det_int("c12.id24", 24)])
    )
    A["subnet"] = list(range(256)) if thorough else [10, 0, 1, 0x7F, 0x80, 0xFF]
    # TMP / LP carry several wide fields: boundary + walking-bit subnets there (RRS takes all 256)
    A["subnet_w"] = uniq([10] + spaces.field_alphabet(8, full_upto=0)) if thorough else A["subnet"]
    A["u32"] = (
        uniq(spaces.field_alphabet(32) + [0x01020304, env.det_int("c12.u32", 32)])
        if thorough
        else uniq([1, 0, 2, 0x7FFFFFFF, 0x80000000, 0xFFFFFFFF, 0xFFFFFFFE, 0xFF, 0xFF00, 0xFF0000, 0xFF000000, 0x01020304, env.det_int("c12.u32", 32)])
    )
    A["u16"] = (
        uniq(spaces.field_alphabet(16) + [0x0102, env.det_int("c12.u16", 16)])
        if thorough
        else uniq([0, 1, 2, 4, 0x7FFF, 0x8000, 0xFFFF, 0xFFFE, 0xFF, 0xFF00, 0x0102, env.det_int("c12.u16", 16)])
    )
    A["u8"] = list(range(256)) if thorough else [0, 1, 2, 7, 0x7F, 0x80, 0xFE, 0xFF]
    # RRS renewal period: the constructor documents 1..0xFFFE
    A["renew"] = uniq([3600, 1, 2, 0xFF, 0x100, 0x7FFF, 0x8000, 0xFFFD, 0xFFFE] + ([1 << i for i in range(16)] if thorough else []))
    # text (TMP): empty, ASCII, BMP, astral (surrogate pair), 200 characters
    A["text"] = [
        "OLIVER TEST",
        "",
        "A",
        "Příliš žluťoučký",
        "中文�",
        "\U0001F600",
        "a\U0001F600b\U00010000",
        "\ufeffHello",
        "\ufeff",
        "\ufffe\ufeffx",
        # characters a "tolerant" reader likes to trim: NUL / blank / line ends at either end (they are text like any other)
        "abc\u0000",
        "\u0000abc",
        " abc ",
        "abc\r\n",
        "abc\u0000\u0000",
        "x" * 200,
        "�" * 200,
    ]
    sd = env.det_bytes("c12.short", 64)
    A["short_data"] = uniq(["a0b0", "", "00", "03", "ff", "00010203040506070809", sd[:33].hex(), (bytes(range(256)) * 2)[:300].hex()])
    od = env.det_bytes("c12.option", 255)
    # TMP option: "off" (no option), "on:None" (option flag, option_data left None), "on:<hex>"
    # "off:<hex>": option data handed over while the option flag is left at its default (off): nothing of it goes on the wire
    A["opt"] = ["off", "on:None", "on:", "on:01", "on:010203", "on:" + od.hex(), "off:0102"]
    return A


# ---------------------------------------------------------------------------------------------
# PDU kinds: builders from a field vector, expected header, observed/expected named fields
# ---------------------------------------------------------------------------------------------
class Kind:
    def __init__(self, family, name, fields, bases, build, opcode_bytes, expect, observe, product=None):
        self.family = family
        self.op = name
        self.name = f"{family}.{name}"
        # ordered dict: field -> alphabet; base values always belong to the alphabet (so a full product contains the pair space)
        self.fields = {n: uniq(list(a) + [b[n] for b in bases]) for n, a in fields.items()}
        self.bases = bases  # list of dicts
        self.build = build
        self.opcode_bytes = opcode_bytes  # fv -> bytes expected at offsets 1..2
        self.expect = expect  # fv -> dict of expected named field values after parsing
        self.observe = observe  # parsed pdu -> dict of the same names
        self.product = product  # optional: list of field names for the full-product space (others at base 0)


def _ip(subnet, rid):
    return RadioIP(radio_id=rid, subnet=subnet)


def _obs_ip(ip):
    return None if ip is None else (ip.subnet, ip.radio_id)


def make_kinds(thorough: bool):
    A = alphabets(thorough)
    kinds = []

    # ---------------- RRS -------------------------------------------------------------
    for op in RRS_OP:
        f = {"is_reliable": A["bool"], "subnet": A["subnet"], "radio_id": A["id24"]}
        b0 = {"is_reliable": False, "subnet": 10, "radio_id": 1001}
        b1 = {"is_reliable": True, "subnet": 0xFF, "radio_id": 0xFFFFFF}
        if op == "RadioRegistrationAnswer":
            f["result"] = [0, 1, 2]
            f["renew"] = A["renew"]
            b0.update(result=0, renew=3600)
            b1.update(result=2, renew=0xFFFE)
        if op == "RegistrationStatusCheckAnswer":
            f["state"] = [0, 1]
            b0.update(state=0)
            b1.update(state=1)

        def build(fv, op=op):
            kw = dict(opcode=RRSTypes[op], is_reliable=fv["is_reliable"], radio_ip=_ip(fv["subnet"], fv["radio_id"]))
            if "result" in fv:
                kw.update(result=RRSResult(fv["result"]), renew_time_seconds=fv["renew"])
            if "state" in fv:
                kw.update(radio_state=RRSRadioState(fv["state"]))
            return RadioRegistrationService(**kw)

        def expect(fv, op=op):
            e = {"is_reliable": fv["is_reliable"], "opcode": op, "radio_ip": (fv["subnet"], fv["radio_id"])}
            if "result" in fv:
                e.update(result=fv["result"], renew_time_seconds=fv["renew"])
            if "state" in fv:
                e.update(radio_state=fv["state"])
            return e

        def observe(q, op=op):
            o = {"is_reliable": q.is_reliable, "opcode": q.opcode.name, "radio_ip": _obs_ip(q.radio_ip)}
            if op == "RadioRegistrationAnswer":
                o.update(result=q.result.value, renew_time_seconds=q.renew_time_seconds)
            if op == "RegistrationStatusCheckAnswer":
                o.update(radio_state=q.radio_state.value)
            return o

        kinds.append(Kind("RRS", op, f, [b0, b1], build, lambda fv, op=op: bytes([0, RRS_OP[op]]), expect, observe))

    # ---------------- LP --------------------------------------------------------------
    gps_fields = {
        "valid": ["A", "V"],
        "ns": ["N", "S"],
        "ew": ["E", "W"],
        # DDMM.MMMM / DDDMM.MMMM, NMEA boundaries, at most 4 decimals (exactly representable in the field)
        "lat": [4718.8051, 0.0, 0.0001, 1.5, 8959.9999, 9000.0],
        "lon": [1854.4387, 0.0, 0.0001, 12345.6789, 17959.9999, 18000.0],
        # incl. values just below each change of digit count (rounding a formatted value must never widen the 3-character field)
        "speed": [0.1, 0.0, 0.5, 5.0, 9.9, 10.0, 12.5, 99.9, 100.0, 999.0, 9.94, 9.95, 9.99, 9.999, 0.94, 0.95, 0.99, 99.95, 99.99, 999.4],
        "direction": [121, 0, 1, 9, 10, 99, 100, 359],
        "time": ["183648", "none", "000000", "235959"],
        "date": ["261015", "none", "010100", "311299", "290224"],
    }
    gps_b0 = dict(valid="A", ns="N", ew="E", lat=4718.8051, lon=1854.4387, speed=0.1, direction=121, time="183648", date="261015")
    gps_b1 = dict(valid="V", ns="S", ew="W", lat=8959.9999, lon=17959.9999, speed=9.9, direction=359, time="none", date="none")

    def gps_build(fv):
        t = fv["time"]
        d = fv["date"]
        return GPSData(
            data_valid=fv["valid"],
            # the constructor takes `bytes` for "no fix time/date" (6 NUL bytes), a time/date object otherwise
            greenwich_time=b"\x00" * 6 if t == "none" else datetime.time(int(t[0:2]), int(t[2:4]), int(t[4:6])),
            greenwich_date=b"\x00" * 6 if d == "none" else datetime.date(2000 + int(d[4:6]), int(d[2:4]), int(d[0:2])),
            north_south=fv["ns"],
            latitude=fv["lat"],
            east_west=fv["ew"],
            longitude=fv["lon"],
            speed_knots=fv["speed"],
            direction=fv["direction"],
        )

    for op in LP_OP:
        f = {"is_reliable": A["bool"], "request_id": A["u32"], "subnet": A["subnet_w"], "radio_id": A["id24"]}
        b0 = {"is_reliable": False, "request_id": 1, "subnet": 10, "radio_id": 1001}
        b1 = {"is_reliable": True, "request_id": 0xFFFFFFFF, "subnet": 0xFF, "radio_id": 0xFFFFFF}
        product = None
        if op == "StandardReport":
            f["result"] = [0, 6, 105]
            f.update(gps_fields)
            b0.update(result=0, **gps_b0)
            b1.update(result=105, **gps_b1)
            product = list(gps_fields)

        def build(fv, op=op):
            kw = dict(
                opcode=LocationProtocolSpecificService[op],
                request_id=fv["request_id"],
                radio_ip=_ip(fv["subnet"], fv["radio_id"]),
                is_reliable=fv["is_reliable"],
            )
            if op == "StandardReport":
                kw.update(result=fv["result"], gpsdata=gps_build(fv))
            return LocationProtocol(**kw)

        def expect(fv, op=op):
            e = {"is_reliable": fv["is_reliable"], "opcode": op, "request_id": fv["request_id"], "radio_ip": (fv["subnet"], fv["radio_id"])}
            if op == "StandardReport":
                e["result"] = fv["result"]
                for k in ("valid", "ns", "ew", "lat", "lon", "direction", "time", "date", "speed"):
                    e["gpsdata." + k] = fv[k]
            return e

        def observe(q, op=op):
            o = {"is_reliable": q.is_reliable, "opcode": q.specific_service.name, "request_id": q.request_id, "radio_ip": _obs_ip(q.radio_ip)}
            if op == "StandardReport":
                g = q.gpsdata
                o["result"] = q.result.value
                o["gpsdata.valid"] = g.data_valid
                o["gpsdata.ns"] = g.north_south
                o["gpsdata.ew"] = g.east_west
                o["gpsdata.lat"] = g.latitude
                o["gpsdata.lon"] = g.longitude
                o["gpsdata.direction"] = g.direction
                o["gpsdata.time"] = "none" if g.greenwich_time is None else g.greenwich_time.strftime("%H%M%S")
                o["gpsdata.date"] = "none" if g.greenwich_date is None else "%02d%02d%02d" % (g.greenwich_date.day, g.greenwich_date.month, g.greenwich_date.year - 2000)
                o["gpsdata.speed"] = g.speed_knots
            return o

        kinds.append(Kind("LP", op, f, [b0, b1], build, lambda fv, op=op: LP_OP[op].to_bytes(2, "big"), expect, observe, product))

    # ---------------- TMP -------------------------------------------------------------
    for op in TMP_OP:
        is_msg = op in ("SendPrivateMessage", "SendGroupMessage")
        is_short = op in ("PrivateShortData", "GroupShortData")
        has_src = op not in ("SendGroupMessageAck", "GroupShortDataAck")
        f = {
            "is_reliable": A["bool"],
            "is_confirmed": A["bool"],
            "opt": A["opt"],
            "request_id": A["u32"],
            "dst_subnet": A["subnet_w"],
            "dst_id": A["id24"],
        }
        b0 = {"is_reliable": False, "is_confirmed": True, "opt": "off", "request_id": 1, "dst_subnet": 10, "dst_id": 1001}
        b1 = {"is_reliable": True, "is_confirmed": False, "opt": "on:010203", "request_id": 0xFFFFFFFF, "dst_subnet": 0, "dst_id": 0xFFFFFF}
        if has_src:
            f["src_subnet"] = A["subnet_w"]
            f["src_id"] = A["id24"]
            b0.update(src_subnet=10, src_id=1002)
            b1.update(src_subnet=0xFF, src_id=0xFFFFFE)
        if is_msg:
            f["text"] = A["text"]
            b0.update(text="OLIVER TEST")
            b1.update(text="a\U0001F600b\U00010000")
        elif is_short:
            f["short_data"] = A["short_data"]
            b0.update(short_data="a0b0")
            b1.update(short_data="00010203040506070809")
        else:
            f["result_code"] = [0x00, 0x01, 0x03, 0x04, 0x05, 0x06, 0x07, 0x08, 0x09, 0x0A, 0x0B, 0x0C]
            b0.update(result_code=0)
            b1.update(result_code=0x0C)

        def build(fv, op=op, is_msg=is_msg, is_short=is_short, has_src=has_src):
            opt = fv["opt"]
            kw = dict(
                opcode=TMPService[op],
                is_reliable=fv["is_reliable"],
                is_confirmed=fv["is_confirmed"],
                request_id=fv["request_id"],
                destination_ip=_ip(fv["dst_subnet"], fv["dst_id"]),
            )
            if opt.startswith("on"):
                kw["has_option"] = True
            elif opt == "off":
                kw["has_option"] = False
            if ":" in opt and opt != "on:None":
                kw["option_data"] = bytes.fromhex(opt.split(":", 1)[1])
            if has_src:
                kw["source_ip"] = _ip(fv["src_subnet"], fv["src_id"])
            if is_msg:
                kw["text_data"] = fv["text"]
            elif is_short:
                kw["short_data"] = bytes.fromhex(fv["short_data"])
            else:
                kw["result_code"] = TMPResultCodes(fv["result_code"])
            return TextMessageProtocol(**kw)

        def expect(fv, op=op, is_msg=is_msg, is_short=is_short, has_src=has_src):
            opt = fv["opt"]
            e = {
                "is_reliable": fv["is_reliable"],
                "is_confirmed": fv["is_confirmed"],
                "has_option": opt.startswith("on"),
                # zero-length option data: None and b"" are the same value
                "option_data": "" if (opt.startswith("off") or opt == "on:None") else opt[3:],
                "opcode": op,
                "request_id": fv["request_id"],
                "destination_ip": (fv["dst_subnet"], fv["dst_id"]),
            }
            if has_src:
                e["source_ip"] = (fv["src_subnet"], fv["src_id"])
            if is_msg:
                e["text_data"] = fv["text"].encode("utf-16-le").hex()
            elif is_short:
                e["short_data"] = fv["short_data"]
            else:
                e["result_code"] = fv["result_code"]
            return e

        def observe(q, op=op, is_msg=is_msg, is_short=is_short, has_src=has_src):
            o = {
                "is_reliable": q.is_reliable,
                "is_confirmed": q.is_confirmed,
                "has_option": q.has_option,
                "option_data": (q.option_data or b"").hex(),
                "opcode": q.opcode.name,
                "request_id": q.request_id,
                "destination_ip": _obs_ip(q.destination_ip),
            }
            if has_src:
                o["source_ip"] = _obs_ip(q.source_ip)
            if is_msg:
                o["text_data"] = q.text_data.hex()
            elif is_short:
                o["short_data"] = q.short_data.hex()
            else:
                o["result_code"] = q.result_code.value
            return o

        def opbytes(fv, op=op):
            return bytes([(0x80 if fv["is_confirmed"] else 0) | (0x40 if fv["opt"].startswith("on") else 0), TMP_OP[op]])

        # thorough sub-product: all flag / option / content combinations x request ids, addresses at both bases
        product = ["is_reliable", "is_confirmed", "opt", "request_id", "text" if is_msg else ("short_data" if is_short else "result_code")]
        kinds.append(Kind("TMP", op, f, [b0, b1], build, opbytes, expect, observe, product))

    # ---------------- RCP -------------------------------------------------------------
    def rcp_kind(op, fields, b0, b1, kwargs, exp, obs, opcode_bytes=None, product=None):
        f = {"is_reliable": A["bool"]}
        f.update(fields)
        b0 = dict(b0, is_reliable=False)
        b1 = dict(b1, is_reliable=True)

        def build(fv):
            return RadioControlProtocol(opcode=RCPOpcode[op], is_reliable=fv["is_reliable"], **kwargs(fv))

        def expect(fv):
            return dict(exp(fv), is_reliable=fv["is_reliable"], opcode=op)

        def observe(q):
            return dict(obs(q), is_reliable=q.is_reliable, opcode=q.opcode.name)

        ob = opcode_bytes or (lambda fv: RCP_OP[op].to_bytes(2, "little"))
        kinds.append(Kind("RCP", op, f, [b0, b1], build, ob, expect, observe, (["is_reliable"] + product) if product else None))

    ct = list(range(16))  # RCPCallType 0x00..0x0F all defined
    # UnknownService: opcodes that are in no table (the frame keeps opcode and payload untouched)
    rp = env.det_bytes("c12.rcp.raw", 100)
    rcp_kind(
        "UnknownService",
        {"raw_opcode": ["0400", "0480", "d482", "ffff", "0000", "0841", "0100"], "raw_payload": uniq(["6400000001", "", "00", "03", "0f690600", rp.hex(), (b"\x03" * 7).hex()])},
        {"raw_opcode": "0400", "raw_payload": "6400000001"},
        {"raw_opcode": "d482", "raw_payload": rp.hex()},
        lambda fv: dict(raw_opcode=bytes.fromhex(fv["raw_opcode"]), raw_payload=bytes.fromhex(fv["raw_payload"])),
        lambda fv: dict(raw_opcode=fv["raw_opcode"], raw_payload=fv["raw_payload"]),
        lambda q: dict(raw_opcode=q.raw_opcode.hex(), raw_payload=q.raw_payload.hex()),
        opcode_bytes=lambda fv: bytes.fromhex(fv["raw_opcode"]),
    )
    rcp_kind(
        "CallRequest",
        {"call_type": ct, "target_id": A["id24"]},
        {"call_type": 0, "target_id": 1234},
        {"call_type": 15, "target_id": 0xFFFFFF},
        lambda fv: dict(call_type=RCPCallType(fv["call_type"]), target_id=fv["target_id"]),
        lambda fv: dict(call_type=fv["call_type"], target_id=fv["target_id"]),
        lambda q: dict(call_type=q.call_type.value, target_id=q.target_id),
    )
    for op in ("CallReply", "BroadcastMessageConfigurationReply", "BroadcastStatusConfigurationReply", "StatusChangeNotificationReply"):
        rcp_kind(
            op,
            {"result": [0, 1]},
            {"result": 0},
            {"result": 1},
            lambda fv: dict(result=RCPResult(fv["result"])),
            lambda fv: dict(result=fv["result"]),
            lambda q: dict(result=q.result.value),
        )
    rcp_kind(
        "RepeaterBroadcastTransmitStatus",
        {
            "mode": [0, 1],
            "status": list(range(16)),
            "service": [0, 1, 2, 3, 4, 5, 6, 7, 0x1F],
            "call_type": ct,
            "target_id": A["id24"],
            "sender_id": A["id24"],
        },
        {"mode": 1, "status": 4, "service": 4, "call_type": 0, "target_id": 2301, "sender_id": 2308090},
        {"mode": 0, "status": 15, "service": 0x1F, "call_type": 15, "target_id": 0xFFFFFF, "sender_id": 0xFFFFFE},
        lambda fv: dict(
            repeater_mode=RepeaterMode(fv["mode"]),
            repeater_status=RepeaterStatus(fv["status"]),
            repeater_service_type=RepeaterServiceType(fv["service"]),
            call_type=RCPCallType(fv["call_type"]),
            target_id=fv["target_id"],
            sender_id=fv["sender_id"],
        ),
        lambda fv: dict(mode=fv["mode"], status=fv["status"], service=fv["service"], call_type=fv["call_type"], target_id=fv["target_id"], sender_id=fv["sender_id"]),
        lambda q: dict(
            mode=q.repeater_mode.value,
            status=q.repeater_status.value,
            service=q.repeater_service_type.value,
            call_type=q.call_type.value,
            target_id=q.target_id,
            sender_id=q.sender_id,
        ),
        product=["mode", "status", "service", "call_type"],
    )
    rcp_kind(
        "BroadcastMessageConfigurationRequest",
        {"broadcast_type": list(range(256))},
        {"broadcast_type": 7},
        {"broadcast_type": 0},
        lambda fv: dict(broadcast_type=fv["broadcast_type"]),
        lambda fv: dict(broadcast_type=fv["broadcast_type"]),
        lambda q: dict(broadcast_type=q.broadcast_type),
    )
    rcp_kind(
        "RadioIDAndRadioIPQueryRequest",
        {"target": [0, 1]},
        {"target": 0},
        {"target": 1},
        lambda fv: dict(target=RadioIpIdTarget(fv["target"])),
        lambda fv: dict(target=fv["target"]),
        lambda q: dict(target=q.radio_ip_id_target.value),
    )
    rv = env.det_bytes("c12.rcp.rawvalue", 4)
    rcp_kind(
        "RadioIDAndRadioIPQueryReply",
        {"result": [0, 1], "target": [0, 1], "raw_value": uniq(["e9030000", "0a0003e9", "00000000", "ffffffff", "03030303", "01020304", rv.hex()])},
        {"result": 0, "target": 0, "raw_value": "e9030000"},
        {"result": 1, "target": 1, "raw_value": "0a0003e9"},
        lambda fv: dict(result=RCPResult(fv["result"]), target=RadioIpIdTarget(fv["target"]), raw_value=bytes.fromhex(fv["raw_value"])),
        lambda fv: dict(result=fv["result"], target=fv["target"], raw_value=fv["raw_value"]),
        lambda q: dict(result=q.result.value, target=q.radio_ip_id_target.value, raw_value=q.raw_value.hex()),
    )
    # broadcast configuration: count byte n followed by n (function, setting) pairs
    bc = env.det_bytes("c12.rcp.bc", 254)
    rcp_kind(
        "BroadcastStatusConfigurationRequest",
        {"config": uniq(["0200010101", "00", "010001", "010101", "03000101010200", "7f" + bc.hex(), "02ffffffff"])},
        {"config": "0200010101"},
        {"config": "7f" + bc.hex()},
        lambda fv: dict(broadcast_config_raw=bytes.fromhex(fv["config"])),
        lambda fv: dict(config=fv["config"]),
        lambda q: dict(config=q.broadcast_config_raw.hex()),
    )
    al = env.det_bytes("c12.rcp.alias", 255)
    rcp_kind(
        "SendTalkerAliasRequest",
        {
            "call_type": ct,
            "sender_id": A["id24"],
            "target_id": A["id24"],
            "format": [0, 1, 2, 3],
            "alias": uniq(["4f4b2d444d52", "", "00", "03", al[:31].hex(), al.hex()]),
        },
        {"call_type": 0, "sender_id": 1002, "target_id": 1001, "format": 2, "alias": "4f4b2d444d52"},
        {"call_type": 15, "sender_id": 0xFFFFFF, "target_id": 0xFFFFFE, "format": 3, "alias": al[:31].hex()},
        lambda fv: dict(
            call_type=RCPCallType(fv["call_type"]),
            sender_id=fv["sender_id"],
            target_id=fv["target_id"],
            talker_alias_format=TalkerAliasDataFormat(fv["format"]),
            talker_alias_data=bytes.fromhex(fv["alias"]),
        ),
        lambda fv: dict(call_type=fv["call_type"], sender_id=fv["sender_id"], target_id=fv["target_id"], format=fv["format"], alias=fv["alias"]),
        lambda q: dict(call_type=q.call_type.value, sender_id=q.sender_id, target_id=q.target_id, format=q.talker_alias_data_format.value, alias=q.talker_alias_data.hex()),
        product=["call_type", "format", "alias"],
    )
    rcp_kind(
        "SendTalkerAliasReply",
        {"result": [0, 1], "call_type": ct, "sender_id": A["id24"], "target_id": A["id24"]},
        {"result": 0, "call_type": 0, "sender_id": 1002, "target_id": 1001},
        {"result": 1, "call_type": 15, "sender_id": 0xFFFFFF, "target_id": 0xFFFFFE},
        lambda fv: dict(result=RCPResult(fv["result"]), call_type=RCPCallType(fv["call_type"]), sender_id=fv["sender_id"], target_id=fv["target_id"]),
        lambda fv: dict(result=fv["result"], call_type=fv["call_type"], sender_id=fv["sender_id"], target_id=fv["target_id"]),
        lambda q: dict(result=q.result.value, call_type=q.call_type.value, sender_id=q.sender_id, target_id=q.target_id),
    )
    z5 = env.det_bytes("c12.rcp.zone5", 5)
    rcp_kind(
        "ZoneAndChannelOperationRequest",  # 1 byte operation, u2le zone, u2le channel
        {"raw_payload": uniq(["0001000100", "0000000000", "0100000000", "ffffffffff", "0303030303", z5.hex()])},
        {"raw_payload": "0001000100"},
        {"raw_payload": "ffffffffff"},
        lambda fv: dict(raw_payload=bytes.fromhex(fv["raw_payload"])),
        lambda fv: dict(raw_payload=fv["raw_payload"]),
        lambda q: dict(raw_payload=q.raw_payload.hex()),
    )
    z12 = env.det_bytes("c12.rcp.zone12", 12)
    rcp_kind(
        "ZoneAndChannelOperationReply",  # u4le result, u4le operation, u2le zone, u2le channel
        {"raw_payload": uniq(["000000000000000001000100", "00" * 12, "ff" * 12, "03" * 12, z12.hex()])},
        {"raw_payload": "000000000000000001000100"},
        {"raw_payload": "ff" * 12},
        lambda fv: dict(raw_payload=bytes.fromhex(fv["raw_payload"])),
        lambda fv: dict(raw_payload=fv["raw_payload"]),
        lambda q: dict(raw_payload=q.raw_payload.hex()),
    )
    # status change notification: ordered list of (target, setting); targets 0x00..0x1B, settings 0..2
    tg = list(range(0x1C))
    settings = ["0b01,0601,0500,1201", ""]
    settings += [f"{t:02x}{s:02x}" for t in tg for s in (0, 1, 2)]
    settings.append(",".join(f"{t:02x}{t % 3:02x}" for t in tg))
    settings.append(",".join(f"{t:02x}{(t + 1) % 3:02x}" for t in reversed(tg)))
    settings.append("0100,0001")

    def _settings(s):
        d = {}
        for item in [x for x in s.split(",") if x]:
            d[StatusChangeNotificationTargets(int(item[0:2], 16))] = StatusChangeNotificationSetting(int(item[2:4], 16))
        return d

    rcp_kind(
        "StatusChangeNotificationRequest",
        {"settings": uniq(settings)},
        {"settings": "0b01,0601,0500,1201"},
        {"settings": settings[-2]},
        lambda fv: dict(status_change_settings=_settings(fv["settings"])),
        lambda fv: dict(settings=fv["settings"]),
        lambda q: dict(settings=",".join(f"{t.value:02x}{s.value:02x}" for t, s in q.status_change_settings.items())),
    )
    rcp_kind(
        "RadioStatusReport",
        {"target": tg, "value": A["u16"]},
        {"target": 0x0B, "value": 4},
        {"target": 0x1B, "value": 0xFFFF},
        lambda fv: dict(status_change_target=StatusChangeNotificationTargets(fv["target"]), status_change_value=fv["value"]),
        lambda fv: dict(target=fv["target"], value=fv["value"]),
        lambda q: dict(target=q.status_change_target.value, value=q.status_change_value),
    )
    return kinds


# ---------------------------------------------------------------------------------------------
# spaces
# ---------------------------------------------------------------------------------------------
class ProductSpace:
    """full product of the alphabets of `names` (mixed radix index), other fields at `base`"""

    def __init__(self, fields, names, base):
        self.names = list(names)
        self.alph = [fields[n] for n in self.names]
        self.base = dict(base)
        self.size = spaces.product_size(self.alph)

    def __len__(self):
        return self.size

    def at(self, i):
        d = dict(self.base)
        for n, a in zip(reversed(self.names), reversed(self.alph)):
            i, r = divmod(i, len(a))
            d[n] = a[r]
        return d


class ListSpace:
    def __init__(self, items):
        self.items = items
        self.size = len(items)

    def __len__(self):
        return self.size

    def at(self, i):
        return self.items[i]


# ---------------------------------------------------------------------------------------------
# the oracle on one case
# ---------------------------------------------------------------------------------------------
SPEED_TOL_FROM = 10.0  # the 3-character field resolves 0.1 kn below 10 kn and 1 kn from 10 kn upwards


def field_equal(name, want, got):
    if name == "gpsdata.speed":
        try:
            if want < SPEED_TOL_FROM:
                # one decimal survives exactly; more decimals are cut to the field's 0.1 kn resolution
                return abs(float(got) - want) < (1e-9 if round(want, 1) == want else 0.1)
            return abs(float(got) - want) < 1.0
        except Exception:
            return False
    if name in ("gpsdata.lat", "gpsdata.lon"):
        try:
            return abs(float(got) - want) < 1e-9
        except Exception:
            return False
    if isinstance(want, tuple):
        return got is not None and tuple(got) == want
    if isinstance(want, bool) or isinstance(got, bool):
        return isinstance(want, bool) and isinstance(got, bool) and want == got
    return want == got


def check_bare(kind, fv):
    """returns (problems: list[(sig_suffix, detail)], pdu or None, bytes or None, ncalls)"""
    probs = []
    calls = 0
    try:
        p = kind.build(fv)
        calls += 1
    except Exception as e:
        return [("exception_build:" + exc_sig(e), repr(e))], None, None, calls
    try:
        b = p.as_bytes()
        calls += 1
    except Exception as e:
        return [("exception_serialise:" + exc_sig(e), repr(e))], p, None, calls
    if not isinstance(b, bytes):
        return [("as_bytes_not_bytes", type(b).__name__)], p, None, calls
    for w in walk_hdap(b, kind.family, fv["is_reliable"], kind.opcode_bytes(fv)):
        probs.append(("frame_" + w, b.hex()))
    try:
        n = len(p)
        calls += 1
        if n != len(b):
            probs.append(("len_differs_from_bytes_produced", f"len(p)={n} len(as_bytes)={len(b)}"))
    except Exception as e:
        probs.append(("exception_len:" + exc_sig(e), repr(e)))
    try:
        # history probe: a first parse whose result the caller then rewrites in place must not influence the next parse of the
        # same bytes (parse results cached / shared by the library)
        try:
            scramble(HDAP.from_bytes(b))
        except Exception:  # noqa: BLE001
            pass
        q = HDAP.from_bytes(b)
        calls += 1
    except Exception as e:
        probs.append(("exception_parse:" + exc_sig(e), repr(e) + " bytes=" + b.hex()))
        return probs, p, b, calls
    if type(q) is not type(p):
        probs.append(("parsed_class_differs", type(q).__name__))
        return probs, p, b, calls
    bytes_differ = False
    try:
        # looking at an object (repr, str, ==, len, hash) between two serialisations must not change it
        observe(p, light=True)
        observe(q, light=True)
        if p.as_bytes() != b:
            probs.append(("built_object_serialises_differently_after_being_looked_at", b.hex()))
        b2 = q.as_bytes()
        calls += 1
        bytes_differ = b2 != b
    except Exception as e:
        b2 = None
        probs.append(("exception_reserialise:" + exc_sig(e), repr(e) + " bytes=" + b.hex()))
    try:
        want = kind.expect(fv)
        got = kind.observe(q)
        bad = sorted(k for k in want if not field_equal(k, want[k], got.get(k)))
        detail = "; ".join(f"{k}: built {want[k]!r} parsed {got.get(k)!r}" for k in bad) + f" bytes={b.hex()}" + (f" reserialised={b2.hex()}" if bytes_differ else "")
        # one problem per case; the signature names exactly the fields that do not survive
        if bad and bytes_differ:
            probs.append(("round_trip_changes_bytes_and_fields:" + "+".join(bad), detail))
        elif bad:
            probs.append(("parsed_fields_differ_bytes_equal:" + "+".join(bad), detail))
        elif bytes_differ:
            probs.append(("reserialised_bytes_differ_fields_equal", detail))
    except Exception as e:
        probs.append(("exception_field_access:" + exc_sig(e), repr(e)))
    return probs, p, b, calls


def check_hrnp(kind, fv, p, inner, hv):
    """p nested in HRNP DATA with header vector hv; returns (problems, calls)"""
    probs = []
    calls = 0
    try:
        h = HRNP(
            opcode=HRNPOpcodes.DATA,
            data=p,
            source=hv["source"],
            destination=hv["destination"],
            block_number=hv["block"],
            packet_number=hv["packet_number"],
            version=hv["version"],
        )
        hb = h.as_bytes()
        n = len(h)
        calls += 3
    except Exception as e:
        return [("hrnp_exception_build:" + exc_sig(e), repr(e))], calls
    for w in walk_hrnp(hb, hv["version"], hv["block"], 0x00, hv["source"], hv["destination"], hv["packet_number"], inner):
        probs.append((w, hb.hex()))
    if n != len(hb):
        probs.append(("hrnp_len_differs_from_bytes_produced", f"{n} vs {len(hb)}"))
    try:
        # history probe: a first parse whose result the caller then rewrites in place must not influence the next parse of the
        # same bytes (parse results cached / shared by the library)
        try:
            scramble(HRNP.from_bytes(hb))
        except Exception:  # noqa: BLE001
            pass
        h2 = HRNP.from_bytes(hb)
        calls += 1
    except Exception as e:
        probs.append(("hrnp_exception_parse:" + exc_sig(e), repr(e) + " bytes=" + hb.hex()))
        return probs, calls
    try:
        if h2.checksum_correct is not True:
            probs.append(("hrnp_checksum_correct_false_after_parse", hb.hex()))
        observe(h, light=True)
        observe(h2, light=True)
        if h.as_bytes() != hb:
            probs.append(("hrnp_built_object_serialises_differently_after_being_looked_at", hb.hex()))
        hb2 = h2.as_bytes()
        calls += 1
        if hb2 != hb:
            probs.append(("hrnp_reserialised_bytes_differ", f"{hb.hex()} -> {hb2.hex()}"))
        got = (h2.version, h2.block_number, h2.opcode.value, h2.source, h2.destination, h2.packet_number, h2.checksum)
        want = (bytes([hv["version"]]), hv["block"], 0, hv["source"], hv["destination"], hv["packet_number"], hb[10:12])
        if got != want:
            probs.append(("hrnp_parsed_fields_differ", f"{got!r} vs {want!r}"))
        if not isinstance(h2.data, type(p)):
            probs.append(("hrnp_inner_class_differs", type(h2.data).__name__))
        else:
            w = kind.expect(fv)
            g = kind.observe(h2.data)
            bad = sorted(k for k in w if not field_equal(k, w[k], g.get(k)))
            if bad:
                probs.append(("hrnp_inner_fields_differ:" + "+".join(bad), hb.hex()))
            if h2.data.as_bytes() != inner:
                probs.append(("hrnp_inner_reserialised_differs", hb.hex()))
            calls += 1
    except Exception as e:
        probs.append(("hrnp_exception_after_parse:" + exc_sig(e), repr(e) + " bytes=" + hb.hex()))
    return probs, calls


def check_hstrp(kind, fv, p, inner, sv):
    """p nested in HSTRP; sv = {version, sn, flags{...}, options[[type, hex]...]}"""
    probs = []
    calls = 0
    opts = [(t, bytes.fromhex(d)) for t, d in sv["options"]]
    flags = dict(sv["flags"])
    flags["have_options"] = len(opts) > 0
    try:
        o = HSTRPOptions()
        for t, d in opts:
            o.add_option(HSTRPOptionType[t], d)
        s = HSTRP(pkt_type=HSTRPPacketType(**flags), sn=sv["sn"], options=o, payload=p, version=sv["version"])
        sb = s.as_bytes()
        calls += 2
    except Exception as e:
        return [("hstrp_exception_build:" + exc_sig(e), repr(e))], calls
    ref = build_hstrp_ref(sv["version"], flags, sv["sn"], opts, inner)
    if sb != ref:
        probs.append(("hstrp_bytes_differ_from_reference_writer", f"{sb.hex()} vs {ref.hex()}"))
    try:
        if len(o) != sum(2 + len(d) for _, d in opts):
            probs.append(("hstrp_options_len", str(len(o))))
    except Exception as e:
        probs.append(("hstrp_exception_len:" + exc_sig(e), repr(e)))
    try:
        # history probe: a first parse whose result the caller then rewrites in place must not influence the next parse of the
        # same bytes (parse results cached / shared by the library)
        try:
            scramble(HSTRP.from_bytes(sb))
        except Exception:  # noqa: BLE001
            pass
        s2 = HSTRP.from_bytes(sb)
        calls += 1
    except Exception as e:
        probs.append(("hstrp_exception_parse:" + exc_sig(e), repr(e) + " bytes=" + sb.hex()))
        return probs, calls
    try:
        observe(s, light=True)
        observe(s2, light=True)
        if s.as_bytes() != sb:
            probs.append(("hstrp_built_object_serialises_differently_after_being_looked_at", f"{sb.hex()} -> {s.as_bytes().hex()}"))
        sb2 = s2.as_bytes()
        calls += 1
        if sb2 != sb:
            probs.append(("hstrp_reserialised_bytes_differ", f"{sb.hex()} -> {sb2.hex()}"))
        gopts = [(t.name, d) for t, d in s2.options.options]
        if gopts != opts:
            probs.append(("hstrp_parsed_options_differ", f"{gopts!r} vs {opts!r}"))
        elif sb2 == sb:
            # the parsed datagram is forwarded with one more option (the caller edits the parsed object): the bytes follow the object
            s3 = HSTRP.from_bytes(sb)
            s3.options.add_option(HSTRPOptionType["ChannelID"], b"\x07")
            s3.pkt_type.have_options = True
            want3 = build_hstrp_ref(sv["version"], {**flags, "have_options": True}, sv["sn"], opts + [("ChannelID", b"\x07")], inner)
            got3 = s3.as_bytes()
            if got3 != want3:
                probs.append(("hstrp_option_added_to_a_parsed_datagram_is_not_serialised", f"{got3.hex()} vs {want3.hex()}"))
            elif len(s3.options) != sum(2 + len(d) for _, d in opts) + 3:
                probs.append(("hstrp_options_len_after_adding_to_parsed", str(len(s3.options))))
        pt = s2.pkt_type
        gflags = {k: getattr(pt, k) for k in HSTRP_FLAG}
        if gflags != flags or s2.sn != sv["sn"] or s2.version != sv["version"]:
            probs.append(("hstrp_parsed_fields_differ", f"{gflags} sn={s2.sn} v={s2.version}"))
        if not isinstance(s2.payload, type(p)):
            probs.append(("hstrp_inner_class_differs", type(s2.payload).__name__))
        else:
            w = kind.expect(fv)
            g = kind.observe(s2.payload)
            bad = sorted(k for k in w if not field_equal(k, w[k], g.get(k)))
            if bad:
                probs.append(("hstrp_inner_fields_differ:" + "+".join(bad), sb.hex()))
            if s2.payload.as_bytes() != inner:
                probs.append(("hstrp_inner_reserialised_differs", sb.hex()))
            calls += 1
    except Exception as e:
        probs.append(("hstrp_exception_after_parse:" + exc_sig(e), repr(e) + " bytes=" + sb.hex()))
    return probs, calls


HRNP_DEFAULT = {"version": 4, "block": 0, "source": 0x20, "destination": 0x10, "packet_number": 1}
HSTRP_DEFAULT = {
    "version": 0,
    "sn": 1,
    "flags": {"is_reject": False, "is_close": False, "is_connect": False, "is_heartbeat": False, "is_ack": False},
    "options": [["DeviceID", "0001869f"], ["ChannelID", "02"]],
}


def run_case(acc, kind, fv, nest=True, sample=False):
    probs, p, b, calls = check_bare(kind, fv)
    outcome = "bare_failed"
    if not probs and nest:
        pr, c = check_hrnp(kind, fv, p, b, HRNP_DEFAULT)
        probs += pr
        calls += c
        pr, c = check_hstrp(kind, fv, p, b, HSTRP_DEFAULT)
        probs += pr
        calls += c
    if not probs:
        outcome = f"{kind.name}/{len(b)}"
    for sig, detail in probs:
        acc.violation(f"{kind.name}|{sig}", {"kind": kind.name, "fv": fv}, detail[:700])
    acc.case(nontrivial=True, calls=max(calls, 1), outcome=outcome, sample={"kind": kind.name, "fv": fv, "bytes": b.hex() if b else None} if sample else None)


# ---------------------------------------------------------------------------------------------
# run
# ---------------------------------------------------------------------------------------------
KINDS = {}
SPACES = {}


def regroup_by_opcode(sub, family, n_kinds):
    """workers key violations as '<FAMILY>.<opcode>|<problem>'; the final signature names the problem once per family
    together with the exact set of opcodes showing it ('TMP[all 8]:...' or 'LP[StandardRequest]:...'), so the same
    problem turning up in one more opcode is a different signature"""
    groups = {}
    for sig, (cnt, cases, what) in list(sub.viol.items()):
        if "|" not in sig:
            continue
        kname, prob = sig.split("|", 1)
        g = groups.setdefault(prob, {"ops": [], "count": 0, "cases": [], "what": what})
        g["ops"].append(kname.split(".", 1)[1])
        g["count"] += cnt
        g["cases"] += cases[:2]
        del sub.viol[sig]
    for prob, g in groups.items():
        ops = sorted(set(g["ops"]))
        label = f"all {n_kinds}" if len(ops) == n_kinds and n_kinds > 1 else ",".join(ops)
        sub.viol[f"{family}[{label}]:{prob}"] = [g["count"], g["cases"][:5], g["what"]]


def w_fields(task):
    key, lo, hi, nest = task
    kind = KINDS[key[0]]
    sp = SPACES[key]
    acc = Acc()
    for i in range(lo, hi):
        run_case(acc, kind, sp.at(i), nest=nest, sample=(i == lo and lo == 0))
    return acc


def w_hrnp(task):
    lo, hi = task
    sp = SPACES["hrnp"]
    acc = Acc()
    for i in range(lo, hi):
        kname, fv, hv = sp.at(i)
        kind = KINDS[kname]
        probs, p, b, calls = check_bare(kind, fv)
        if probs:
            # reported by the per-family sub-check under its own signature
            acc.case(nontrivial=True, calls=calls, outcome="inner_fails_bare_check")
            continue
        pr, c = check_hrnp(kind, fv, p, b, hv)
        for sig, detail in pr:
            acc.violation(sig, {"kind": kname, "fv": fv, "hrnp": hv}, detail[:700])
        acc.case(nontrivial=True, calls=calls + c, outcome=("odd" if len(b) & 1 else "even", "ok" if not pr else "bad"), sample={"kind": kname, "hrnp": hv} if i == lo == 0 else None)
    return acc


def w_hstrp(task):
    lo, hi = task
    sp = SPACES["hstrp"]
    acc = Acc()
    for i in range(lo, hi):
        kname, fv, sv = sp.at(i)
        kind = KINDS[kname]
        probs, p, b, calls = check_bare(kind, fv)
        if probs:
            acc.case(nontrivial=True, calls=calls, outcome="inner_fails_bare_check")
            continue
        pr, c = check_hstrp(kind, fv, p, b, sv)
        for sig, detail in pr:
            acc.violation(sig, {"kind": kname, "fv": fv, "hstrp": sv}, detail[:700])
        acc.case(nontrivial=True, calls=calls + c, outcome=(len(sv["options"]), "ok" if not pr else "bad"), sample={"kind": kname, "hstrp": sv} if i == lo == 0 else None)
    return acc


def selftest_captures(rep):
    """the walkers must accept every captured packet of the repository tests (ground truth)"""
    s = rep.sub("oracle_selftest_captures", "every HDAP/HRNP/HSTRP packet captured in the repository tests, walked by the reference walkers (validates checksum rule, length endianness, TLV chain) and round-tripped by the library")
    s.declared = len(CAPTURED_HDAP) + len(CAPTURED_HRNP) + len(CAPTURED_HSTRP)
    for hx in CAPTURED_HDAP:
        b = bytes.fromhex(hx)
        fam = SERVICE_REV[b[0] & 0x7F]
        w = walk_hdap(b, fam, bool(b[0] & 0x80), b[1:3])
        if w:
            rep.internal_error(f"reference HDAP walker rejects captured packet {hx}: {w}")
        try:
            if HDAP.from_bytes(b).as_bytes() != b:
                s.violation("captured_hdap_not_reproduced", {"hex": hx})
        except Exception as e:
            s.violation("captured_hdap_exception:" + exc_sig(e), {"hex": hx}, repr(e))
        s.case(nontrivial=True, calls=2, outcome=fam, sample={"hex": hx} if hx == CAPTURED_HDAP[0] else None)
    for hx in CAPTURED_HRNP:
        b = bytes.fromhex(hx)
        w = walk_hrnp(b, b[1], b[2], b[3], b[4], b[5], int.from_bytes(b[6:8], "big"), b[12:])
        if w:
            rep.internal_error(f"reference HRNP walker rejects captured packet {hx}: {w}")
        try:
            h = HRNP.from_bytes(b)
            if h.as_bytes() != b or not h.checksum_correct:
                s.violation("captured_hrnp_not_reproduced", {"hex": hx})
        except Exception as e:
            s.violation("captured_hrnp_exception:" + exc_sig(e), {"hex": hx}, repr(e))
        s.case(nontrivial=True, calls=2, outcome="hrnp")
    for hx, opts in CAPTURED_HSTRP:
        b = bytes.fromhex(hx)
        ol = sum(2 + len(d) // 2 for _, d in opts)
        flags = {k: bool(b[3] & v) for k, v in HSTRP_FLAG.items()}
        ref = build_hstrp_ref(b[2], flags, int.from_bytes(b[4:6], "big"), [(t, bytes.fromhex(d)) for t, d in opts], b[6 + ol :])
        if ref != b:
            rep.internal_error(f"reference HSTRP writer does not reproduce captured packet {hx}")
        try:
            if HSTRP.from_bytes(b).as_bytes() != b:
                s.violation("captured_hstrp_not_reproduced", {"hex": hx})
        except Exception as e:
            s.violation("captured_hstrp_exception:" + exc_sig(e), {"hex": hx}, repr(e))
        s.case(nontrivial=True, calls=2, outcome="hstrp")
    # self-test of the ones-complement formulation against a plain end-around-carry loop
    for n in (0, 1, 2, 3, 255, 600):
        fr = bytes([0x7E, 4, 0, 0, 0x20, 0x10, 0, 1]) + (12 + n).to_bytes(2, "big") + b"\0\0" + (b"\xff\xfe" * n)[:n]
        d = fr[:10] + fr[12:] + (b"\0" if n & 1 else b"")
        t = 0
        for i in range(0, len(d), 2):
            t += int.from_bytes(d[i : i + 2], "big")
            t = (t & 0xFFFF) + (t >> 16)
        if ((~t) & 0xFFFF) != hrnp_checksum(fr):
            rep.internal_error("reference HRNP checksum formulations disagree")
    s.done()


def build_field_spaces(rep, kinds):
    """per kind: pairs space (always) + product space (where it fits the tier's limit)"""
    limit = 400_000 if rep.thorough() else 3_000
    plan = []
    for k in kinds:
        KINDS[k.name] = k
        names = list(k.fields)
        if spaces.product_size([k.fields[n] for n in names]) <= limit:
            # the full product contains every pair variation of the bases: enumerate it alone
            SPACES[(k.name, "product")] = ProductSpace(k.fields, names, k.bases[0])
            plan.append(((k.name, "product"), True))
            continue
        items = list(spaces.one_at_a_time_and_pairs(k.fields, k.bases))
        if k.product and rep.thorough():
            # stated sub-product (LP report: all GPS fields; TMP: flags x option x content x request id; RCP: enums), other fields at both bases;
            # pair-space vectors that lie inside a sub-product are enumerated there only (no case twice)
            rest = [n for n in names if n not in k.product]
            items = [fv for fv in items if not any(all(fv[n] == b[n] for n in rest) for b in k.bases)]
            for bi, base in enumerate(k.bases):
                SPACES[(k.name, f"product_b{bi}")] = ProductSpace(k.fields, k.product, base)
                plan.append(((k.name, f"product_b{bi}"), False))
        SPACES[(k.name, "pairs")] = ListSpace(items)
        plan.append(((k.name, "pairs"), True))
    return plan


def representatives(kinds):
    """(kind name, field vector) list used by the wrapper sub-checks: both bases of every kind + odd/even length variety"""
    reps = []
    for k in kinds:
        for b in k.bases:
            reps.append((k.name, b))
    return reps


def hrnp_space(rep, kinds):
    t = rep.thorough()
    reps = representatives(kinds)
    pn = uniq([0, 1, 2, 0x7FFF, 0x8000, 0xFFFF, 0xFFFE, 0xFF, 0x100, 0xFF00, env.det_int("c12.pn", 16)] + (spaces.field_alphabet(16) if t else []))
    srcdst = [(0x20, 0x10), (0x10, 0x20), (0, 0), (0xFF, 0xFF), (0x7F, 0x80), (0x30, 0x10)]
    if t:
        srcdst += [(a, 0x10) for a in (0x21, 0x2F, 0x01, 0xFE)] + [(0x20, a) for a in (0x01, 0xFE)]
    blocks = [0, 1, 0xFF] + ([0x80] if t else [])
    versions = [4, 0] + ([3] if t else [])
    items = []
    for (kname, fv), v, blk, (src, dst) in itertools.product(reps, versions, blocks, srcdst):
        for p in pn:
            items.append((kname, fv, {"version": v, "block": blk, "source": src, "destination": dst, "packet_number": p}))
        # adversarial packet number: the one that drives the ones-complement checksum to 0x0000 (sum 0xFFFF)
        items.append((kname, fv, {"version": v, "block": blk, "source": src, "destination": dst, "packet_number": "zero_checksum"}))
    return items


def resolve_zero_checksum(items):
    """replace the symbolic packet number by the value for which the reference checksum is 0x0000;
    needs the inner bytes, computed with the reference only when the inner PDU serialises"""
    out = []
    cache = {}
    for kname, fv, hv in items:
        if hv["packet_number"] == "zero_checksum":
            key = (kname, repr(sorted(fv.items(), key=lambda x: x[0])))
            if key not in cache:
                try:
                    cache[key] = KINDS[kname].build(fv).as_bytes()
                except Exception:
                    cache[key] = None
            inner = cache[key]
            if inner is None:
                hv = dict(hv, packet_number=0xABCD)
            else:
                fr = bytes([0x7E, hv["version"], hv["block"], 0, hv["source"], hv["destination"], 0, 0]) + (12 + len(inner)).to_bytes(2, "big") + b"\0\0" + inner
                c = hrnp_checksum(fr)  # = ~sum  with packet number 0
                # sum' = sum + pn must be 0xFFFF (mod 0xFFFF arithmetic) -> pn = c (since sum = ~c)
                hv = dict(hv, packet_number=c if c != 0 else 0xFFFF)
        out.append((kname, fv, hv))
    seen = set()
    ded = []
    for it in out:
        k = repr(it)
        if k not in seen:
            seen.add(k)
            ded.append(it)
    return ded


_INNER_CACHE = {}


def _ref_hrnp_checksum_is_zero(kname, fv, hv):
    """reference-only: does the frame built from (inner PDU bytes, header vector) carry checksum 0x0000?"""
    key = (kname, repr(sorted(fv.items())))
    if key not in _INNER_CACHE:
        try:
            _INNER_CACHE[key] = KINDS[kname].build(fv).as_bytes()
        except Exception:
            _INNER_CACHE[key] = None
    inner = _INNER_CACHE[key]
    if inner is None:
        return False
    fr = bytes([0x7E, hv["version"], hv["block"], 0, hv["source"], hv["destination"]]) + hv["packet_number"].to_bytes(2, "big") + (12 + len(inner)).to_bytes(2, "big") + b"\0\0" + inner
    return hrnp_checksum(fr) == 0


def hstrp_space(rep, kinds):
    t = rep.thorough()
    reps = representatives(kinds)
    od = env.det_bytes("c12.hstrp.opt", 255)

    def data(n, salt=0):
        if n == 4 and salt == 0:
            return "0001869f"
        # include bytes that look like option headers / HDAP service bytes
        base = (bytes([0x83, 0x04, 0x02, 0x11, 0x80, 0x00, 0xFF, 0x03]) + od)[salt : salt + n]
        return base.hex()

    types = list(HSTRP_OPT)
    lens1 = [0, 1, 4, 255] + ([2, 127, 128] if t else [])
    optlists = [[]]
    optlists += [[[ty, data(n)]] for ty in types for n in lens1]
    t2 = types if t else ["RTP", "DeviceID", "XPTChannelType"]
    l2 = [0, 1, 4]
    optlists += [[[a, data(n)], [b, data(m, 1)]] for a in t2 for n in l2 for b in t2 for m in l2]
    t3 = ["RTP", "DeviceID", "ChannelID"] if t else ["RTP", "DeviceID"]
    l3 = [0, 4]
    optlists += [[[a, data(n)], [b, data(m, 1)], [c, data(k, 2)]] for a in t3 for n in l3 for b in t3 for m in l3 for c in t3 for k in l3]
    for n_opts in (6, 7, 8, 12):
        optlists.append([[types[i % len(types)], data((i * 3) % 5, i % 3)] for i in range(n_opts)])
    sns = [1, 0, 0xFF, 0x100, 0xFFFF] + ([0x8000] if t else [])
    flagsets = [
        {"is_reject": False, "is_close": False, "is_connect": False, "is_heartbeat": False, "is_ack": False},
        {"is_reject": False, "is_close": False, "is_connect": False, "is_heartbeat": False, "is_ack": True},
    ]
    if t:
        flagsets += [
            {"is_reject": True, "is_close": True, "is_connect": True, "is_heartbeat": False, "is_ack": True},
        ]
    versions = [0] + ([0xFF] if t else [])
    items = []
    for (kname, fv), ol, fl, sn, v in itertools.product(reps, optlists, flagsets, sns, versions):
        items.append((kname, fv, {"version": v, "sn": sn, "flags": fl, "options": ol}))
    return items, len(optlists)


def hrnp_dataless(rep):
    """the six HRNP opcodes that carry no HDAP (CONNECT..DATA_ACK): header/length/checksum/round trip"""
    s = rep.sub("hrnp_dataless_opcodes", "6 data-less HRNP opcodes x version x block x (source,destination) x packet number alphabets, full product; walker + parse + re-serialise")
    ops = {"CONNECT": 0xFE, "ACCEPT": 0xFD, "REJECT": 0xFC, "CLOSE": 0xFB, "CLOSE_ACK": 0xFA, "DATA_ACK": 0x10}
    pn = uniq([0, 1, 2, 0x7FFF, 0x8000, 0xFFFF, 0xFFFE, 0xFF, 0x100, env.det_int("c12.pn", 16)])
    n = 0
    for (name, code), v, blk, (src, dst), p in itertools.product(ops.items(), [4, 3, 0], [0, 1, 0xFF], [(0x20, 0x10), (0x10, 0x20), (0, 0), (0xFF, 0xFF)], pn):
        case = {"opcode": name, "version": v, "block": blk, "source": src, "destination": dst, "packet_number": p}
        n += 1
        try:
            h = HRNP(opcode=HRNPOpcodes[name], source=src, destination=dst, block_number=blk, packet_number=p, version=v)
            hb = h.as_bytes()
            for w in walk_hrnp(hb, v, blk, code, src, dst, p, b""):
                s.violation(w, case, hb.hex())
            if len(h) != len(hb):
                s.violation("hrnp_len_differs_from_bytes_produced", case)
            h2 = HRNP.from_bytes(hb)
            if h2.as_bytes() != hb:
                s.violation("hrnp_reserialised_bytes_differ", case, hb.hex())
            if h2.checksum_correct is not True:
                s.violation("hrnp_checksum_correct_false_after_parse", case, hb.hex())
            if (h2.opcode.value, h2.source, h2.destination, h2.block_number, h2.packet_number, h2.version) != (code, src, dst, blk, p, bytes([v])):
                s.violation("hrnp_parsed_fields_differ", case, hb.hex())
        except Exception as e:
            s.violation("hrnp_exception:" + exc_sig(e), case, repr(e))
        s.case(nontrivial=True, calls=5, outcome=name, sample=case if n == 1 else None)
    s.declared = 6 * 3 * 3 * 4 * len(pn)
    s.done()


def radio_ip_space(rep):
    """RadioIP element (subnet byte + 24-bit id) in both byte orders: layout per radio_ip.ksy, round trip, dotted form"""
    ids = uniq(spaces.field_alphabet(24) + [1001, 0x010203, env.det_int("c12.id24", 24)])
    s = rep.sub("radio_ip_element", "all 256 subnets x 24-bit id alphabet x both byte orders: as_bytes equals subnet byte + 3-byte big-endian id (reversed for little), from_bytes/from_ip return the fields")
    s.declared = 256 * len(ids) * 2
    for subnet in range(256):
        for rid in ids:
            for endian in ("big", "little"):
                case = {"subnet": subnet, "radio_id": rid, "endian": endian}
                try:
                    ip = RadioIP(radio_id=rid, subnet=subnet)
                    b = ip.as_bytes(endian=endian)
                    ref = bytes([subnet, (rid >> 16) & 0xFF, (rid >> 8) & 0xFF, rid & 0xFF])
                    if b != (ref if endian == "big" else ref[::-1]):
                        s.violation("radio_ip_bytes_layout", case, b.hex())
                    q = RadioIP.from_bytes(b, endian=endian)
                    if (q.subnet, q.radio_id) != (subnet, rid) or q.as_bytes(endian=endian) != b:
                        s.violation("radio_ip_round_trip", case, repr(q))
                    dotted = "%d.%d.%d.%d" % tuple(ref)
                    if ip.as_ip() != dotted:
                        s.violation("radio_ip_dotted_form", case, ip.as_ip())
                    r = RadioIP.from_ip(dotted)
                    if (r.subnet, r.radio_id) != (subnet, rid):
                        s.violation("radio_ip_from_ip", case, repr(r))
                except Exception as e:
                    s.violation("radio_ip_exception:" + exc_sig(e), case, repr(e))
                s.case(nontrivial=True, calls=6, outcome=endian, sample=case if (subnet == 10 and rid == 1001 and endian == "big") else None)
    s.done()


def run(only=None):
    rep = Report("C12")
    rep.explanation = (
        "Complete enumeration of bounded field spaces on the real PDU classes: every case builds a PDU from a field vector, "
        "serialises it, walks the bytes with an independent frame walker, parses them back with HDAP/HRNP/HSTRP.from_bytes and "
        "serialises again. state = one enumerated (opcode, field vector, nesting) case; transition = one real library call "
        "(constructor, as_bytes, len, from_bytes); every case is an implementation execution (traces_validated = cases)."
    )
    rep.assumptions = [
        "frame layout, service bytes, opcode numbers and the 40-byte GPS block are transcribed from okdmr/kaitai/hytera/*.ksy (a separate package) and validated against the packets captured in the repository tests",
        "HDAP checksum ((~sum)+0x33)&0xFF over opcode..payload and the HRNP ones-complement checksum (checksum field skipped, zero padded) are re-derived from those captures (sub-check oracle_selftest_captures)",
        "domain restrictions (not violations): GPS speed 0 or 0.1..999 kn given as float (values below 10 kn with one decimal must survive exactly, from 10 kn the 3-character field resolves 1 kn), "
        "latitude/longitude with at most 4 decimals, dates 2000..2099 (two-digit year), 'no time/date' passed as 6 NUL bytes, RRS renewal 1..0xFFFE, RCP raw payloads of the documented fixed size, "
        "UnknownService opcodes that are in no table, HSTRP have_options flag set iff the option list is non-empty and no heartbeat flag together with a payload, option data <= 255 bytes, "
        "TMP option data only together with has_option; zero-length option data None and b'' are the same value",
        "CPython str.encode('utf-16-le') is the UTF-16 reference for text fields",
    ]
    kinds = make_kinds(rep.thorough())
    nw = env.workers()

    selftest_captures(rep)
    if not only or "radio_ip_element" in only:
        radio_ip_space(rep)

    plan = build_field_spaces(rep, kinds)
    fam_names = {"RRS": "rrs_fields", "LP": "lp_fields", "TMP": "tmp_fields", "RCP": "rcp_fields"}
    rules = {
        "RRS": "5 opcodes",
        "LP": "StandardRequest, StandardReport (GPS block)",
        "TMP": "8 opcodes x reliable x confirmed x option data {off, None, 0, 1, 3, 255 bytes}",
        "RCP": "17 opcodes + UnknownService",
    }
    for fam, sname in fam_names.items():
        if only and sname not in only:
            continue
        s = rep.sub(
            sname,
            f"{rules[fam]}: per opcode every base vector, every one-field and two-field variation of two bases over the field alphabets, plus the full product where it fits "
            f"(thorough: stated sub-products at both bases -- LP report: the 9 GPS fields; TMP: reliable x confirmed x option x request id x content; RCP status/alias: all enum fields); each case bare + nested in a default HRNP DATA frame and a default 2-option HSTRP frame "
            f"(product_b* spaces bare only); non-trivial: every case (distinct field vectors, de-duplicated per space)",
        )
        tasks = []
        decl = 0
        sizes = {}
        for key, nest in plan:
            if KINDS[key[0]].family != fam:
                continue
            n = len(SPACES[key])
            sizes["/".join(key)] = n
            decl += n
            tasks += [(key, lo, hi, nest) for lo, hi in par.chunks(n, max(1, min(64, n // 400)))]
        s.declared = decl
        s.extra["space_sizes"] = sizes
        # interleave big and small tasks for balance
        tasks.sort(key=lambda t: -(t[2] - t[1]))
        for acc in par.pmap(w_fields, tasks, nw):
            s.merge(acc)
        regroup_by_opcode(s, fam, sum(1 for k in kinds if k.family == fam))
        s.done()
        rep.log(f"{sname}: {s.n} cases, {len(s.viol)} violation signatures, {s.wall}s")

    if not only or "hrnp_header_space" in only:
        items = resolve_zero_checksum(hrnp_space(rep, kinds))
        SPACES["hrnp"] = ListSpace(items)
        s = rep.sub(
            "hrnp_header_space",
            "both base PDUs of every opcode x full product of HRNP header alphabets (version, block, (source,destination), packet number incl. the value that makes the checksum 0x0000); "
            "walker (length field = total length, ones-complement checksum, inner bytes), checksum_correct after parse, re-serialisation, header and inner fields",
        )
        s.declared = len(items)
        s.extra["frames_with_checksum_0000"] = sum(1 for k, f, hv in items if _ref_hrnp_checksum_is_zero(k, f, hv))
        for acc in par.pmap(w_hrnp, par.chunks(len(items), 128), nw):
            s.merge(acc)
        s.done()
        rep.log(f"hrnp_header_space: {s.n} cases, {len(s.viol)} violation signatures, {s.wall}s")
        hrnp_dataless(rep)

    if not only or "hstrp_option_space" in only:
        items, nlists = hstrp_space(rep, kinds)
        SPACES["hstrp"] = ListSpace(items)
        s = rep.sub(
            "hstrp_option_space",
            "both base PDUs of every opcode x every option list of 0..3 options over (type x data length incl. 0 and 255) alphabets x flag sets x sequence numbers x version, full product; "
            "bytes equal an independent reference writer (TLV chain with continuation bit), parse, re-serialise, options/flags/sn and inner fields",
        )
        s.declared = len(items)
        s.extra["option_lists"] = nlists
        for acc in par.pmap(w_hstrp, par.chunks(len(items), 128), nw):
            s.merge(acc)
        s.done()
        rep.log(f"hstrp_option_space: {s.n} cases, {len(s.viol)} violation signatures, {s.wall}s")

    if not only or "parse_in_a_process_that_imported_only_the_parser" in only:
        # first use in a process: a receiver imports the parser (HDAP / HRNP / HSTRP, as the datagram handlers do), not the service
        # classes; the bytes are produced here and parsed + re-serialised in brand-new interpreters that import one module each
        import subprocess as _sp
        import json as _json
        s = rep.sub("parse_in_a_process_that_imported_only_the_parser",
                    "every base PDU of every opcode, bare / in HRNP / in HSTRP, parsed and re-serialised in a new interpreter that has imported "
                    "nothing but okdmr.dmrlib.hytera.pdu.hdap resp. .hrnp resp. .hstrp: same bytes back as in this process")
        samples = {"hdap": [], "hrnp": [], "hstrp": []}
        for kname, fv in representatives(kinds):
            kind = KINDS[kname]
            try:
                p_ = kind.build(fv)
                inner = p_.as_bytes()
                samples["hdap"].append((kname, inner.hex()))
                samples["hrnp"].append((kname, HRNP(opcode=HRNPOpcodes.DATA, data=p_, source=0x20, destination=0x10, block_number=0, packet_number=1, version=4).as_bytes().hex()))
                o_ = HSTRPOptions()
                samples["hstrp"].append((kname, HSTRP(pkt_type=HSTRPPacketType(have_options=False), sn=1, options=o_, payload=p_, version=0).as_bytes().hex()))
            except Exception:  # noqa: BLE001  (reported by the field sub-checks)
                continue
        code = (
            "import sys, json\n"
            "sys.path.insert(0, %r)\n"
            "import logging; logging.disable(logging.CRITICAL)\n"
            "from okdmr.dmrlib.hytera.pdu.%s import %s as P\n"
            "out = []\n"
            "for name, hx in json.loads(sys.stdin.read()):\n"
            "    try:\n"
            "        out.append([name, P.from_bytes(bytes.fromhex(hx)).as_bytes().hex()])\n"
            "    except Exception as e:\n"
            "        out.append([name, 'raises:' + type(e).__name__ + ':' + str(e)[:80]])\n"
            "print('RESULT:' + json.dumps(out))\n"
        )
        for mod, clsname in (("hdap", "HDAP"), ("hrnp", "HRNP"), ("hstrp", "HSTRP")):
            r = _sp.run([sys.executable] + (["-O"] if sys.flags.optimize else []) + ["-B", "-c", code % (env.REPO, mod, clsname)],
                        input=_json.dumps(samples[mod]), capture_output=True, text=True)
            got = None
            for line in r.stdout.splitlines():
                if line.startswith("RESULT:"):
                    got = _json.loads(line[7:])
            if got is None:
                rep.internal_error(f"new interpreter for {mod} gave no result: {r.stderr[-300:]}")
                continue
            for (kname, hx), (_, back) in zip(samples[mod], got):
                case = {"kind": kname, "bytes": hx, "only_module_imported": f"okdmr.dmrlib.hytera.pdu.{mod}"}
                if back != hx:
                    s.violation(f"parse_differs_in_a_process_that_imported_only_{mod}", {**case, "there": back},
                                "bytes this process parses and re-serialises unchanged come back different (or raise) in a new interpreter that imported only the parser module")
                s.case(nontrivial=True, calls=2, outcome=(mod, KINDS[kname].family), sample=case if len(s.samples) < 1 else None)
        s.done()

    rep.bounds = {
        "opcodes": "RRS 5, LP 2, TMP 8, RCP 18 (all with both get_payload and from_bytes branches)",
        "radio_ids": "24-bit boundary/walking alphabet (quick 13 values, thorough 55+)",
        "request_ids": "32-bit boundary/walking alphabet",
        "text": "'', ASCII, BMP, astral (surrogate pairs), 200 characters",
        "option_data": "None, 0, 1, 3, 255 bytes",
        "gps": "validity 2 x hemispheres 4 x lat 6 x lon 6 x speed 20 x direction 8 x time 4 x date 5 (thorough: full product at both bases)",
        "combination": "pairs of fields over two bases + full product where small; wider interactions (3+ fields at non-base values) only inside the product spaces",
        "hstrp": "0..3 options",
        "not_covered": "opcodes without a get_payload/from_bytes branch (raise ValueError by design); HRNP fragmentation; values outside the alphabets",
    }
    return rep.finish()


def replay(doc):
    kinds = make_kinds(doc.get("tier") == "thorough")
    for k in kinds:
        KINDS[k.name] = k
    bad = 0
    for case in doc.get("cases", []):
        kind = KINDS.get(case.get("kind"))
        if kind is None:
            print("cannot replay", case)
            continue
        fv = case["fv"]
        probs, p, b, _ = check_bare(kind, fv)
        if not probs and "hrnp" in case:
            probs += check_hrnp(kind, fv, p, b, case["hrnp"])[0]
        elif not probs and "hstrp" in case:
            probs += check_hstrp(kind, fv, p, b, case["hstrp"])[0]
        elif not probs:
            probs += check_hrnp(kind, fv, p, b, HRNP_DEFAULT)[0]
            probs += check_hstrp(kind, fv, p, b, HSTRP_DEFAULT)[0]
        print(case.get("kind"), fv, "->", "OK" if not probs else probs)
        bad += bool(probs)
    return 1 if bad else 0

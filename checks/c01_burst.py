"""C01 -- a burst the library assembles parses back identically and re-assembles; voice bursts survive
parse-then-serialise bit for bit.

Bursts are assembled the only way the library offers (what TransmissionGenerator does, mc/bursts.py),
from PDUs built by the field-level builders of the C03 check (checks/c03_pdus.py: one `Kind` per PDU kind
with its field alphabets).  Spaces (all enumerated completely):
  1. colour code (16) x data sync pattern (4) x every supported payload kind x 2 base payloads
  2. every kind x every field x the field's whole alphabet (one at a time from 2 bases) x alternating (cc, sync)
  3. info-bit vectors of weight <= 1 (thorough 2) and complements through the three payload codecs
     (BPTC 96, trellis 144, rate-1 192 bits)
  4. voice bursts: 4 voice syncs x vocoder vectors {0, 1..1, 216 unit vectors, complements, fills}
  5. voice bursts with EMB: all 128 (cc, PI, LCSS) triples x embedded-32 alphabet x vocoder fills, plus
     the 10 SYNC constants viewed as EMB + 32 embedded bits
Independent oracle part: the 98+10+48+10+98 layout is re-derived in the harness -- the 20 slot-type bits
must be the Golay(20,8) codeword (polynomial reference) of cc||data-type, the 48 centre bits must be the
sync constant (ETSI table 9.2 transcribed here).
"""
from mc import env
from mc import par, bursts as B
from mc.report import Report, Acc, exc_sig
from mc.hist import observe
import contextlib
import io
_DEVNULL = io.StringIO()
from mc.oracle import gf2

from bitarray import bitarray
from bitarray.util import int2ba

import checks.c03_pdus as P3

from okdmr.dmrlib.etsi.layer2.burst import Burst
from okdmr.dmrlib.etsi.layer2.elements.burst_types import BurstTypes
from okdmr.dmrlib.etsi.layer2.elements.data_types import DataTypes
from okdmr.dmrlib.etsi.layer2.elements.sync_patterns import SyncPatterns

# ETSI TS 102 361-1 table 9.2 (harness transcription)
SYNC = {
    "BsSourcedVoice": 0x755FD7DF75F7, "BsSourcedData": 0xDFF57D75DF5D, "MsSourcedVoice": 0x7F7D5DD57DFD,
    "MsSourcedData": 0xD5D7F77FD757, "MsSourcedRcSync": 0x77D55F7DFD77, "Tdma1Voice": 0x5D577F7757FF,
    "Tdma1Data": 0xF7FDD5DDFD55, "Tdma2Voice": 0x7DFFD5F55D5F, "Tdma2Data": 0xD7557F5FF7F5, "Reserved": 0xDD7FF5D757DD,
}
DATA_SYNCS = ["BsSourcedData", "MsSourcedData", "Tdma1Data", "Tdma2Data"]
VOICE_SYNCS = ["BsSourcedVoice", "MsSourcedVoice", "Tdma1Voice", "Tdma2Voice"]
# ETSI TS 102 361-1 9.3.6 data type codes
DT_CODE = {"PIHeader": 0, "VoiceLCHeader": 1, "TerminatorWithLC": 2, "CSBK": 3, "DataHeader": 6, "Rate12Data": 7, "Rate34Data": 8, "Rate1Data": 10}
GOLAY = gf2.CODES["golay_20_8_7"]
QR = gf2.CODES["qr_16_7_6"]

TARGETS = []  # (label, kind, data type name, expected class name)


def build_targets():
    for k in P3.all_kinds():
        if k.family == "csbk":
            TARGETS.append((k.name, k, "CSBK", "CSBK"))
        elif k.family == "data_header":
            TARGETS.append((k.name, k, "DataHeader", "DataHeader"))
        elif k.family == "full_lc" and k.name.endswith("_96"):
            TARGETS.append((k.name + "@header", k, "VoiceLCHeader", "FullLinkControl"))
            TARGETS.append((k.name + "@terminator", k, "TerminatorWithLC", "FullLinkControl"))
        elif k.family == "pi_header":
            TARGETS.append((k.name, k, "PIHeader", "PIHeader"))
        elif k.family == "rate_data":
            rn = k.name.split("_")[0]
            dt = {"r12": "Rate12Data", "r34": "Rate34Data", "r1": "Rate1Data"}[rn]
            TARGETS.append((k.name, k, dt, dt))


def bases(kind):
    a = kind.alpha
    names = kind.fields
    b0 = {n: a[n][0] for n in names}
    b1 = {n: a[n][len(a[n]) // 2] for n in names}
    b2 = {n: a[n][env.det_int(f"c01|{kind.name}|{n}", 32) % len(a[n])] for n in names}
    return [b0, b1, b2]


def data_burst_case(acc, label, kind, dtname, clsname, vals, cc, syncname, check_fields=True):
    case = {"kind": label, "values": {k: (v if v < (1 << 53) else hex(v)) for k, v in vals.items()}, "colour_code": cc, "sync": syncname}
    dt = DataTypes[dtname]
    sync = SyncPatterns[syncname]
    try:
        pdu = kind.build(vals)
        pdu_bits = pdu.as_bits()
        raw = B.data_burst_bytes(pdu, dt, cc=cc, sync=sync)
    except Exception as e:  # noqa: BLE001
        acc.violation(f"exception_assembling:{kind.family}:" + exc_sig(e), case, repr(e))
        acc.case()
        return
    calls = 3
    if len(raw) != 33:
        acc.violation("burst_not_33_bytes", {**case, "len": len(raw)})
        acc.case(calls=calls)
        return
    bits = bitarray()
    bits.frombytes(raw)
    b01 = bits.to01()
    # independent layout: slot type = Golay codeword of cc || dt ; centre = sync constant
    slot = b01[98:108] + b01[156:166]
    want_slot = format(gf2.encode_systematic((cc << 4) | DT_CODE[dtname], *GOLAY[:2], GOLAY[3], GOLAY[4]), "020b")
    if slot != want_slot:
        acc.violation("slot_type_bits_not_the_golay_codeword_of_cc_and_data_type", {**case, "got": slot, "want": want_slot})
    if b01[108:156] != format(SYNC[syncname], "048b"):
        acc.violation("centre_bits_not_the_sync_pattern", {**case, "got": b01[108:156]})
    try:
        parsed = Burst.from_bytes(raw)
        again = parsed.as_bytes()
        calls += 2
    except Exception as e:  # noqa: BLE001
        acc.violation(f"exception_parsing:{kind.family}:" + exc_sig(e), {**case, "burst": raw.hex()}, repr(e))
        acc.case(calls=calls)
        return
    if again != raw:
        acc.violation(f"reassembled_bytes_differ:{kind.family}", {**case, "first": raw.hex(), "second": again.hex()},
                      "serialising the parsed burst does not give the identical 33 bytes")
    else:
        # looking at the parsed burst (repr, str, ==, len, hash) between two serialisations must not change it
        try:
            with contextlib.redirect_stdout(_DEVNULL):
                observe(parsed, light=True)
            if parsed.as_bytes() != raw:
                acc.violation(f"reassembled_bytes_differ_after_the_burst_was_looked_at:{kind.family}", case)
        except Exception as e:  # noqa: BLE001
            acc.violation(f"exception_after_looking_at_burst:{kind.family}:" + exc_sig(e), case, repr(e))
    if parsed.data_type != dt:
        acc.violation("data_type_differs", {**case, "got": parsed.data_type.name})
    try:
        if parsed.colour_code != cc:
            acc.violation("colour_code_differs", {**case, "got": parsed.colour_code})
    except Exception as e:  # noqa: BLE001
        acc.violation("exception_colour_code:" + exc_sig(e), case, repr(e))
    if parsed.sync_or_embedded_signalling != sync:
        acc.violation("sync_pattern_differs", {**case, "got": parsed.sync_or_embedded_signalling.name})
    if type(parsed.data).__name__ != clsname:
        acc.violation("payload_class_differs", {**case, "got": type(parsed.data).__name__, "want": clsname})
        acc.case(calls=calls)
        return
    if parsed.slot_type is None or not parsed.slot_type.fec_parity_ok:
        acc.violation("slot_type_parity_not_ok_after_parse", case)
    try:
        got_bits = parsed.data.as_bits()
        if got_bits != pdu_bits:
            acc.violation(f"payload_bits_differ:{kind.family}", {**case, "built": pdu_bits.to01(), "parsed": got_bits.to01()},
                          "payload PDU bits after parse differ from the assembled PDU")
        if check_fields:
            obj = parsed.data
            if kind.family == "rate_data":
                obj = kind.parse(got_bits)  # typed view of the same info bits
            rd = kind.read(obj)
            if kind.family == "rate_data" and kind.name.endswith("_unconfirmed"):
                # a burst alone does not say whether its block is a confirmed one (the data header does): what the burst parser hands out
                # for an unconfirmed block must itself say "unconfirmed, all octets are user data" -- also when the first two octets
                # happen to look like a serial number followed by a valid CRC-9
                own = kind.read(parsed.data)
                if own.get("_packet_type") != "Unconfirmed" or own.get("data") != vals["data"]:
                    acc.violation(f"unconfirmed_block_parsed_as_something_else:{kind.name}", {**case, "parsed_type": own.get("_packet_type"), "parsed_data": hex(own.get("data") or 0)},
                                  "the object the burst parser returns for an unconfirmed data block has another packet type / other user data")
                calls += 1
            lost = [f for f in vals if rd.get(f) != vals[f]]
            for f in lost:
                acc.violation(f"field_differs_after_burst_round_trip:{kind.name}:{f}", {**case, "built": vals[f], "parsed": repr(rd.get(f))},
                              "payload field value differs after burst parse")
            calls += 1
    except Exception as e:  # noqa: BLE001
        acc.violation(f"exception_reading_payload:{kind.family}:" + exc_sig(e), case, repr(e))
    acc.case(nontrivial=True, calls=calls, outcome=(dtname, cc & 1), sample=case if len(acc.samples) < 1 else None)


def w_product(task):
    acc = Acc()
    for ti, cc, syncname, bi in task:
        label, kind, dtname, clsname = TARGETS[ti]
        data_burst_case(acc, label, kind, dtname, clsname, bases(kind)[bi], cc, syncname)
    return acc


def field_cases(ti, thorough=False):
    label, kind, dtname, clsname = TARGETS[ti]
    out = []
    seen = set()
    if thorough:
        # the C03 check's own case space for this kind (bases, every field alone, all field pairs over reduced alphabets)
        for d in P3.kind_cases(kind, "quick"):
            key = tuple(d[x] for x in kind.fields)
            if key not in seen:
                seen.add(key)
                out.append(dict(d))
    for b in bases(kind)[:2]:
        for n in kind.fields:
            for v in kind.alpha[n]:
                d = dict(b)
                d[n] = v
                key = tuple(d[x] for x in kind.fields)
                if key not in seen:
                    seen.add(key)
                    out.append(d)
    if kind.family == "rate_data" and kind.name.endswith("_unconfirmed"):
        # coincidences: user data of an unconfirmed block that is, octet for octet, a well-formed confirmed (last) block of the same rate
        # (serial number + valid CRC-9 in front) -- e.g. a relayed block, or 1 in 512 of arbitrary payloads
        rn = kind.name.split("_")[0]
        for sib in (f"{rn}_confirmed", f"{rn}_confirmed_last"):
            for _, k2, _, _ in TARGETS:
                if k2.name != sib:
                    continue
                for b in bases(k2):
                    for dbsn in (0, 1, 35, 127):
                        v2 = dict(b)
                        v2["dbsn"] = dbsn
                        d = {"data": int(k2.build(v2).as_bits().to01(), 2)}
                        key = tuple(d[x] for x in kind.fields)
                        if key not in seen:
                            seen.add(key)
                            out.append(d)
    return out


def w_fields(task):
    acc = Acc()
    ti, lo, hi = task
    label, kind, dtname, clsname = TARGETS[ti]
    cases = FIELD_CASES[ti][lo:hi]
    for i, vals in enumerate(cases):
        cc = (lo + i) * 7 % 16
        syncname = DATA_SYNCS[(lo + i) % 4]
        data_burst_case(acc, label, kind, dtname, clsname, vals, cc, syncname)
    return acc


def w_histories(task):
    """histories on burst objects: (a) one Burst object re-used for an edited / another payload (stale per-object caches),
    (b) the same bytes parsed again after the caller wrote into the buffers the first parse handed out (aliased decoder state)"""
    acc = Acc()
    for ti, cc, syncname in task:
        label, kind, dtname, clsname = TARGETS[ti]
        dt = DataTypes[dtname]
        sync = SyncPatterns[syncname]
        b0, b1, b2 = bases(kind)
        case = {"kind": label, "colour_code": cc, "sync": syncname}
        try:
            # (a1) serialise, replace the PDU's state in place (same object identity), serialise again
            pdu = kind.build(b0)
            burst = B.assemble_data_burst(pdu, dt, cc=cc, sync=sync)
            first = burst.as_bytes()
            repr(burst)
            other = kind.build(b1)
            pdu.__dict__.clear()
            pdu.__dict__.update(other.__dict__)
            second = burst.as_bytes()
            fresh = B.data_burst_bytes(kind.build(b1), dt, cc=cc, sync=sync)
            if second != fresh:
                acc.violation(f"reserialised_burst_is_stale_after_payload_edited_in_place:{kind.family}", {**case, "got": second.hex(), "want": fresh.hex()},
                              "a burst serialised again after its payload PDU was edited in place does not carry the edited payload")
            # (a2) assign another PDU object, another colour code and sync to the same burst object
            burst.data = kind.build(b2)
            cc2 = (cc + 5) % 16
            sync2 = SyncPatterns[DATA_SYNCS[(DATA_SYNCS.index(syncname) + 1) % 4]]
            from okdmr.dmrlib.etsi.layer2.pdu.slot_type import SlotType as _ST
            burst.slot_type = _ST(colour_code=cc2, data_type=dt)
            burst.sync_or_embedded_signalling = sync2
            third = burst.as_bytes()
            fresh3 = B.data_burst_bytes(kind.build(b2), dt, cc=cc2, sync=sync2)
            if third != fresh3:
                acc.violation(f"reused_burst_object_serialises_stale_content:{kind.family}", {**case, "got": third.hex(), "want": fresh3.hex()})
            # (b) parse, write into every buffer the parse handed out, parse the same bytes again
            p1 = Burst.from_bytes(fresh)
            want_fields = kind.read(kind.parse(p1.data.as_bits()) if kind.family == "rate_data" else p1.data)
            for attr in ("info_bits_deinterleaved", "info_bits_original", "voice_bits", "embedded_signalling_bits", "full_bits"):
                buf = getattr(p1, attr, None)
                if isinstance(buf, bitarray):
                    try:
                        buf.invert()
                    except TypeError:  # a read-only view is the library's right
                        pass
            try:
                db = p1.data.as_bits()
                db.invert()
            except Exception:  # noqa: BLE001
                pass
            p2 = Burst.from_bytes(fresh)
            if p2.as_bytes() != fresh:
                acc.violation(f"second_parse_of_same_bytes_differs_after_caller_wrote_first_result:{kind.family}", {**case, "burst": fresh.hex(), "again": p2.as_bytes().hex()},
                              "parsing the same 33 bytes again gives another burst once the caller has modified buffers of the first parse")
            else:
                got_fields = kind.read(kind.parse(p2.data.as_bits()) if kind.family == "rate_data" else p2.data)
                if got_fields != want_fields:
                    acc.violation(f"second_parse_fields_differ_after_caller_wrote_first_result:{kind.family}", case)
            # (c) the bytes arrive in a receive buffer that the caller re-uses after parsing: the parsed burst owns its bits
            rbuf = bytearray(fresh)
            p3 = Burst.from_bytes(rbuf)
            rbuf[:] = fresh3
            rbits = bitarray()
            rbits.frombytes(fresh)
            p4 = Burst.from_bits(rbits, BurstTypes.DataAndControl)
            rbits.invert()
            for how, pb in (("from_bytes(bytearray)", p3), ("from_bits(bitarray)", p4)):
                if pb.as_bytes() != fresh:
                    acc.violation(f"parsed_burst_changes_when_caller_reuses_the_buffer_it_was_parsed_from:{kind.family}", {**case, "parsed_with": how},
                                  "a parsed burst serialises to other bytes once the caller has overwritten the buffer it was parsed from")
                else:
                    gf_ = kind.read(kind.parse(pb.data.as_bits()) if kind.family == "rate_data" else pb.data)
                    if gf_ != want_fields:
                        acc.violation(f"parsed_fields_change_when_caller_reuses_the_buffer:{kind.family}", {**case, "parsed_with": how})
        except Exception as e:  # noqa: BLE001
            acc.violation(f"exception_burst_history:{kind.family}:" + exc_sig(e), case, repr(e))
        acc.case(nontrivial=True, calls=13, outcome=dtname, sample=case if len(acc.samples) < 1 else None)
    return acc


FIELD_CASES = {}


def info_vectors(n, weight):
    import itertools

    seen = set()
    out = []

    def add(s):
        if s not in seen:
            seen.add(s)
            out.append(s)

    for w in range(weight + 1):
        for pos in itertools.combinations(range(n), w):
            l = ["0"] * n
            for p in pos:
                l[p] = "1"
            s = "".join(l)
            add(s)
            add(s.translate(str.maketrans("01", "10")))
    add(("01" * n)[:n])
    add(("10" * n)[:n])
    add(env.det_bits(f"c01-info-{n}", n))
    return out


def w_info(task):
    acc = Acc()
    ti, vecs = task
    label, kind, dtname, clsname = TARGETS[ti]
    for i, s in enumerate(vecs):
        vals = {"data": int(s, 2)}
        data_burst_case(acc, label + "/info-bits", kind, dtname, clsname, vals, (i * 5) % 16, DATA_SYNCS[i % 4])
    return acc


# ---- voice --------------------------------------------------------------------------------------------
def vocoder_vectors(thorough):
    out = info_vectors(216, 2 if thorough else 1)
    return out


def w_voice_sync(task):
    acc = Acc()
    syncname, vecs = task
    center = format(SYNC[syncname], "048b")
    for v in vecs:
        full = v[:108] + center + v[108:]
        case = {"sync": syncname, "vocoder": hex(int(v, 2))}
        try:
            b = Burst.from_bits(bitarray(full), BurstTypes.Vocoder)
            out = b.as_bits().to01()
            out2 = Burst.from_bytes(bitarray(full).tobytes(), burst_type=BurstTypes.Vocoder).as_bytes()
            # a voice-sync burst is recognised by its sync pattern whatever hint the caller gives (default hint, undefined hint)
            for hint in (None, BurstTypes.Undefined):
                b3 = Burst.from_bytes(bitarray(full).tobytes()) if hint is None else Burst.from_bits(bitarray(full), hint)
                if b3.as_bits().to01() != full or not b3.is_vocoder:
                    acc.violation("voice_sync_burst_altered_with_other_type_hint", {**case, "hint": str(hint)},
                                  "a voice burst around a voice sync pattern does not survive when parsed with the default / undefined burst type hint")
        except Exception as e:  # noqa: BLE001
            acc.violation("exception_voice_sync:" + exc_sig(e), case, repr(e))
            acc.case()
            continue
        if out != full or out2 != bitarray(full).tobytes():
            acc.violation("voice_sync_burst_altered", {**case, "in": full, "out": out}, "voice burst does not survive parse-then-serialise bit for bit")
        if b.sync_or_embedded_signalling != SyncPatterns[syncname] or not b.is_vocoder or b.has_emb:
            acc.violation("voice_sync_burst_misclassified", case)
        if b.voice_bits.to01() != v:
            acc.violation("vocoder_bits_differ", case)
        try:
            # re-used receive buffer: the parsed voice burst owns its bits
            rbuf = bytearray(bitarray(full).tobytes())
            b5 = Burst.from_bytes(rbuf, burst_type=BurstTypes.Vocoder)
            rbuf[:] = bytes(33)
            rbits = bitarray(full)
            b6 = Burst.from_bits(rbits, BurstTypes.Vocoder)
            rbits.setall(0)
            if b5.as_bits().to01() != full or b6.as_bits().to01() != full:
                acc.violation("voice_burst_changes_when_caller_reuses_the_buffer_it_was_parsed_from", case)
        except Exception as e:  # noqa: BLE001
            acc.violation("exception_voice_sync:" + exc_sig(e), case, repr(e))
        acc.case(nontrivial=True, calls=6, outcome=syncname, sample=case if len(acc.samples) < 1 else None)
    return acc


def emb_word(cc, pi, lcss):
    m = (cc << 3) | (pi << 2) | lcss
    return format(gf2.encode_systematic(m, QR[0], QR[1], QR[3], QR[4]), "016b")


def emb32_alphabet():
    out = ["0" * 32, "1" * 32, "01" * 16, "10" * 16]
    for i in range(32):
        u = "0" * i + "1" + "0" * (31 - i)
        out.append(u)
        out.append(u.translate(str.maketrans("01", "10")))
    return out


SYNC_BITS = {format(v, "048b"): k for k, v in SYNC.items()}


def w_voice_emb(task):
    acc = Acc()
    triples, embs, fills = task
    for cc, pi, lcss in triples:
        e = emb_word(cc, pi, lcss)
        for emb in embs:
            center = e[:8] + emb + e[8:]
            for v in fills:
                full = v[:108] + center + v[108:]
                case = {"cc": cc, "pi": pi, "lcss": lcss, "emb32": hex(int(emb, 2)), "vocoder": hex(int(v, 2))[:20]}
                try:
                    b = Burst.from_bits(bitarray(full), BurstTypes.Vocoder)
                    out = b.as_bits().to01()
                except Exception as ex:  # noqa: BLE001
                    acc.violation("exception_voice_emb:" + exc_sig(ex), case, repr(ex))
                    acc.case()
                    continue
                if out != full:
                    acc.violation("voice_emb_burst_altered", {**case, "in": full, "out": out}, "voice burst with EMB does not survive parse-then-serialise bit for bit")
                elif emb is embs[0] or emb is embs[-1]:
                    # the receiver labels voice bursts A..F after parsing (Burst.set_is_voice): a label is not part of the burst
                    from okdmr.dmrlib.etsi.layer2.elements.voice_bursts import VoiceBursts as _VB
                    for lab in (_VB.VoiceBurstA, _VB.VoiceBurstB, _VB.VoiceBurstF, _VB.Unknown):
                        try:
                            b4 = Burst.from_bits(bitarray(full), BurstTypes.Vocoder).set_is_voice(lab)
                            if b4.as_bits().to01() != full:
                                acc.violation("labelled_voice_burst_serialises_differently", {**case, "label": lab.name})
                        except Exception as ex:  # noqa: BLE001
                            acc.violation("exception_labelled_voice_burst:" + exc_sig(ex), {**case, "label": lab.name}, repr(ex))
                if center not in SYNC_BITS:
                    if not b.has_emb or b.emb is None:
                        acc.violation("emb_not_recognised", case)
                    else:
                        if (b.emb.colour_code, b.emb.preemption_and_power_control_indicator.value, b.emb.link_control_start_stop.value) != (cc, pi, lcss):
                            acc.violation("emb_fields_differ", {**case, "got": [b.emb.colour_code, b.emb.preemption_and_power_control_indicator.value,
                                                                                b.emb.link_control_start_stop.value]})
                        if not b.emb.emb_parity_ok:
                            acc.violation("emb_parity_not_ok", case)
                        if b.embedded_signalling_bits.to01() != emb:
                            acc.violation("embedded_32_bits_differ", case)
                        try:
                            if b.colour_code != cc:
                                acc.violation("voice_colour_code_differs", case)
                        except Exception as ex:  # noqa: BLE001
                            acc.violation("exception_colour_code:" + exc_sig(ex), case, repr(ex))
                acc.case(nontrivial=True, calls=2, outcome=(pi, lcss), sample=case if len(acc.samples) < 1 else None)
    return acc


def w_voice_emb_near_sync(task):
    """valid EMB words around embedded bits that equal (or are one bit away from) the middle 32 bits of a SYNC constant: the
    centre resembles a sync pattern without being one -- the dispatch on the 48 centre bits must still see embedded signalling"""
    acc = Acc()
    triples, fills = task
    for cc, pi, lcss in triples:
        e = emb_word(cc, pi, lcss)
        for sname, sval in SYNC.items():
            mid = format(sval, "048b")[8:40]
            variants = [mid] + [mid[:i] + ("1" if mid[i] == "0" else "0") + mid[i + 1:] for i in range(32)]
            for emb in variants:
                center = e[:8] + emb + e[8:]
                if center in SYNC_BITS:
                    continue  # exactly a sync constant: handled by the corner enumeration
                v = fills[(cc + lcss) % len(fills)]
                full = v[:108] + center + v[108:]
                case = {"cc": cc, "pi": pi, "lcss": lcss, "emb32": hex(int(emb, 2)), "near_sync": sname}
                try:
                    b = Burst.from_bits(bitarray(full), BurstTypes.Vocoder)
                    out = b.as_bits().to01()
                except Exception as ex:  # noqa: BLE001
                    acc.violation("exception_voice_emb_near_sync:" + exc_sig(ex), case, repr(ex))
                    acc.case()
                    continue
                if out != full:
                    acc.violation("voice_emb_burst_near_sync_altered", {**case, "in": full, "out": out},
                                  "voice burst whose embedded bits resemble a sync pattern does not survive parse-then-serialise")
                elif not b.has_emb or b.emb is None or (b.emb.colour_code, b.emb.preemption_and_power_control_indicator.value,
                                                        b.emb.link_control_start_stop.value) != (cc, pi, lcss):
                    acc.violation("emb_near_sync_not_recognised", case)
                acc.case(nontrivial=True, calls=2, outcome=sname, sample=case if len(acc.samples) < 1 else None)
    return acc


def run(only=None):
    rep = Report("C01")
    env.import_all_okdmr()
    build_targets()
    thorough = rep.thorough()
    rep.explanation = (
        "Complete enumeration of the stated finite spaces through the real assemble -> as_bytes -> from_bytes -> as_bytes path "
        "(state = one enumerated burst, transition = one real library call); slot-type and sync placement are re-derived independently."
    )
    rep.assumptions = [
        "PDU builders / field alphabets are those of checks/c03_pdus.py (ETSI layouts transcribed there)",
        "sync constants (table 9.2), data type codes (9.3.6), Golay(20,8) and QR(16,7) generator polynomials transcribed in the harness",
        "payload values: per-field alphabets (all values of fields <= 8 bit, boundary + walking bits for wider ones), info vectors of weight <= 1 (2) and complements",
    ]
    # 1. cc x sync x kind x base
    if not only or "cc_sync_kind_product" in only:
        s = rep.sub("cc_sync_kind_product", f"16 colour codes x 4 data syncs x {len(TARGETS)} payload kinds x {3 if thorough else 2} base payloads (complete product)")
        cases = [(ti, cc, sn, bi) for ti in range(len(TARGETS)) for cc in range(16) for sn in DATA_SYNCS for bi in range(3 if thorough else 2)]
        s.declared = len(cases)
        for acc in par.pmap(w_product, [cases[i::128] for i in range(128)]):
            s.merge(acc)
        s.done()
    # 2. fields
    if not only or "payload_fields" in only:
        s = rep.sub("payload_fields", "every kind x every field x the field's whole alphabet, one at a time from 2 bases"
                    + (" + all field pairs over reduced alphabets (the C03 case space of the kind)" if thorough else "") + "; (cc, sync) rotate with the case index")
        tasks = []
        total = 0
        for ti in range(len(TARGETS)):
            FIELD_CASES[ti] = field_cases(ti, thorough)
            total += len(FIELD_CASES[ti])
            tasks += [(ti, lo, hi) for lo, hi in par.chunks(len(FIELD_CASES[ti]), 24 if thorough else 6)]
        s.declared = total
        for acc in par.pmap(w_fields, tasks):
            s.merge(acc)
        s.done()
    # 2b. histories on burst objects
    if not only or "burst_object_histories" in only:
        s = rep.sub("burst_object_histories", "every payload kind x 4 (cc, sync) pairs: serialise / edit payload in place / serialise again; re-use one burst "
                                              "object for another payload, colour code and sync; parse / scribble on the parsed buffers / parse the same bytes again")
        cases = [(ti, (ti * 3 + j * 5) % 16, DATA_SYNCS[(ti + j) % 4]) for ti in range(len(TARGETS)) for j in range(4)]
        s.declared = len(cases)
        for acc in par.pmap(w_histories, par.split_list(cases, 64)):
            s.merge(acc)
        s.done()
    # 3. info bits through the codecs
    if not only or "info_bits_through_payload_codecs" in only:
        s = rep.sub("info_bits_through_payload_codecs", f"all info vectors of weight <= {2 if thorough else 1} and complements through BPTC(96), trellis(144), rate-1(192) inside a burst")
        tasks = []
        total = 0
        for ti, (label, kind, dtname, clsname) in enumerate(TARGETS):
            if kind.family == "rate_data" and kind.name.endswith("_unconfirmed"):
                n = {"Rate12Data": 96, "Rate34Data": 144, "Rate1Data": 192}[dtname]
                vecs = info_vectors(n, 2 if thorough else 1)
                total += len(vecs)
                tasks += [(ti, c) for c in par.split_list(vecs, 24)]
        s.declared = total
        for acc in par.pmap(w_info, tasks):
            s.merge(acc)
        s.done()
    # 4. voice + sync
    if not only or "voice_sync" in only:
        s = rep.sub("voice_sync", f"4 voice sync patterns x all vocoder vectors of weight <= {2 if thorough else 1}, complements, fills")
        vecs = vocoder_vectors(thorough)
        tasks = [(sn, c) for sn in VOICE_SYNCS for c in par.split_list(vecs, 8)]
        s.declared = 4 * len(vecs)
        for acc in par.pmap(w_voice_sync, tasks):
            s.merge(acc)
        s.done()
    # 5. voice + EMB
    if not only or "voice_emb" in only:
        fills = ["0" * 216, "1" * 216, ("01" * 108), env.det_bits("c01-voc", 216)]
        if thorough:
            fills += [("0011" * 54), env.det_bits("c01-voc2", 216)]
        embs = emb32_alphabet()
        triples = [(cc, pi, lcss) for cc in range(16) for pi in range(2) for lcss in range(4)]
        s = rep.sub("voice_emb", f"all 128 (cc, PI, LCSS) x {len(embs)} embedded-32 vectors x {len(fills)} vocoder fills; + the 10 sync constants read as EMB||32 bits")
        tasks = [(c, embs, fills) for c in par.split_list(triples, 64)]
        s.declared = len(triples) * len(embs) * len(fills)
        for acc in par.pmap(w_voice_emb, tasks):
            s.merge(acc)
        # near-sync family: 128 EMB words x 10 sync constants x (middle 32 bits + its 32 single-bit neighbours)
        n_before = s.n
        for acc in par.pmap(w_voice_emb_near_sync, [(c, fills) for c in par.split_list(triples, 64)]):
            s.merge(acc)
        s.declared += s.n - n_before
        s.extra["near_sync_cases"] = s.n - n_before
        # corner: a sync constant whose outer 16 bits are a valid EMB word
        qrset = gf2.codeword_set("qr_16_7_6")
        corner = 0
        for name, val in SYNC.items():
            c48 = format(val, "048b")
            outer = int(c48[:8] + c48[40:], 2)
            if outer not in qrset:
                continue  # not "valid embedded signalling": outside the statement's domain
            for v in fills:
                full = v[:108] + c48 + v[108:]
                try:
                    b = Burst.from_bits(bitarray(full), BurstTypes.Vocoder)
                    if b.as_bits().to01() != full:
                        s.violation("sync_constant_as_centre_altered", {"sync": name})
                except Exception as ex:  # noqa: BLE001
                    s.violation("exception_sync_constant_as_emb:" + exc_sig(ex), {"sync": name}, repr(ex))
                s.case(nontrivial=True, calls=2, outcome=("corner", name))
                corner += 1
        s.declared += corner
        s.extra["sync_constants_whose_outer_bits_are_valid_emb"] = [n for n, v in SYNC.items() if int(format(v, "048b")[:8] + format(v, "048b")[40:], 2) in qrset]
        s.done()
    return rep.finish()


def replay(doc):
    env.import_all_okdmr()
    build_targets()
    bad = 0
    by_label = {t[0]: t for t in TARGETS}
    for c in doc.get("cases", []):
        acc = Acc()
        if "kind" in c:
            label = c["kind"].split("/")[0]
            _, kind, dtname, clsname = by_label[label]
            vals = {k: (int(v, 16) if isinstance(v, str) else v) for k, v in c["values"].items()}
            data_burst_case(acc, label, kind, dtname, clsname, vals, c["colour_code"], c["sync"])
        print("  ", {k: c[k] for k in c if k in ("kind", "colour_code", "sync", "cc", "pi", "lcss")}, "->", {k: v[0] for k, v in acc.viol.items()} or "ok / not replayable")
        bad += len(acc.viol)
    print("replay:", "still fails" if bad else "does not reproduce")
    return 1 if bad else 0

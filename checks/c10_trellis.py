"""C10 -- rate 3/4 trellis code is lossless for every 144-bit block.

Technique: explicit exploration of the encoder's complete finite-state transition relation *through the
real functions* (8 states x 8 tribits, 8 states x 16 constellation points at every one of the 49 stream
positions), complete enumeration of the small maps (4 dibits, 16 points, 98 interleaver positions), then
end-to-end enumeration of structured 144-bit blocks.

No external table is used as reference: the property is a statement about *structure* (unique
invertibility of the transitions, bijections, permutation and its inverse, rejection of points the
current state cannot emit), so the oracle is relational and every fact is observed through
Trellis34.tribits_to_points / points_to_tribits / points_to_dibits / dibits_to_points / bits_to_dibits /
dibits_to_bits / interleave / deinterleave / encode / decode -- never read from the class tables.

Reading of "a constellation point that no encoder state can emit": every one of the 16 points is
emitted by some state, so the claim is taken (as DESIGN.md does) as "a point that the *current* encoder
state -- fixed by the previously decoded tribit, state 0 at the start -- cannot emit"; 8 of the 16 points
at every position.  Rejection = the documented AssertionError (ValueError/KeyError also count as a
refusal); returning a value is the violation.

Why the parts add up to "all 2^144 blocks": encode = (bits -> 48 tribits + flush tribit 0) ; point_i =
T[tribit_{i-1}][tribit_i] (locality, sub-check 4) ; points -> dibit pairs (bijection, 2) ; permutation
(3) ; dibits -> bits (bijection, 2).  Decoding inverts each stage; the only stage with memory is
inverted uniquely because each row of T has 8 distinct entries (1).
"""
from mc import env  # noqa: F401
from mc import par, spaces, hist
from mc.report import Report, Acc, exc_sig

import itertools
from array import array

from bitarray import bitarray, frozenbitarray

from okdmr.dmrlib.etsi.fec.trellis import Trellis34 as T
import okdmr.dmrlib.etsi.fec.trellis as trellis_module

REJECT = (AssertionError, ValueError, KeyError)
NPOS = 49


def bits_of(x):
    """index-order '0'/'1' string of a bitarray (independent of its storage endianness)"""
    return x.to01()


# ----------------------------------------------------------------------------------------------
# observe the transition relation through the real encoder function
# ----------------------------------------------------------------------------------------------
def observe_transition(state, tribit):
    """point emitted in `state` for `tribit`: second output of tribits_to_points([state, tribit])
    (the first tribit drives the machine from its initial state 0 into `state`)"""
    out = T.tribits_to_points(array("B", [state, tribit]))
    return int(out[0]), int(out[1])


def background_walk(kind, n):
    """a fixed tribit sequence used to reach a position; kind 0: counter walk, 1: seed fill"""
    if kind == 0:
        return [(5 * i + 3) % 8 for i in range(n)]
    raw = env.det_bytes("c10-walk", n)
    return [b % 8 for b in raw]


def sequence_for(pos, state, tribit, kind):
    """49 tribits in which the machine is in `state` when it consumes `tribit` at index `pos`"""
    seq = background_walk(kind, NPOS)
    if pos > 0:
        seq[pos - 1] = state
    seq[pos] = tribit
    return seq


def sub_transitions(rep):
    s = rep.sub("transition_table_64",
                "all 64 (state, tribit) pairs through tribits_to_points: point in 0..15, deterministic, the 8 successors of "
                "each state emit 8 distinct points (unique invertibility); every pair is non-trivial")
    s.declared = 64
    table = {}
    for st in range(8):
        for tb in range(8):
            case = {"state": st, "tribit": tb}
            try:
                p0, p1 = observe_transition(st, tb)
                q0, q1 = observe_transition(st, tb)
                if (p0, p1) != (q0, q1):
                    s.violation("transition_not_deterministic", case)
                if not (0 <= p1 <= 15):
                    s.violation("point_out_of_range", {**case, "point": p1})
                table[(st, tb)] = p1
                table.setdefault(("first", st), p0)
            except Exception as e:
                s.violation("exception_tribits_to_points:" + exc_sig(e), case, repr(e))
            s.case(nontrivial=True, calls=2, outcome=table.get((st, tb)), sample={**case, "point": table.get((st, tb))} if tb == 0 and st < 2 else None)
    for st in range(8):
        row = [table.get((st, tb)) for tb in range(8)]
        if None not in row and len(set(row)) != 8:
            s.violation("state_emits_same_point_for_two_tribits", {"state": st, "points": row},
                        "two tribits leave a state with the same constellation point: the transition is not uniquely invertible")
        # the first element of every two-element run must be the (0, st) transition
        if table.get(("first", st)) != table.get((0, st)):
            s.violation("initial_state_not_zero", {"tribit": st, "first_point": table.get(("first", st)), "T[0][t]": table.get((0, st))})
    s.extra["observed_table"] = [[table.get((st, tb)) for tb in range(8)] for st in range(8)]
    s.done()
    return table


def w_decode_positions(task):
    """(pos, kind): all (state, tribit) at this position: valid stream decodes to its tribits; each of the 8 points the
    state cannot emit is rejected, by points_to_tribits and by decode() on the assembled 196 bits"""
    pos, kind, table = task
    acc = Acc()
    states = range(8) if pos > 0 else [0]
    for st in states:
        emit = {table[(st, tb)] for tb in range(8)}
        for tb in range(8):
            seq = sequence_for(pos, st, tb, kind)
            case = {"kind": "valid", "position": pos, "state": st, "tribit": tb, "tribits": seq}
            try:
                pts = T.tribits_to_points(array("B", seq))
                if int(pts[pos]) != table[(st, tb)]:
                    acc.violation("point_depends_on_more_than_state_and_tribit", {**case, "point": int(pts[pos])})
                back = T.points_to_tribits(pts)
                if list(back) != seq:
                    acc.violation("valid_stream_decoded_to_other_tribits", {**case, "got": list(back)},
                                  "points_to_tribits(tribits_to_points(t)) != t")
            except Exception as e:
                acc.violation("exception_valid_stream:" + exc_sig(e), case, repr(e))
            acc.case(nontrivial=True, calls=2, outcome=("valid", st, tb), sample=case if (st == 0 and tb == 1) else None)
        # malformed: replace the point at `pos` by each point the state cannot emit
        seq = sequence_for(pos, st, 0, kind)
        try:
            good = T.tribits_to_points(array("B", seq))
        except Exception as e:
            acc.violation("exception_valid_stream:" + exc_sig(e), {"position": pos, "state": st}, repr(e))
            good = None
        for bad in range(16):
            if bad in emit:
                continue
            case = {"kind": "malformed", "position": pos, "state": st, "bad_point": bad, "tribits": seq}
            if good is None:
                acc.case()
                continue
            pts = array("B", good)
            pts[pos] = bad
            calls = 0
            # (a) the point decoder
            try:
                calls += 1
                got = T.points_to_tribits(pts)
                acc.violation("unemittable_point_decoded", {**case, "got": list(got)},
                              "points_to_tribits returns tribits for a stream with a point the current state cannot emit")
            except REJECT:
                pass
            except Exception as e:
                acc.violation("exception_malformed_stream:" + exc_sig(e), case, repr(e))
            # (b) the public decoder on the assembled 196-bit block
            try:
                calls += 4
                enc = T.dibits_to_bits(T.interleave(T.points_to_dibits(pts)))
                if len(enc) != 196:
                    acc.violation("assembled_stream_length", {**case, "len": len(enc)})
                else:
                    try:
                        got = T.decode(enc)
                        acc.violation("unemittable_point_decoded_by_decode", {**case, "encoded": bits_of(enc), "got": bits_of(got)},
                                      "decode() returns a block for 196 bits containing a point the current state cannot emit")
                    except REJECT:
                        pass
            except Exception as e:
                acc.violation("exception_malformed_stream:" + exc_sig(e), case, repr(e))
            acc.case(nontrivial=True, calls=calls, outcome=("rejected", st), sample=case if (st == 0 and bad < 2) else None)
    return acc


def sub_bijections(rep):
    s = rep.sub("dibit_and_point_bijections",
                "all 4 bit pairs <-> dibit symbols and all 16 points <-> dibit pairs, both directions: injective, mutually inverse")
    s.declared = 4 + 4 + 16 + 16
    # bits -> dibit
    fwd = {}
    for a, b in itertools.product((0, 1), repeat=2):
        case = {"map": "bits_to_dibits", "bits": [a, b]}
        try:
            d = T.bits_to_dibits(bitarray([a, b]))
            assert len(d) == 1
            fwd[(a, b)] = int(d[0])
            back = T.dibits_to_bits(d)
            if bits_of(back) != f"{a}{b}":
                s.violation("dibit_map_not_inverse", {**case, "dibit": int(d[0]), "back": bits_of(back)})
        except Exception as e:
            s.violation("exception_bijection:" + exc_sig(e), case, repr(e))
        s.case(nontrivial=True, calls=2, outcome=("d", fwd.get((a, b))), sample=case if (a, b) == (0, 1) else None)
    if len(set(fwd.values())) != 4:
        s.violation("dibit_map_not_injective", {"map": {f"{k[0]}{k[1]}": v for k, v in fwd.items()}})
    dib = sorted(set(fwd.values()))
    # dibit -> bits
    rev = {}
    for d in dib:
        case = {"map": "dibits_to_bits", "dibit": d}
        try:
            b = T.dibits_to_bits(array("b", [d]))
            rev[d] = bits_of(b)
            if len(b) != 2 or int(T.bits_to_dibits(b)[0]) != d:
                s.violation("dibit_map_not_inverse", {**case, "bits": bits_of(b)})
        except Exception as e:
            s.violation("exception_bijection:" + exc_sig(e), case, repr(e))
        s.case(nontrivial=True, calls=2, outcome=("b", rev.get(d)))
    for _ in range(4 - len(dib)):
        s.case(nontrivial=False, calls=0)  # keep the declared size when the forward map is broken (already reported)
    if len(set(rev.values())) != len(dib):
        s.violation("dibit_map_not_injective", {"reverse": rev})
    # point -> dibit pair
    p2d = {}
    for p in range(16):
        case = {"map": "points_to_dibits", "point": p}
        try:
            d = T.points_to_dibits(array("B", [p]))
            pair = tuple(int(x) for x in d)
            p2d[p] = pair
            if len(pair) != 2 or any(x not in dib for x in pair):
                s.violation("point_maps_outside_dibit_alphabet", {**case, "dibits": list(pair)})
            elif int(T.dibits_to_points(d)[0]) != p:
                s.violation("point_map_not_inverse", {**case, "dibits": list(pair)})
        except Exception as e:
            s.violation("exception_bijection:" + exc_sig(e), case, repr(e))
        s.case(nontrivial=True, calls=2, outcome=("p", p), sample=case if p == 5 else None)
    if len(set(p2d.values())) != 16:
        s.violation("point_map_not_injective", {"map": {str(k): list(v) for k, v in p2d.items()}})
    # dibit pair -> point (all 16 pairs)
    d2p = {}
    for x, y in itertools.product(dib if len(dib) == 4 else (3, 1, -1, -3), repeat=2):
        case = {"map": "dibits_to_points", "dibits": [x, y]}
        try:
            p = int(T.dibits_to_points(array("b", [x, y]))[0])
            d2p[(x, y)] = p
            back = tuple(int(v) for v in T.points_to_dibits(array("B", [p])))
            if not (0 <= p <= 15) or back != (x, y):
                s.violation("point_map_not_inverse", {**case, "point": p, "back": list(back)})
        except Exception as e:
            s.violation("exception_bijection:" + exc_sig(e), case, repr(e))
        s.case(nontrivial=True, calls=2, outcome=("q", d2p.get((x, y))))
    if len(set(d2p.values())) != 16:
        s.violation("point_map_not_injective", {"reverse": {f"{k[0]},{k[1]}": v for k, v in d2p.items()}})
    s.done()
    return dib


def sub_permutation(rep, dib):
    s = rep.sub("interleaver_permutation_98",
                "98 unit marker arrays x 2 (marker, background) dibit pairs x {interleave, deinterleave}: the marker lands on "
                "exactly one position, the 98 landing positions are pairwise distinct, deinterleave(interleave(x)) == x == "
                "interleave(deinterleave(x))")
    s.declared = 98 * 2 * 2
    if len(dib) < 2:
        dib = [3, 1, -1, -3]
    marks = [(max(dib), min(dib)), (min(dib), sorted(dib)[1])]
    for direction in ("interleave", "deinterleave"):
        f = getattr(T, direction)
        g = T.deinterleave if direction == "interleave" else T.interleave
        for mark, bg in marks:
            landing = {}
            for i in range(98):
                case = {"direction": direction, "marker_at": i, "marker": mark, "background": bg}
                try:
                    x = array("b", [bg] * 98)
                    x[i] = mark
                    y = f(x)
                    hits = [j for j, v in enumerate(y) if v == mark]
                    if len(y) != 98 or len(hits) != 1 or any(v not in (mark, bg) for v in y):
                        s.violation("not_a_permutation", {**case, "marker_seen_at": hits, "len": len(y)},
                                    f"{direction} does not move the marker to exactly one of 98 positions")
                    else:
                        landing[i] = hits[0]
                    z = g(y)
                    if list(z) != list(x):
                        s.violation("interleave_deinterleave_not_inverse", case, "the other direction does not undo it")
                    if list(x) != [bg] * i + [mark] + [bg] * (97 - i):
                        s.violation("input_array_mutated", case)
                except Exception as e:
                    s.violation("exception_permutation:" + exc_sig(e), case, repr(e))
                s.case(nontrivial=True, calls=2, outcome=(direction, landing.get(i)), sample=case if i == 2 and mark == marks[0][0] else None)
            if len(landing) == 98 and sorted(landing.values()) != list(range(98)):
                s.violation("not_a_permutation", {"direction": direction, "landing": landing}, "two positions map to the same place")
            s.extra.setdefault("landing_" + direction, [landing.get(i) for i in range(98)])
    li, ld = s.extra.get("landing_interleave"), s.extra.get("landing_deinterleave")
    if li and ld and None not in li and None not in ld:
        if any(ld[li[i]] != i for i in range(98)):
            s.violation("interleave_deinterleave_not_inverse", {"interleave": li, "deinterleave": ld},
                        "the two observed position maps are not inverse permutations")
    s.done()


def sub_locality(rep, table):
    s = rep.sub("point_locality",
                "for 2 background 49-tribit sequences: every position q x each of its 7 alternative tribit values (one "
                "tribits_to_points call each): all points other than q and q+1 unchanged, points q and q+1 equal the observed "
                "table entry for (previous tribit, tribit)")
    s.declared = 2 * NPOS * 7
    for kind in (0, 1):
        base = background_walk(kind, NPOS)
        try:
            bp = list(T.tribits_to_points(array("B", base)))
        except Exception as e:
            s.violation("exception_tribits_to_points:" + exc_sig(e), {"tribits": base}, repr(e))
            bp = None
        for q in range(NPOS):
            for alt in range(8):
                if alt == base[q]:
                    continue
                seq = list(base)
                seq[q] = alt
                case = {"background": kind, "position": q, "tribit": alt}
                try:
                    pts = list(T.tribits_to_points(array("B", seq)))
                    if bp is not None:
                        far = [p for p in range(NPOS) if p not in (q, q + 1) and pts[p] != bp[p]]
                        if far or len(pts) != NPOS:
                            s.violation("point_depends_on_distant_tribit", {**case, "changed_points": far},
                                        "changing tribit q alters a point other than q, q+1")
                    for p in (q, q + 1):
                        if p < NPOS:
                            prev = seq[p - 1] if p > 0 else 0
                            if pts[p] != table.get((prev, seq[p])):
                                s.violation("point_not_function_of_state_and_tribit", {**case, "point_index": p, "point": pts[p]})
                except Exception as e:
                    s.violation("exception_tribits_to_points:" + exc_sig(e), case, repr(e))
                s.case(nontrivial=True, calls=1, outcome=(q % 7, alt), sample=case if q == 1 and alt == 7 else None)
    s.done()


# ----------------------------------------------------------------------------------------------
# end to end
# ----------------------------------------------------------------------------------------------
def tribits_to_bitstring(tr):
    return "".join(format(t, "03b") for t in tr)


def e2e_blocks(thorough):
    """ordered, de-duplicated list of 144-bit strings"""
    seen = set()
    out = []

    def add(sbits):
        if sbits not in seen:
            seen.add(sbits)
            out.append(sbits)

    # every tribit position x every (previous, current) tribit pair over two backgrounds
    for kind in (0, 1):
        base = background_walk(kind, 48)
        for p in range(48):
            for prev in range(8):
                for cur in range(8):
                    seq = list(base)
                    if p > 0:
                        seq[p - 1] = prev
                    elif prev != 0:
                        continue  # position 0 has no predecessor: state is always 0
                    seq[p] = cur
                    add(tribits_to_bitstring(seq))
    for sbits in spaces.small_scope_messages(144, weight=3 if thorough else 1,
                                             extra=[env.det_bits(f"c10-block-{i}", 144) for i in range(4)]):
        add(sbits)
    return out


def one_e2e(acc, sbits, little):
    """one block through encode/decode as bitarray and as bytes, decode as bits and as bytes"""
    raw = int(sbits, 2).to_bytes(18, "big")
    case = {"block": raw.hex(), "little_endian_bitarray": little}
    calls = 0
    try:
        b = bitarray(sbits, endian="little" if little else "big")
        calls += 1
        enc = T.encode(b)
        if len(enc) != 196:
            acc.violation("encoded_length", {**case, "len": len(enc)}, "encode does not return 196 bits")
        else:
            calls += 2
            d1 = T.decode(enc)
            d2 = T.decode(enc, as_bytes=True)
            rev = "".join(sbits[i:i + 3][::-1] for i in range(0, 144, 3))
            if little and rev != sbits and bits_of(d1) == rev and d2 == int(rev, 2).to_bytes(18, "big"):
                # closed-form failure class: exactly the blocks with a non-palindromic tribit, read back with every
                # 3-bit group reversed.  Anything else falls through to the generic signatures below.
                acc.violation("little_endian_bitarray_read_with_each_tribit_bit_reversed", {**case, "got": d2.hex()},
                              "encode() of a bitarray(endian='little') forms each tribit with ba2int (storage order) instead of "
                              "index order; decode(encode(b)) != b although b == the same big-endian bitarray")
            else:
                if len(d1) != 144 or bits_of(d1) != sbits:
                    acc.violation("roundtrip_bits", {**case, "got": bits_of(d1)}, "decode(encode(block)) != block (bitarray in, bits out)")
                if d2 != raw:
                    acc.violation("roundtrip_bits_as_bytes", {**case, "got": bytes(d2).hex()}, "decode(encode(block), as_bytes=True) != block octets")
            if bits_of(b) != sbits:
                acc.violation("encode_mutates_input", case)
        if not little:
            calls += 1
            enc2 = T.encode(raw)
            if len(enc2) != 196:
                acc.violation("encoded_length", {**case, "len": len(enc2), "input": "bytes"})
            else:
                if len(enc) == 196 and bits_of(enc2) != bits_of(enc):
                    acc.violation("bytes_and_bits_encode_differently", case, "encode(bytes) != encode(bitarray of the same block)")
                calls += 1
                d3 = T.decode(enc2, as_bytes=True)
                if d3 != raw:
                    acc.violation("roundtrip_bytes", {**case, "got": bytes(d3).hex()}, "decode(encode(octets), as_bytes=True) != octets")
    except Exception as e:
        acc.violation("exception_roundtrip:" + exc_sig(e), case, repr(e))
    acc.case(nontrivial=True, calls=calls, outcome=sbits.count("1") // 12, sample=case if acc.n == 0 else None)


def w_e2e(task):
    blocks, little = task
    acc = Acc()
    for sbits in blocks:
        one_e2e(acc, sbits, little)
    return acc


def run(only=None):
    rep = Report("C10")
    thorough = rep.thorough()
    nw = env.workers()
    rep.explanation = (
        "Explicit exploration of the encoder FSM through the real functions: 64 (state, tribit) transitions, "
        "8x16 (state, point) pairs at each of the 49 stream positions (valid ones must decode to the driving tribit, the "
        "64 un-emittable ones must be refused by points_to_tribits and by decode()), the 4/16-element symbol maps, the "
        "98-position permutation in both directions, point locality, then complete enumeration of a structured set of "
        "144-bit blocks end to end. state = one (position, state, symbol) or block; transition = one real call."
    )
    rep.assumptions = [
        "relational oracle only: the statement claims losslessness and rejection, not conformance of the constellation "
        "numbering to ETSI B.2.4 -- a consistent renumbering of points in both directions is outside this property",
        "asserts enabled (no python -O): the rejection is an assert statement",
        "a 144-bit block 'supplied as bits' is a bitarray read in index order; its storage endianness must not matter "
        "(checked separately in end_to_end_little_endian_bitarray)",
    ]

    def want(n):
        return only is None or n in only

    table = sub_transitions(rep)
    complete = all((st, tb) in table for st in range(8) for tb in range(8))

    if want("decode_every_state_point_position") and complete:
        s = rep.sub("decode_every_state_point_position",
                    "49 positions x 8 states (state 0 only at position 0) x {8 tribits: valid stream decodes to its tribits; 8 "
                    "points the state cannot emit: refused by points_to_tribits and by decode()} x 2 background walks")
        s.declared = 2 * (48 * 8 + 1) * 16
        tasks = [(pos, kind, table) for kind in (0, 1) for pos in range(NPOS)]
        for acc in par.pmap(w_decode_positions, tasks, nw):
            s.merge(acc)
        s.done()

    dib = sub_bijections(rep)
    sub_permutation(rep, dib)
    if complete:
        sub_locality(rep, table)

    blocks = e2e_blocks(thorough)
    if want("end_to_end_blocks"):
        s = rep.sub("end_to_end_blocks",
                    "blocks = {2 backgrounds x 48 tribit positions x all 64 (previous, current) tribit pairs} + all weight<="
                    + ("3" if thorough else "1") + " vectors and complements + 0101/1010 + 4 seed blocks (de-duplicated), each as "
                    "big-endian bitarray and as bytes, decoded as bits and as bytes: 196 bits out, block back")
        s.declared = len(blocks)
        for acc in par.pmap(w_e2e, [(ch, False) for ch in par.split_list(blocks, 128)], nw):
            s.merge(acc)
        s.extra["blocks"] = len(blocks)
        s.done()
    if want("end_to_end_little_endian_bitarray"):
        s = rep.sub("end_to_end_little_endian_bitarray",
                    "the same blocks supplied as bitarray(endian='little') (same bit string in index order; "
                    "bitarray equality ignores the storage endianness)")
        s.declared = len(blocks)
        for acc in par.pmap(w_e2e, [(ch, True) for ch in par.split_list(blocks, 128)], nw):
            s.merge(acc)
        s.done()

    if want("encode_decode_again_after_caller_used_result"):
        # histories of length 2 on one block: the caller owns what encode()/decode() return; writing into it must not change what the
        # next call with the same block returns (cached / shared result objects)
        s = rep.sub("encode_decode_again_after_caller_used_result",
                    "weight <= 1 blocks + complements + seed blocks, supplied as bits and as bytes: encode, scribble on the returned "
                    "bitarray in place, encode again; decode, scribble, decode again (bits and bytes results)")
        blocks = spaces.small_scope_messages(144, 1, extra=[env.det_bits(f"c10-again-{i}", 144) for i in range(4)])
        for b in blocks:
            case = {"block": hex(int(b, 2))}
            try:
                for form, arg in (("bits", lambda: bitarray(b)), ("bytes", lambda: bitarray(b).tobytes())):
                    first = T.encode(arg())
                    snap = first.to01()
                    first.invert()
                    first.extend("1011")
                    again = T.encode(arg())
                    if again.to01() != snap:
                        s.violation(f"second_encode_differs_after_caller_wrote_first_result:{form}", {**case, "len_again": len(again)},
                                    "encoding the same block again gives other bits once the caller has modified the first result")
                    again.invert()
                    d1 = T.decode(bitarray(snap))
                    dsnap = d1.to01()
                    d1.invert()
                    d2 = T.decode(bitarray(snap))
                    if d2.to01() != dsnap or dsnap != b:
                        s.violation(f"second_decode_differs_after_caller_wrote_first_result:{form}", case)
                    d2.invert()
                    if T.decode(bitarray(snap), as_bytes=True) != bitarray(b).tobytes():
                        s.violation("decode_as_bytes_differs_after_history", case)
            except Exception as e:
                s.violation("exception_encode_again:" + exc_sig(e), case, repr(e))
            s.case(nontrivial=True, calls=10, outcome="ok", sample=case if len(s.samples) < 1 else None)
        s.done()


    if want("input_containers"):
        # the block / the stream in the other containers a caller holds bits in: read-only and non-resizable ones included
        s = rep.sub("input_containers",
                    "weight <= 1 blocks + complements + seed blocks x {frozenbitarray, bitarray with a live memoryview (not resizable), "
                    "bitarray over an imported read-only buffer, bitarray slice of a longer buffer}: encode and decode give the same bits "
                    "as for a plain bitarray and leave the argument as it was")
        blocks2 = spaces.small_scope_messages(144, 1, extra=[env.det_bits(f"c10-cont-{i}", 144) for i in range(4)])

        def containers(bits01):
            plain = bitarray(bits01)
            yield "frozenbitarray", frozenbitarray(plain), None
            x = bitarray(bits01)
            yield "bitarray_with_exported_buffer", x, memoryview(x)
            pad = (-len(plain)) % 8
            yield "bitarray_over_readonly_buffer", bitarray(buffer=(plain + bitarray(pad)).tobytes())[: len(plain)] if pad else bitarray(buffer=plain.tobytes()), None
            if not pad:
                yield "bitarray_over_writable_buffer", bitarray(buffer=bytearray(plain.tobytes())), None

        for b in blocks2:
            case = {"block": hex(int(b, 2))}
            try:
                ref = T.encode(bitarray(b)).to01()
            except Exception as e:  # noqa: BLE001
                s.violation("exception_containers:" + exc_sig(e), case, repr(e))
                continue
            for kind, arg, keep in containers(b):
                try:
                    enc = T.encode(arg)
                    if enc.to01() != ref:
                        s.violation(f"encode_differs_for_container:{kind}", case)
                    if arg.to01() != b:
                        s.violation(f"encode_alters_argument:{kind}", case)
                except Exception as e:  # noqa: BLE001
                    s.violation(f"exception_encode_container:{kind}:" + exc_sig(e), case, repr(e))
                del keep
                s.case(nontrivial=True, calls=1, outcome=kind, sample={**case, "container": kind} if len(s.samples) < 2 else None)
            for kind, arg, keep in containers(ref):
                try:
                    dec = T.decode(arg)
                    if dec.to01() != b:
                        s.violation(f"decode_differs_for_container:{kind}", case)
                    if T.decode(arg, as_bytes=True) != bitarray(b).tobytes():
                        s.violation(f"decode_as_bytes_differs_for_container:{kind}", case)
                    if arg.to01() != ref:
                        s.violation(f"decode_alters_argument:{kind}", case)
                except Exception as e:  # noqa: BLE001
                    s.violation(f"exception_decode_container:{kind}:" + exc_sig(e), case, repr(e))
                del keep
                s.case(nontrivial=True, calls=2, outcome=kind)
        s.done()

    if want("history_with_out_of_range_calls"):
        # histories of length 2 whose first call is *outside* the domain (any outcome of that call is accepted -- the property says
        # nothing about it); the second, valid, call must behave as in a fresh process
        s = rep.sub("history_with_out_of_range_calls",
                    "12 public functions x 11 out-of-range arguments (empty, short, over-long, wrong element range, wrong container); "
                    "whatever that call does, the next valid encode/decode/interleave/deinterleave of 3 blocks gives the reference result")
        probe_blocks = [env.det_bits(f"c10-oor-{i}", 144) for i in range(2)] + ["1" * 144]
        refs = []
        for b in probe_blocks:
            enc = T.encode(bitarray(b))
            dd = T.bits_to_dibits(enc)
            refs.append((b, enc.to01(), list(T.deinterleave(dd)), list(T.interleave(T.deinterleave(dd)))))
        fnames = ["bits_to_dibits", "dibits_to_bits", "deinterleave", "interleave", "dibits_to_points", "points_to_dibits",
                  "points_to_tribits", "tribits_to_points", "tribits_to_bits", "bits_to_tribits", "decode", "encode"]
        bad_args = [
            ("empty_bitarray", lambda: bitarray()), ("bitarray_200", lambda: bitarray("10" * 100)), ("bitarray_7", lambda: bitarray("1011011")),
            ("bitarray_197", lambda: bitarray("110" * 65 + "10")), ("empty_array", lambda: array("B")), ("array_100", lambda: array("B", [1] * 100)),
            ("array_50", lambda: array("B", [1] * 50)), ("signed_array_100", lambda: array("b", [1, -1, 3, -3] * 25)),
            ("bytes_25", lambda: bytes(range(25))), ("array_98_of_200", lambda: array("B", [200] * 98)), ("list_99", lambda: [1, 0, 1] * 33),
        ]
        def w_oor(fns):
            acc = Acc()
            s = acc  # noqa: F841  (same interface)
            for fn in fns:
                for lab, mk in bad_args:
                    case = {"first_call": f"Trellis34.{fn}({lab})"}
                    outcome = "returned"
                    try:
                        getattr(T, fn)(mk())
                    except Exception as e:  # noqa: BLE001
                        outcome = type(e).__name__
                    for b, enc01, deint, inter in refs:
                        try:
                            enc = T.encode(bitarray(b))
                            if enc.to01() != enc01:
                                s.violation("encode_differs_after_out_of_range_call", {**case, "block": hex(int(b, 2))})
                            if T.decode(bitarray(enc01)).to01() != b or T.decode(bitarray(enc01), as_bytes=True) != bitarray(b).tobytes():
                                s.violation("decode_differs_after_out_of_range_call", {**case, "block": hex(int(b, 2))})
                            dd = T.bits_to_dibits(bitarray(enc01))
                            if list(T.deinterleave(dd)) != deint or list(T.interleave(T.deinterleave(dd))) != inter:
                                s.violation("interleaver_differs_after_out_of_range_call", {**case, "block": hex(int(b, 2))})
                        except Exception as e:  # noqa: BLE001
                            s.violation("exception_after_out_of_range_call:" + exc_sig(e), {**case, "block": hex(int(b, 2))},
                                        f"a valid call raises after {case['first_call']}: {e!r}")
                            break
                    s.case(nontrivial=True, calls=1 + 6 * len(refs), outcome=outcome, sample=case if len(s.samples) < 2 else None)
                    if acc.viol:
                        return acc  # this process is spoilt: the cases after the first failing one would all blame the wrong call
            return acc

        # in forked children: whatever an out-of-range call leaves behind must not reach the other sub-checks of this run
        for acc in par.pmap(w_oor, par.split_list(fnames, 4), 4):
            s.merge(acc)
        if not s.viol:
            s.declared = len(fnames) * len(bad_args)
        s.done()

    if want("kept_results"):
        s = rep.sub("kept_results", "encode / decode / the stage functions of 24 blocks in a row with every returned object kept by the caller: after the last call "
                                    "each is still the result of its own call")
        kb = spaces.small_scope_messages(144, 0, extra=[env.det_bits(f"c10-kept-{i}", 144) for i in range(22)])
        hist.kept_results(s, "encode", [({"block": hex(int(b, 2))}, (lambda b=b: T.encode(bitarray(b)))) for b in kb], obs=lambda r: r.to01())
        encs = [T.encode(bitarray(b)).to01() for b in kb]
        hist.kept_results(s, "decode", [({"block": hex(int(b, 2))}, (lambda e=e: T.decode(bitarray(e)))) for b, e in zip(kb, encs)], obs=lambda r: r.to01())
        for fn in ("bits_to_dibits", "bits_to_tribits"):
            hist.kept_results(s, fn, [({"block": hex(int(b, 2))}, (lambda e=e, fn=fn: getattr(T, fn)(bitarray(e)))) for b, e in zip(kb, encs)], obs=lambda r: list(r))
        s.done()

    if want("callers_buffer_overwritten_in_place"):
        s = rep.sub("callers_buffer_overwritten_in_place",
                    "the caller builds every 144-bit block and holds every received 196 bits in ONE bitarray (bytes entry points: one bytearray) that it "
                    "overwrites in place between calls (one-bit changes, a field counted up, the first content again): encode, decode and the stage "
                    "functions answer for the buffer's present content")
        rbase = env.det_bits("c10-reuse", 144)
        rb = [rbase]
        for pos in (0, 143, 72, 5):
            rb.append(rb[-1][:pos] + ("1" if rb[-1][pos] == "0" else "0") + rb[-1][pos + 1:])
        rb += [rbase[:141] + format(i, "03b") for i in range(8)] + [rbase]
        rencs = [T.encode(bitarray(b)).to01() for b in rb]
        ents = [("encode", (lambda b: T.encode(b).to01()), [bitarray(b) for b in rb], None),
                ("decode", (lambda e: T.decode(e).to01()), [bitarray(e) for e in rencs], list(rb)),
                ("decode_as_bytes", (lambda e: bytes(T.decode(e, as_bytes=True)).hex()), [bitarray(e) for e in rencs], None)]
        for fn in ("bits_to_dibits", "bits_to_tribits"):
            if callable(getattr(T, fn, None)):
                ents.append((fn, (lambda e, fn=fn: list(getattr(T, fn)(e))), [bitarray(e) for e in (rencs if fn == "bits_to_dibits" else rb)], None))
        hist.reused_buffer(s, "trellis", ents)
        s.done()

    if want("storage_twin_histories"):
        s = rep.sub("storage_twin_histories",
                    "6 blocks x 4 containers that a cache keyed by storage octets confuses (big-endian bitarray, little-endian bitarray over the same octets = "
                    "another block, little-endian bitarray with the same bits, bytes): all ordered pairs of encode calls back to back; each result has 196 bits "
                    "and decodes to the block its own container holds; same for decode over the containers of 6 encoded blocks")
        tb = [env.det_bits(f"c10-twin-{i}", 144) for i in range(5)] + ["10110010" * 18]
        tenc = {}
        for b in tb:
            for _, o, bits in hist.storage_twins(b):
                tenc.setdefault(bits, None)

        def ok_enc(r, bits):
            return len(r) == 196 and T.decode(bitarray(r.to01())).to01() == bits

        def ok_dec(r, bits):
            # `bits` = the 196 received bits the container holds; the oracle: re-encoding what was decoded gives them back (valid streams only)
            return len(r) == 144 and T.encode(bitarray(r.to01())).to01() == bits

        encs196 = [T.encode(bitarray(b)).to01() for b in tb[:3]]
        hist.storage_twin_histories(s, "trellis", [
            ("encode", (lambda x: T.encode(x)), tb, ok_enc, True),
        ])
        # decode: only containers whose bit string is a valid stream (the big-endian one and the little-endian one with the same bits)
        for e196 in encs196:
            pair = [(k, o, b) for k, o, b in hist.storage_twins(e196) if b == e196]
            for ka, oa, _ in pair:
                for kb, ob, _ in pair:
                    for o_ in (oa, ob):
                        r = T.decode(o_.copy())
                        if not ok_dec(r, e196):
                            s.violation("storage_twins:wrong_result_in_a_history_of_storage_twins:trellis:decode", {"first": ka, "second": kb})
                    s.case(nontrivial=True, calls=2, outcome="twin_pair_decode")
        s.done()

    if want("long_call_history"):
        s = rep.sub("long_call_history",
                    "encode / decode (bits and bytes) of one fixed block called again and again in one process: the result never depends on "
                    "how many calls came before.  Depth 3 when a call leaves class/module data untouched (observed), 2^16+256 calls per "
                    "entry point when it does not, and always in the thorough tier")
        lb = env.det_bits("c10-long", 144)
        lenc = T.encode(bitarray(lb))
        hist.long_history(s, [T, trellis_module], [
            ("encode_bits", lambda: T.encode(bitarray(lb)).to01()),
            ("encode_bytes", lambda: T.encode(bitarray(lb).tobytes()).to01()),
            ("decode_bits", lambda: T.decode(bitarray(lenc)).to01()),
            ("decode_bytes", lambda: T.decode(bitarray(lenc), as_bytes=True)),
        ], always=thorough)
        hist.picklable_entry_points(s, {n_: getattr(T, n_) for n_ in ("encode", "decode", "interleave", "deinterleave", "bits_to_dibits", "dibits_to_bits",
                                                                     "points_to_tribits", "tribits_to_points", "bits_to_tribits", "tribits_to_bits")})

        def blk(i):
            return format((i * 0x9E3779B97F4A7C15F39CC0605CEDC835 + 1) % (1 << 144), "0144b")

        hist.many_distinct_inputs(s, [T, trellis_module], [
            ("encode", lambda i: blk(i), lambda b: T.encode(bitarray(b)).to01()),
            ("decode", lambda i: T.encode(bitarray(blk(i))), lambda e: T.decode(e).to01()),
        ], always=thorough)
        # the documented parameters given by name
        for b in blocks[:8]:
            case = {"block": hex(int(b, 2))}
            try:
                by_name = T.encode(decoded=bitarray(b))
                if by_name.to01() != T.encode(bitarray(b)).to01() or T.encode(decoded=bitarray(b).tobytes()).to01() != by_name.to01():
                    s.violation("encode_differs_when_the_block_is_passed_by_name", case)
                if T.decode(encoded=by_name).to01() != b or T.decode(encoded=by_name, as_bytes=True) != bitarray(b).tobytes() or T.decode(by_name, True) != bitarray(b).tobytes():
                    s.violation("decode_differs_when_arguments_are_passed_by_name_or_position", case)
            except Exception as e:  # noqa: BLE001
                s.violation("exception_arguments_by_name:" + exc_sig(e), case, repr(e))
            s.case(nontrivial=True, calls=6, outcome="by_name")
        s.done()

    rep.bounds = {
        "fsm": "complete: 64 transitions, 8x16 state/point pairs at all 49 positions",
        "maps": "complete: 4 dibits, 16 points, 98 positions, both directions",
        "blocks": f"{len(blocks)} structured blocks, not all 2^144; the step to all blocks rests on locality + the complete FSM/maps",
        "malformed_streams": "exactly one un-emittable point per stream, rest of the stream valid",
    }
    return rep.finish()


def replay(doc):
    bad = 0
    for c in doc.get("cases", []):
        try:
            if "block" in c:
                raw = bytes.fromhex(c["block"])
                sbits = format(int.from_bytes(raw, "big"), "0144b")
                b = bitarray(sbits, endian="little" if c.get("little_endian_bitarray") else "big")
                enc = T.encode(b)
                dec = T.decode(enc)
                print(f"block {raw.hex()} endian={b.endian}: encoded {len(enc)} bits, decoded {'==' if bits_of(dec) == sbits else '!='} block")
                bad |= bits_of(dec) != sbits or len(enc) != 196
            elif c.get("kind") == "malformed":
                pts = T.tribits_to_points(array("B", c["tribits"]))
                pts[c["position"]] = c["bad_point"]
                try:
                    got = T.points_to_tribits(pts)
                    print(f"position {c['position']} state {c['state']} point {c['bad_point']}: DECODED to {list(got)}")
                    bad = 1
                except REJECT as e:
                    print(f"position {c['position']} state {c['state']} point {c['bad_point']}: rejected ({type(e).__name__})")
            else:
                print("no replay recipe for", c)
        except Exception as e:
            print("exception", repr(e), "on", c)
            bad = 1
    return 1 if bad else 0

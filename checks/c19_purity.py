"""C19 -- codec calls are pure: results do not depend on earlier calls, argument buffers stay unchanged.

State = the interpreter after importing the library (a pristine parent process).  Events = a catalogue of
closed calls covering every codec family.  Every explored call sequence runs in its own forked child of the
pristine parent; the digest of the last call must equal the digest of the same call made alone
(fresh[i], itself cross-validated against a brand-new interpreter), and the argument buffers of every
call must be bit-identical before and after it.

  * all ordered pairs (i, j) incl. i == j                      -- exhaustive over the catalogue
  * all ordered triples over the ops touching shared state     -- CRC singletons, cached table, class-level
                                                                  token tables, default-argument objects
  * the whole catalogue under different clock / randomness seams, and in two fresh interpreters with
    different fake dates (import-time defaults): parse results must not change
"""
from mc import env
from mc import par
from mc.canon import canon, h
from mc.report import Report, Acc

import json
import os
import pickle
import subprocess
import sys

from bitarray import bitarray
from bitarray.util import int2ba

HEX = bytes.fromhex


def ba(s):
    return bitarray(s)


def bits_of(b: bytes):
    x = bitarray()
    x.frombytes(b)
    return x


# ------------------------------------------------------------------------------------------------
# catalogue: name -> (make_args, call, flags)      flags: "inplace" = documented in-place repair,
#                                                         "parse"   = a parse/decode op (clock-independence),
#                                                         "shared"  = touches shared state (triples)
# ------------------------------------------------------------------------------------------------
OPS = {}


def op(name, *flags):
    def deco(pair_factory):
        make_args, call = pair_factory()
        OPS[name] = (make_args, call, set(flags))
        return pair_factory

    return deco


def build_catalogue():
    from okdmr.dmrlib.etsi.crc.crc import BitCrcCalculator, Crc7, Crc8, Crc9, Crc16, Crc32
    from okdmr.dmrlib.etsi.crc.crc8 import CRC8
    from okdmr.dmrlib.etsi.crc.crc9 import CRC9
    from okdmr.dmrlib.etsi.crc.crc16 import CRC16
    from okdmr.dmrlib.etsi.crc.crc32 import CRC32
    from okdmr.dmrlib.etsi.layer2.elements.crc_masks import CrcMasks
    from okdmr.dmrlib.etsi.fec.hamming_7_4_3 import Hamming743
    from okdmr.dmrlib.etsi.fec.hamming_13_9_3 import Hamming1393
    from okdmr.dmrlib.etsi.fec.hamming_15_11_3 import Hamming15113
    from okdmr.dmrlib.etsi.fec.hamming_16_11_4 import Hamming16114
    from okdmr.dmrlib.etsi.fec.hamming_17_12_3 import Hamming17123
    from okdmr.dmrlib.etsi.fec.golay_20_8_7 import Golay2087
    from okdmr.dmrlib.etsi.fec.quadratic_residue_16_7_6 import QuadraticResidue1676
    from okdmr.dmrlib.etsi.fec.bptc_196_96 import BPTC19696
    from okdmr.dmrlib.etsi.fec.vbptc_128_72 import VBPTC12873
    from okdmr.dmrlib.etsi.fec.vbptc_68_28 import VBPTC6828
    from okdmr.dmrlib.etsi.fec.vbptc_32_11 import VBPTC3211
    from okdmr.dmrlib.etsi.fec.trellis import Trellis34
    from okdmr.dmrlib.etsi.fec.reed_solomon_12_9_4 import ReedSolomon1294
    from okdmr.dmrlib.etsi.fec.five_bit_checksum import FiveBitChecksum
    from okdmr.dmrlib.etsi.layer2.burst import Burst
    from okdmr.dmrlib.etsi.layer2.elements.burst_types import BurstTypes
    from okdmr.dmrlib.etsi.layer2.elements.data_types import DataTypes
    from okdmr.dmrlib.etsi.layer2.elements.sync_patterns import SyncPatterns
    from okdmr.dmrlib.etsi.layer2.pdu.csbk import CSBK
    from okdmr.dmrlib.etsi.layer2.pdu.data_header import DataHeader
    from okdmr.dmrlib.etsi.layer2.pdu.full_link_control import FullLinkControl
    from okdmr.dmrlib.etsi.layer2.pdu.short_link_control import ShortLinkControl
    from okdmr.dmrlib.etsi.layer2.pdu.pi_header import PIHeader
    from okdmr.dmrlib.etsi.layer2.pdu.slot_type import SlotType
    from okdmr.dmrlib.etsi.layer2.pdu.embedded_signalling import EmbeddedSignalling
    from okdmr.dmrlib.etsi.layer2.pdu.rate12_data import Rate12Data, Rate12DataTypes
    from okdmr.dmrlib.etsi.layer2.pdu.rate34_data import Rate34Data, Rate34DataTypes
    from okdmr.dmrlib.etsi.layer2.pdu.rate1_data import Rate1Data, Rate1DataTypes
    from okdmr.dmrlib.etsi.layer3.pdu.udp_ipv4_compressed_header import UDPIPv4CompressedHeader
    from okdmr.dmrlib.hytera.pdu.hstrp import HSTRP
    from okdmr.dmrlib.hytera.pdu.hrnp import HRNP
    from okdmr.dmrlib.hytera.pdu.hdap import HDAP
    from okdmr.dmrlib.hytera.pdu.radio_control_protocol import (
        RadioControlProtocol, RCPOpcode, StatusChangeNotificationTargets, StatusChangeNotificationSetting)
    from okdmr.dmrlib.hytera.pdu.location_protocol import LocationProtocol
    from okdmr.dmrlib.hytera.hytera_ipsc import HyteraIPSC
    from okdmr.dmrlib.motorola.mbxml import MBXML, MBXMLDocumentIdentifier
    from okdmr.dmrlib.motorola.lrrp import LRRP
    from okdmr.dmrlib.motorola.text_messaging_service import TextMessagingService
    from okdmr.dmrlib.motorola.automatic_registration_service import AutomaticRegistrationService
    from okdmr.dmrlib.utils.bits_bytes import byteswap_bytes, byteswap_bytearray, bytes_to_bits
    from okdmr.kaitai.hytera.ip_site_connect_protocol import IpSiteConnectProtocol
    import numpy

    MSG_A = "1011001110001111000010101010110011001" + "0110" * 10
    MSG_B = "0100110001110000111101010101001100110" + "1001" * 10

    # ---- CRC engines ------------------------------------------------------------------------------
    for cname, cfg in (("crc7", Crc7.ETSI_DMR), ("crc8", Crc8.ETSI_DMR), ("crc9", Crc9.ETSI_DMR), ("crc16", Crc16.ETSI_DMR), ("crc32", Crc32.ETSI_DMR)):
        for tb in (False, True):
            for mi, msg in enumerate((MSG_A, MSG_B[:61])):
                def f(cfg=cfg, tb=tb, msg=msg):
                    return (lambda: (ba(msg),)), (lambda bits: BitCrcCalculator(table_based=tb, configuration=cfg).calculate_checksum(bits))
                op(f"{cname}_{'table' if tb else 'bitwise'}_m{mi}", "shared")(f)
    from okdmr.dmrlib.etsi.crc.crc import BitCrcConfiguration as _BCfg
    _REFL = _BCfg(width_bits=32, polynomial=0x04C11DB7, init_value=0xFFFFFFFF, final_xor_value=0xFFFFFFFF, reverse_input_bytes=True, reverse_output_bytes=True)
    op("crc32_reflected_custom_configuration_bitwise", "shared")(lambda: ((lambda: (ba(MSG_A[:40]),)), (lambda b: BitCrcCalculator(_REFL, table_based=False).calculate_checksum(b))))
    op("crc32_reflected_custom_configuration_table", "shared")(lambda: ((lambda: (ba(MSG_B[:56]),)), (lambda b: BitCrcCalculator(_REFL, table_based=True).calculate_checksum(b))))
    op("CRC8.calculate_A", "shared")(lambda: ((lambda: (ba(MSG_A[:28]),)), (lambda b: CRC8.calculate(b))))
    op("CRC8.calculate_B", "shared")(lambda: ((lambda: (ba(MSG_B[:28]),)), (lambda b: CRC8.calculate(b))))
    op("CRC8.check", "shared")(lambda: ((lambda: (ba(MSG_A[:28]),)), (lambda b: CRC8.check(b, 0x55))))
    op("CRC9.from_parts", "shared")(lambda: ((lambda: (bytearray(b"\x01\x02\x03\x04\x05\x06\x07\x08\x09\x0a"),)),
                                              (lambda d: CRC9.calculate_from_parts(bytes(d), 5, CrcMasks.Rate12DataContinuation))))
    op("CRC9.from_parts_crc32", "shared")(lambda: ((lambda: (b"\x11\x22\x33\x44\x55\x66", b"\xde\xad\xbe\xef")),
                                                    (lambda d, c: CRC9.calculate_from_parts(d, 127, CrcMasks.Rate12DataContinuation, c))))
    op("CRC9.calculate_bits", "shared")(lambda: ((lambda: (ba(MSG_A[:87]),)), (lambda b: CRC9.calculate(b, CrcMasks.Rate34DataContinuation))))
    op("CRC16.calculate_hdr", "shared")(lambda: ((lambda: (HEX("023a2337fc2337fe8200"),)), (lambda d: CRC16.calculate(d, CrcMasks.DataHeader))))
    op("CRC16.calculate_csbk", "shared")(lambda: ((lambda: (HEX("bd0000010001019a0001"),)), (lambda d: CRC16.calculate(d, CrcMasks.CSBK))))
    op("CRC16.check", "shared")(lambda: ((lambda: (HEX("023a2337fc2337fe8200"),)), (lambda d: CRC16.check(d, 0x81A3, CrcMasks.DataHeader))))
    op("CRC32.calculate_even", "shared")(lambda: ((lambda: (bytes(range(1, 21)),)), (lambda d: CRC32.calculate(d))))
    op("CRC32.calculate_odd", "shared")(lambda: ((lambda: (bytes(range(7, 24)),)), (lambda d: CRC32.calculate(d))))
    op("CRC32.check", "shared")(lambda: ((lambda: (bytes(range(1, 21)),)), (lambda d: CRC32.check(d, 0x12345678))))
    # inputs that collide under careless memoisation keys: same octets, different bit length / storage order
    op("CRC8.calculate_A_padded32", "shared")(lambda: ((lambda: (ba(MSG_A[:28] + "0000"),)), (lambda b: CRC8.calculate(b))))
    op("CRC9.calculate_bits_88", "shared")(lambda: ((lambda: (ba(MSG_A[:87] + "0"),)), (lambda b: CRC9.calculate(b, CrcMasks.Rate34DataContinuation))))
    op("CRC8.calculate_A_little_endian", "shared")(lambda: ((lambda: (bitarray(MSG_A[:28], endian="little"),)), (lambda b: CRC8.calculate(b))))
    for cname, cfg in (("crc7", Crc7.ETSI_DMR), ("crc16", Crc16.ETSI_DMR)):
        for tb in (False, True):
            def f2(cfg=cfg, tb=tb):
                return (lambda: (ba(MSG_B[:61] + "000"),)), (lambda bits: BitCrcCalculator(table_based=tb, configuration=cfg).calculate_checksum(bits))
            op(f"{cname}_{'table' if tb else 'bitwise'}_m1_padded64", "shared")(f2)
    op("CRC16.calculate_hdr_trailing_zero_octet", "shared")(lambda: ((lambda: (HEX("023a2337fc2337fe8200") + b"\x00",)), (lambda d: CRC16.calculate(d, CrcMasks.DataHeader))))
    op("CRC32.calculate_even_plus_zero", "shared")(lambda: ((lambda: (bytes(range(1, 21)) + b"\x00\x00",)), (lambda d: CRC32.calculate(d))))
    op("byteswap_bytes")(lambda: ((lambda: (b"\x01\x02\x03\x04\x05",)), (lambda d: byteswap_bytes(d))))
    op("byteswap_bytearray_even")(lambda: ((lambda: (bytearray(b"\x01\x02\x03\x04"),)), (lambda d: byteswap_bytearray(d))))
    op("byteswap_bytearray_odd")(lambda: ((lambda: (bytearray(b"\x01\x02\x03\x04\x05"),)), (lambda d: byteswap_bytearray(d))))
    op("bytes_to_bits")(lambda: ((lambda: (b"\xa5\x0f",)), (lambda d: bytes_to_bits(d))))

    # ---- block codes ----------------------------------------------------------------------------------
    for cname, cls, k in (("h743", Hamming743, 4), ("h1393", Hamming1393, 9), ("h15113", Hamming15113, 11), ("h16114", Hamming16114, 11),
                          ("h17123", Hamming17123, 12), ("golay", Golay2087, 8), ("qr", QuadraticResidue1676, 7)):
        def g(cls=cls, k=k):
            return (lambda: (ba(MSG_A[:k]),)), (lambda b: cls.generate(b))
        op(f"{cname}.generate")(g)

        def c(cls=cls, k=k):
            return (lambda: (bitarray(cls.generate(ba(MSG_A[:k])).tolist()),)), (lambda w: cls.check(w))
        op(f"{cname}.check")(c)
        if cname.startswith("h"):
            def r(cls=cls, k=k):
                def mk():
                    w = bitarray(cls.generate(ba(MSG_B[:k])).tolist())
                    w.invert(2)
                    return (w,)
                return mk, (lambda w: cls.check_and_correct(w))
            op(f"{cname}.check_and_correct", "inplace")(r)
    # the same 16-bit word through the two codes of that length (they share the syndrome helper) and through the PDU that uses one of them
    for wname, W in (("qr_codeword", "0001011101110100"), ("h16114_codeword", "1011001110010100")):
        op(f"h16114.check_{wname}")(lambda W=W: ((lambda: (ba(W),)), (lambda w: Hamming16114.check(w))))
        op(f"qr.check_{wname}")(lambda W=W: ((lambda: (ba(W),)), (lambda w: QuadraticResidue1676.check(w))))
        op(f"emb.from_bits_{wname}", "parse")(lambda W=W: ((lambda: (ba(W),)), (lambda w: EmbeddedSignalling.from_bits(w))))
    op("fivebit.generate")(lambda: ((lambda: (ba(MSG_A[:72]),)), (lambda b: FiveBitChecksum.generate(b))))

    # ---- BPTC / VBPTC / trellis / RS -----------------------------------------------------------------------
    M96 = (MSG_A + MSG_B)[:96]
    op("bptc.encode", "shared")(lambda: ((lambda: (ba(M96),)), (lambda b: BPTC19696.encode(b))))

    def bptc_dec(repair, flip):
        def mk():
            e = BPTC19696.encode(ba(M96))
            for i in flip:
                e.invert(i)
            return (e,)
        return mk, (lambda e: BPTC19696.deinterleave_data_bits(e, repair))
    op("bptc.decode_clean", "parse")(lambda: bptc_dec(True, ()))
    op("bptc.decode_norepair", "parse")(lambda: bptc_dec(False, ()))
    op("bptc.decode_1err", "parse")(lambda: bptc_dec(True, (17,)))

    def bptc_dec_reserved():
        # a received block whose reserved bits R(3)..R(0) (transmit positions 0, 181, 166, 151) are not zero
        def mk():
            e = BPTC19696.encode(ba(M96))
            for i in (0, 151, 166, 181):
                e.invert(i)
            return (e,)
        return mk, (lambda e: (BPTC19696.deinterleave_data_bits(e, True), BPTC19696.repair_if_necessary(bitarray(e))))
    op("bptc.decode_reserved_bits_set", "parse", "shared")(bptc_dec_reserved)
    op("bptc.encode_other", "shared")(lambda: ((lambda: (ba(M96[::-1]),)), (lambda b: BPTC19696.encode(b))))
    op("bptc.deinterleave_all", "parse")(lambda: ((lambda: (BPTC19696.encode(ba(M96)),)), (lambda e: BPTC19696.deinterleave_all_bits(e))))
    op("vbptc128.encode")(lambda: ((lambda: (ba((MSG_A + MSG_B)[:72]),)), (lambda b: VBPTC12873.encode(b))))
    op("vbptc128.decode", "parse")(lambda: ((lambda: (VBPTC12873.encode(ba((MSG_A + MSG_B)[:72])),)), (lambda e: VBPTC12873.deinterleave_data_bits(e))))
    op("vbptc128.cs5", "parse")(lambda: ((lambda: (VBPTC12873.encode(ba((MSG_A + MSG_B)[:72])),)), (lambda e: VBPTC12873.deinterleave_cs5_bits(e))))
    # the other documented input forms of the variable BPTC encoders (message + checksum, whole de-interleaved matrix)
    op("vbptc128.encode_matrix_form")(lambda: ((lambda: (VBPTC12873.deinterleave_all_bits(VBPTC12873.encode(ba((MSG_A + MSG_B)[:72]))),)), (lambda b: VBPTC12873.encode(b))))
    op("vbptc128.encode_77_bit_form")(lambda: ((lambda: (VBPTC12873.deinterleave_data_bits(VBPTC12873.encode(ba((MSG_B + MSG_A)[:72]))),)), (lambda b: VBPTC12873.encode(b))))
    op("vbptc68.encode_matrix_form")(lambda: ((lambda: (VBPTC6828.deinterleave_all_bits(VBPTC6828.encode(ba(MSG_B[:28]))),)), (lambda b: VBPTC6828.encode(b))))
    op("vbptc68.encode_36_bit_form")(lambda: ((lambda: (VBPTC6828.deinterleave_data_bits(VBPTC6828.encode(ba(MSG_A[:28]))),)), (lambda b: VBPTC6828.encode(b))))
    op("vbptc32.encode_matrix_form_odd")(lambda: ((lambda: (VBPTC3211.deinterleave_all_bits(VBPTC3211.encode(ba(MSG_B[:11]), False)),)), (lambda b: VBPTC3211.encode(b, False))))
    op("vbptc68.encode")(lambda: ((lambda: (ba(MSG_A[:28]),)), (lambda b: VBPTC6828.encode(b))))
    op("vbptc68.decode", "parse")(lambda: ((lambda: (VBPTC6828.encode(ba(MSG_A[:28])),)), (lambda e: VBPTC6828.deinterleave_data_bits(e))))
    op("vbptc32.encode")(lambda: ((lambda: (ba(MSG_A[:11]),)), (lambda b: VBPTC3211.encode(b))))
    op("vbptc32.decode", "parse")(lambda: ((lambda: (VBPTC3211.encode(ba(MSG_A[:11])),)), (lambda e: VBPTC3211.deinterleave_data_bits(e))))
    M144 = (MSG_A + MSG_B + MSG_A)[:144]
    op("trellis.encode_bits")(lambda: ((lambda: (ba(M144),)), (lambda b: Trellis34.encode(b))))
    op("trellis.encode_bytes")(lambda: ((lambda: (ba(M144).tobytes(),)), (lambda b: Trellis34.encode(b))))
    op("trellis.decode", "parse")(lambda: ((lambda: (Trellis34.encode(ba(M144)),)), (lambda e: Trellis34.decode(e))))
    op("trellis.decode_bytes", "parse")(lambda: ((lambda: (Trellis34.encode(ba(M144)),)), (lambda e: Trellis34.decode(e, as_bytes=True))))
    op("rs.generate")(lambda: ((lambda: (bytearray(range(9, 18)), b"\x96\x96\x96")), (lambda d, m: ReedSolomon1294.generate(bytes(d), m))))
    op("rs.check")(lambda: ((lambda: (ReedSolomon1294.generate(bytes(range(9, 18)), b"\x99\x99\x99"), b"\x99\x99\x99")), (lambda d, m: ReedSolomon1294.check(d, m))))

    # ---- layer 2/3 PDUs ---------------------------------------------------------------------------------
    CSBK_PRE = "101111010000000000000000000000010000000000000001100110100000000000000001100111000101011011001110"
    CSBK_2 = "100001110000000000000001010000010000000000000000001010000000000000000000000100010011000001010111"
    op("csbk.from_bits_pre", "parse")(lambda: ((lambda: (ba(CSBK_PRE),)), (lambda b: CSBK.from_bits(b))))
    op("csbk.roundtrip_pre", "parse")(lambda: ((lambda: (ba(CSBK_PRE),)), (lambda b: CSBK.from_bits(b).as_bits())))
    op("csbk.roundtrip_2", "parse")(lambda: ((lambda: (ba(CSBK_2),)), (lambda b: CSBK.from_bits(b).as_bits())))
    op("csbk.default_ctor")(lambda: ((lambda: ()), (lambda: _csbk_default(CSBK))))
    for i, hx in enumerate(("023a2337fc2337fe820081a3", "01402337fc2337fe000ff83a", "4d4e2338632338 3b84081800".replace(" ", "") + "0000")):
        def dh(hx=hx):
            return (lambda: (bits_of(HEX(hx)[:12]),)), (lambda b: DataHeader.from_bits(b))
        op(f"dataheader.from_bits_{i}", "parse")(dh)

        def dh2(hx=hx):
            return (lambda: (bits_of(HEX(hx)[:12]),)), (lambda b: DataHeader.from_bits(b).as_bits())
        op(f"dataheader.roundtrip_{i}", "parse")(dh2)
    FLC = "0000000000000000" + "00000000" + format(91, "024b") + format(2301234, "024b") + "0" * 24
    op("flc.from_bits96", "parse")(lambda: ((lambda: (ba(FLC),)), (lambda b: FullLinkControl.from_bits(b))))
    op("flc.roundtrip77", "parse")(lambda: ((lambda: (ba(FLC[:77]),)), (lambda b: FullLinkControl.from_bits(b).as_bits())))
    op("slc.from_bits", "parse")(lambda: ((lambda: (ba("0001" + "00010010" + "0" * 16 + "0" * 8),)), (lambda b: ShortLinkControl.from_bits(b))))
    op("slc.roundtrip", "parse")(lambda: ((lambda: (ba("0001" + "00010010" + "0" * 16 + "0" * 8),)), (lambda b: ShortLinkControl.from_bits(b).as_bits())))
    op("pi.from_bits", "parse")(lambda: ((lambda: (ba((MSG_A + MSG_B)[:80] + "0" * 16),)), (lambda b: PIHeader.from_bits(b))))
    op("slottype.from_bits", "parse")(lambda: ((lambda: (bitarray(Golay2087.generate(ba("00010110")).tolist()),)), (lambda b: SlotType.from_bits(b))))
    op("slottype.ctor")(lambda: ((lambda: ()), (lambda: SlotType(colour_code=5, data_type=DataTypes.Rate34Data).as_bits())))
    op("emb.from_bits", "parse")(lambda: ((lambda: (bitarray(QuadraticResidue1676.generate(ba("0001011")).tolist()),)), (lambda b: EmbeddedSignalling.from_bits(b))))
    op("rate12.typed_conf", "parse")(lambda: ((lambda: (ba(M96),)), (lambda b: Rate12Data.from_bits_typed(b, Rate12DataTypes.Confirmed))))
    op("rate12.typed_unconf_last", "parse")(lambda: ((lambda: (ba(M96),)), (lambda b: Rate12Data.from_bits_typed(b, Rate12DataTypes.UnconfirmedLastBlock).as_bits())))
    op("rate34.typed_conf_last", "parse")(lambda: ((lambda: (ba(M144),)), (lambda b: Rate34Data.from_bits_typed(b, Rate34DataTypes.ConfirmedLastBlock))))
    op("rate1.typed_conf", "parse")(lambda: ((lambda: (ba((M144 + M96)[:192]),)), (lambda b: Rate1Data.from_bits_typed(b, Rate1DataTypes.Confirmed).as_bits())))
    op("rate12.ctor_default")(lambda: ((lambda: (bytearray(range(12)),)), (lambda d: Rate12Data(data=bytes(d)).as_bits())))
    op("udpip.from_bits", "parse")(lambda: ((lambda: (bits_of(HEX("00010000" "0fa7" "0fa7" "41424344")),)), (lambda b: UDPIPv4CompressedHeader.from_bits(b))))

    # ---- bursts ----------------------------------------------------------------------------------------------
    BURST_D = HEX("2b60040110 1f842dd00dfd7d75df5d 0a6edb".replace(" ", "")) if False else HEX("51dd0c4d8bb40ac413a86c5094fdff57d75df5dcadfa1268aaa87b82b9d8291910")
    BURST_V = HEX("b9e881526173002a6bb9e881526137f7d5dd57dfd173002a6bb9e881526173002a")
    op("burst.from_bytes_data", "parse")(lambda: ((lambda: (BURST_D,)), (lambda d: Burst.from_bytes(d))))
    op("burst.roundtrip_data", "parse")(lambda: ((lambda: (BURST_D,)), (lambda d: Burst.from_bytes(d).as_bytes())))
    op("burst.from_bytes_voice", "parse")(lambda: ((lambda: (BURST_V,)), (lambda d: Burst.from_bytes(d, burst_type=BurstTypes.Vocoder).as_bytes())))
    op("burst.from_bits", "parse")(lambda: ((lambda: (bits_of(BURST_D),)), (lambda b: Burst.from_bits(b, BurstTypes.DataAndControl).as_bits())))

    def burst_default():
        def call():
            b = Burst(burst_type=BurstTypes.DataAndControl)  # default full_bits argument
            b.has_emb = False
            b.sync_or_embedded_signalling = SyncPatterns.BsSourcedData
            b.slot_type = SlotType(colour_code=3, data_type=DataTypes.CSBK)
            b.data = CSBK.from_bits(ba(CSBK_PRE))
            return b.as_bytes()
        return (lambda: ()), call
    op("burst.default_ctor_assemble")(burst_default)

    def burst_default_mutate():
        def call():
            seen = Burst().full_bits.to01()  # what a default-constructed burst looks like now
            b = Burst()  # ... then use one as a caller would: write into the burst's own buffer
            b.full_bits[0:8] = bitarray("11111111")
            return seen
        return (lambda: ()), call
    op("burst.default_ctor_then_write", "shared")(burst_default_mutate)

    def dh_default_mutate():
        from okdmr.dmrlib.etsi.layer2.elements.data_packet_formats import DataPacketFormats

        def call():
            seen = DataHeader(dpf=DataPacketFormats.DataPacketUnconfirmed, sap_identifier=None).bit_padding.to01() if False else _dh_default_padding(DataHeader)
            return seen
        return (lambda: ()), call
    op("dataheader.default_ctor_then_write", "shared")(dh_default_mutate)

    # ---- every class that can be built with all optional arguments left at their defaults: build one, hand it to the caller, who then
    #      writes into everything it owns (attributes, buffers, lists, dicts, nested objects).  The next object built the same way -- and
    #      every other entry point -- must not notice (a default argument evaluated once and shared by all instances does)
    from mc import hist as _hist
    dc_ok, dc_skipped = _hist.default_constructible(env.import_all_okdmr(), (".etsi.", ".hytera.pdu", ".hytera.ipsc_elements", ".hytera.hytera_ipsc", ".motorola."))
    DEFAULT_CTOR_SKIPPED[:] = dc_skipped
    for qual, cls_ in dc_ok:
        op(f"default_ctor.{qual}", "dflt", "deepwrite")(lambda cls_=cls_: ((lambda: ()), (lambda: _hist.build_with_defaults(cls_))))
        if callable(getattr(cls_, "as_bytes", None)) or callable(getattr(cls_, "as_bits", None)):
            def ser(cls_=cls_):
                def call():
                    o = _hist.build_with_defaults(cls_)
                    return [_outcome_of(getattr(o, m_)) for m_ in ("as_bytes", "as_bits") if callable(getattr(o, m_, None))]
                return (lambda: ()), call
            op(f"default_ctor_serialise.{qual}", "dflt")(ser)

    # ---- public factories that need no argument (GPSData.zero(), the make_encoding_table() helpers, ...): what they hand out belongs to
    #      the caller, who fills it in; the next call must hand out a pristine one.  Accessors named get_* are left out: they hand out
    #      the library's own tables by design
    import inspect as _inspect
    for m_ in sorted(env.import_all_okdmr(), key=lambda m_: m_.__name__):
        if not any(x_ in m_.__name__ for x_ in (".etsi.", ".hytera.pdu", ".hytera.ipsc_elements", ".hytera.hytera_ipsc", ".motorola.", ".utils")):
            continue
        for cn_, cls_ in sorted(vars(m_).items()):
            if not isinstance(cls_, type) or cls_.__module__ != m_.__name__ or issubclass(cls_, BaseException):
                continue
            for an_, raw_ in sorted(vars(cls_).items()):
                if an_.startswith(("_", "get_")) or not isinstance(raw_, (staticmethod, classmethod)) or (cn_, an_) == ("GPSData", "zero"):
                    continue
                f_ = getattr(cls_, an_)
                try:
                    sig_ = _inspect.signature(f_)
                except (TypeError, ValueError):
                    continue
                if any(p_.default is p_.empty and p_.kind not in (p_.VAR_POSITIONAL, p_.VAR_KEYWORD) for p_ in sig_.parameters.values()):
                    continue
                op(f"factory.{m_.__name__.replace('okdmr.dmrlib.', '')}.{cn_}.{an_}", "dflt", "deepwrite")(lambda f_=f_: ((lambda: ()), (lambda: f_())))

    def gps_zero():
        import datetime as _d
        import okdmr.dmrlib.hytera.pdu.location_protocol as _lp_

        def call():
            g = _lp_.GPSData.zero()
            g.greenwich_date = _d.date(2000, 1, 1)  # (the stamp of the day of the call is checked by its own op; a run may cross midnight)
            return g
        return (lambda: ()), call
    op("factory.hytera.pdu.location_protocol.GPSData.zero", "dflt", "deepwrite")(gps_zero)

    # ---- Hytera --------------------------------------------------------------------------------------------------
    for i, hx in enumerate(("32420020000183040001869f04010211000300040a000064bd03", "324200000001024108050000d20400000e03",
                            "32420020000b830400066b0e0401010245b810000100040004000000fd080000fa372300c303")):
        def hs(hx=hx):
            return (lambda: (HEX(hx),)), (lambda d: HSTRP.from_bytes(d).as_bytes())
        op(f"hstrp.roundtrip_{i}", "parse")(hs)
    op("hstrp.from_bytes", "parse")(lambda: ((lambda: (HEX("32420020000183040001869f04010211000300040a000064bd03"),)), (lambda d: HSTRP.from_bytes(d))))
    op("hstrp.from_bytes_no_options", "parse")(lambda: ((lambda: (HEX("324200000001024108050000d20400000e03"),)), (lambda d: HSTRP.from_bytes(d))))
    op("hstrp.from_bytes_connect", "parse")(lambda: ((lambda: (HEX("324200040000"),)), (lambda d: HSTRP.from_bytes(d))))
    op("hrnp.calculate_checksum_bytearray_odd")(lambda: ((lambda: (bytearray(HEX("7e0400002010000100") + b"\x1b\x02\x47\x18"),)), (lambda d: HRNP.calculate_checksum(d))))
    op("hrnp.calculate_checksum_bytearray_even")(lambda: ((lambda: (bytearray(HEX("7e04000020100001001b0247")),)), (lambda d: HRNP.calculate_checksum(d))))
    op("hrnp.from_bytes", "parse")(lambda: ((lambda: (HEX("7e04000020100001001b43b502471808000700000000000000c403"),)), (lambda d: HRNP.from_bytes(d))))
    op("hrnp.roundtrip", "parse")(lambda: ((lambda: (HEX("7e04000020100001001b43b502471808000700000000000000c403"),)), (lambda d: HRNP.from_bytes(d).as_bytes())))
    for nm, hx in (("lp", "08a0020032000000010a2110dd0000413138333634383236313031354e343731382e383035314530313835342e34333837302e313132310b03"),
                   ("tmp", "0980a10022000000010a01b2070a03640e4f004c004900560045005200200054004500530054007a03"),
                   ("tmp_ack", "0980a2000D000000010a01b2070a030000003103"),
                   ("rcp", "0245b810000100040004000000fd080000fa372300c303"), ("rcp2", "024108050000d20400000e03"),
                   ("rrs", "11000300040a000064bd03")):
        def hd(hx=hx):
            return (lambda: (HEX(hx),)), (lambda d: HDAP.from_bytes(d).as_bytes())
        op(f"hdap.roundtrip_{nm}", "parse")(hd)

        def hd2(hx=hx):
            return (lambda: (HEX(hx),)), (lambda d: HDAP.from_bytes(d))
        op(f"hdap.from_bytes_{nm}", "parse")(hd2)

    def lp_request():
        from okdmr.dmrlib.hytera.pdu.location_protocol import LocationProtocolSpecificService
        from okdmr.dmrlib.hytera.pdu.radio_ip import RadioIP

        def mk():
            return (LocationProtocol(opcode=LocationProtocolSpecificService.StandardRequest, request_id=7, radio_ip=RadioIP(radio_id=100)).as_bytes(),)
        return mk, (lambda d: HDAP.from_bytes(d))
    op("hdap.from_bytes_lp_request", "parse")(lp_request)

    def rcp_default_settings():
        def call():
            p = RadioControlProtocol(opcode=RCPOpcode.StatusChangeNotificationRequest)  # default settings dict
            p.status_change_settings[StatusChangeNotificationTargets.RSSI] = StatusChangeNotificationSetting.ENABLE_NOTIFY
            return p.as_bytes()
        return (lambda: ()), call
    op("rcp.default_ctor_add_setting", "shared")(rcp_default_settings)

    def rcp_default_settings2():
        def call():
            p = RadioControlProtocol(opcode=RCPOpcode.StatusChangeNotificationRequest)
            return p.as_bytes()
        return (lambda: ()), call
    op("rcp.default_ctor_serialise", "shared")(rcp_default_settings2)
    IPSC = HEX("5a5a5a5a0000000042000501010000001111eeee555511114028000000000000000000006f0023003700fa00342a2c10942a2c10f42a2c10835600f0360801006f000000fa372300")
    op("ipsc.kaitai_burst", "parse")(lambda: ((lambda: (IPSC,)), (lambda d: Burst.from_hytera_ipsc(IpSiteConnectProtocol.from_bytes(d)).as_bytes())))
    op("ipsc.raw_burst", "parse")(lambda: ((lambda: (IPSC,)), (lambda d: Burst.from_hytera_ipsc(d).as_bytes())))

    # ---- Motorola ------------------------------------------------------------------------------------------------
    LR = HEX("071A22042468ACE0341F4DBC778051118ECD8D118AD47B00636C0006")
    op("mbxml.from_bytes", "parse")(lambda: ((lambda: (LR,)), (lambda d: MBXML.from_bytes(d))))
    op("mbxml.roundtrip", "parse")(lambda: ((lambda: (LR,)), (lambda d: [MBXML.as_bytes(x) for x in MBXML.from_bytes(d)])))
    op("mbxml.roundtrip_err", "parse")(lambda: ((lambda: (HEX("070C22042468ACE0390503515355"),)), (lambda d: [MBXML.as_bytes(x) for x in MBXML.from_bytes(d)])))
    op("mbxml.uintvar")(lambda: ((lambda: ()), (lambda: (MBXML.write_uintvar(300), MBXML.read_uintvar(b"\x82\x2c\xff", 0)))))
    op("mbxml.sfloatvar")(lambda: ((lambda: ()), (lambda: (MBXML.write_sfloatvar(-12.5), MBXML.read_sfloatvar(b"\xcc\x40\xff", 0)))))

    def lrrp_token():
        def call():
            doc = LRRP(document_id=MBXMLDocumentIdentifier.LRRP_ImmediateLocationReport_NCDT)
            doc.parts.append(doc.get_token(name="request-id", value=HEX("2468ACE0"), attributes={}, is_request=False))
            doc.parts.append(doc.get_token(name=0x39, value=HEX("515355"), attributes={"result-code": 5}, is_request=False))
            return MBXML.as_bytes(doc)
        return (lambda: ()), call
    op("lrrp.get_token_with_attribute", "shared")(lrrp_token)

    def lrrp_token2():
        def call():
            doc = LRRP(document_id=MBXMLDocumentIdentifier.LRRP_TriggeredLocationRequest_NCDT)
            doc.parts.append(doc.get_token(name="request-id", value=HEX("2468ACE0"), attributes={}, is_request=True))
            doc.parts.append(doc.get_token(name="periodic-trigger", value=None, attributes={}))
            return MBXML.as_bytes(doc)
        return (lambda: ()), call
    op("lrrp.get_token_plain", "shared")(lrrp_token2)
    # the lookup API and the per-document-type configuration (what it answers must not depend on which documents were handled before)
    def _outcome(f):
        try:
            return f()
        except Exception as e:  # noqa: BLE001
            return "raises:" + type(e).__name__

    def _tables(lst):
        return [sorted((k, getattr(v, "name", None), tuple(x if isinstance(x, int) else getattr(x, "token_id", None) for x in (getattr(v, "attributes", None) or ()))) for k, v in d.items()) for d in lst]

    for isreq in (True, False):
        op(f"lrrp.get_token_by_id_all_ids_{'request' if isreq else 'report'}", "shared")(lambda isreq=isreq: ((lambda: ()), (lambda: [
            _outcome(lambda i=i: (lambda t: (t.token_id, t.name, len(t.attributes or ())))(LRRP.get_token(name=i, value=None, attributes={}, is_request=isreq))) for i in range(0x80)])))
        op(f"lrrp.get_known_tokens_{'request' if isreq else 'report'}", "lookup")(lambda isreq=isreq: ((lambda: ()), (lambda: _tables(LRRP.get_known_tokens(is_request=isreq)))))
        op(f"lrrp.get_attribute_by_id_all_ids_{'request' if isreq else 'report'}", "lookup")(lambda isreq=isreq: ((lambda: ()), (lambda: [
            _outcome(lambda i=i: (lambda r: (r[0].token_id, r[0].name, r[1]))(LRRP.get_attribute(name=i, value=None, is_request=isreq))) for i in range(0x80)])))
    op("lrrp.get_configuration_every_document_type", "lookup")(lambda: ((lambda: ()), (lambda: [
        (d.name, _outcome(lambda d=d: (lambda c: sorted((tt.name, _tables([tab])) for tt, tab in c.items()) if isinstance(c, dict) else repr(c))(LRRP.get_configuration(d)))) for d in MBXMLDocumentIdentifier])))
    op("mbxml.from_bytes_every_document_type", "parse")(lambda: ((lambda: ()), (lambda: [
        (i, _outcome(lambda i=i: [(type(x).__name__, x.id.name, [(p_.token_id, p_.name) for p_ in x.parts], MBXML.as_bytes(x).hex()) for x in MBXML.from_bytes(bytes([i, 0x06, 0x22, 0x04, 0x24, 0x68, 0xAC, 0xE0]))])) for i in range(0x00, 0x30)])))
    op("tms.roundtrip", "parse")(lambda: ((lambda: (HEX("000ea00000840d000a00540045005300"),)), (lambda d: _tms(TextMessagingService, d))))
    # parsed objects handed to the caller (who serialises them, twice, and then writes into them - run_op does): a second parse of the same
    # octets must not notice (objects shared between parses: cached headers, pooled elements)
    for tname, thex in (("text_without_optional_headers", "000a6000" + "ahoj".encode("utf-16-le").hex()), ("text_with_headers", "000ea00000840d000a00540045005300"),
                        ("acknowledgement", "0003bf0001"), ("service_availability", "00021000")):
        op(f"tms.from_bytes_{tname}", "parse")(lambda thex=thex: ((lambda: (HEX(thex),)), (lambda d: _outcome(lambda: TextMessagingService.from_bytes(d)))))
    for aname, ahex in (("device_registration", "0010F5000231310939393939393939393900"), ("acknowledgement_refresh", "0002bf7f"), ("acknowledgement_failure", "0002bfff"),
                        ("query", "000174"), ("deregistration", "000131")):
        op(f"ars.from_bytes_{aname}", "parse")(lambda ahex=ahex: ((lambda: (HEX(ahex),)), (lambda d: _outcome(lambda: AutomaticRegistrationService.from_bytes(d)))))
    op("ars.roundtrip", "parse")(lambda: ((lambda: (HEX("0010F5000231310939393939393939393900"),)), (lambda d: AutomaticRegistrationService.from_bytes(d).as_bytes())))
    op("lp.default_ctor_gps")(lambda: ((lambda: ()), (lambda: _lp_default(LocationProtocol))))
    # ---- results that must not depend on the process environment (time zone, hash seed, the date the library was imported) -------
    import datetime as _dtm
    from okdmr.dmrlib.hytera.pdu.text_message_protocol import TextMessageProtocol as _TMP, TMPService as _TMPS
    from okdmr.dmrlib.hytera.pdu.radio_ip import RadioIP as _RIP
    import okdmr.dmrlib.hytera.pdu.location_protocol as _lpm
    op("mbxml.write_infotime_aware_utc")(lambda: ((lambda: ()), (lambda: MBXML.write_infotime(_dtm.datetime(2024, 2, 29, 12, 34, 56, tzinfo=_dtm.timezone.utc)))))
    op("mbxml.write_infotime_aware_0530")(lambda: ((lambda: ()), (lambda: MBXML.write_infotime(
        _dtm.datetime(2024, 2, 29, 23, 59, 59, tzinfo=_dtm.timezone(_dtm.timedelta(hours=5, minutes=30)))))))
    op("mbxml.write_infotime_naive")(lambda: ((lambda: ()), (lambda: MBXML.write_infotime(_dtm.datetime(2024, 2, 29, 12, 34, 56)))))
    op("tmp.message_without_request_id")(lambda: ((lambda: ()), (lambda: _TMP(opcode=_TMPS.SendPrivateMessage, source_ip=_RIP(radio_id=1001), destination_ip=_RIP(radio_id=1002),
                                                                                   text_data="hello".encode("utf-16-le")).as_bytes())))
    # objects built from fields and handed back as objects (looked at and serialised twice by run_op)
    op("tmp.object_with_option_data_and_the_flag_left_off")(lambda: ((lambda: ()), (lambda: _TMP(opcode=_TMPS.SendPrivateMessage, source_ip=_RIP(radio_id=1001), destination_ip=_RIP(radio_id=1002),
                                                                                                     text_data="hi".encode("utf-16-le"), option_data=b"\x01\x02", request_id=7))))
    op("tmp.object_with_option")(lambda: ((lambda: ()), (lambda: _TMP(opcode=_TMPS.SendGroupMessage, source_ip=_RIP(radio_id=1001), destination_ip=_RIP(radio_id=9),
                                                                          text_data="hi".encode("utf-16-le"), has_option=True, option_data=b"\x01\x02", request_id=7))))
    op("hrnp.object_wrapping_tmp_with_option_data")(lambda: ((lambda: ()), (lambda: HRNP(opcode=__import__("okdmr.dmrlib.hytera.pdu.hrnp", fromlist=["HRNPOpcodes"]).HRNPOpcodes.DATA,
                                                                                          data=_TMP(opcode=_TMPS.SendPrivateMessage, source_ip=_RIP(radio_id=1001), destination_ip=_RIP(radio_id=1002),
                                                                                                    text_data="hi".encode("utf-16-le"), option_data=b"\x01\x02", request_id=7)))))
    op("tmp.short_data_without_request_id")(lambda: ((lambda: ()), (lambda: _TMP(opcode=_TMPS.PrivateShortData, source_ip=_RIP(radio_id=1001), destination_ip=_RIP(radio_id=1002),
                                                                                      short_data=b"\x01\x02").as_bytes())))
    # "no fix" is stamped with the date of the call, not with the date the module was imported (true under every clock)
    op("gps.zero_is_stamped_with_the_date_of_the_call", "parse")(lambda: ((lambda: ()), (lambda: _lpm.GPSData.zero().greenwich_date == _lpm.date.today())))
    # ---- calls that fail (wrong length / wrong type): the error is the stable outcome, and whatever state the failed call leaves
    #      behind must not show in the next valid call (all pairs (failing, valid) are part of the pair enumeration)
    op("fail.bptc.encode_95", "shared")(lambda: ((lambda: (ba(M96[:95]),)), (lambda b: BPTC19696.encode(b))))
    op("fail.bptc.decode_195", "shared")(lambda: ((lambda: (BPTC19696.encode(ba(M96))[:195],)), (lambda e: BPTC19696.deinterleave_data_bits(e, True))))
    op("fail.bptc.repair_wrong_type", "shared")(lambda: ((lambda: (bytes(25),)), (lambda e: BPTC19696.repair_if_necessary(e))))
    op("fail.trellis.encode_143", "shared")(lambda: ((lambda: (ba(M144[:143]),)), (lambda b: Trellis34.encode(b))))
    op("fail.trellis.decode_bad_point", "shared")(lambda: ((lambda: (~Trellis34.encode(ba(M144)),)), (lambda e: Trellis34.decode(e))))
    op("fail.vbptc128.encode_71", "shared")(lambda: ((lambda: (ba((MSG_A + MSG_B)[:71]),)), (lambda b: VBPTC12873.encode(b))))
    op("fail.vbptc68.encode_27", "shared")(lambda: ((lambda: (ba(MSG_A[:27]),)), (lambda b: VBPTC6828.encode(b))))
    op("fail.hamming.generate_wrong_len", "shared")(lambda: ((lambda: (ba(MSG_A[:10]),)), (lambda b: Hamming15113.generate(b))))
    op("fail.hamming.check_wrong_len", "shared")(lambda: ((lambda: (ba(MSG_A[:14]),)), (lambda b: Hamming15113.check_and_correct(b))))
    op("fail.rs.generate_8_octets", "shared")(lambda: ((lambda: (bytes(range(8)), b"\x96\x96\x96")), (lambda d, m: ReedSolomon1294.generate(d, m))))
    op("fail.crc.bytes_instead_of_bits", "shared")(lambda: ((lambda: (b"\x01\x02\x03",)), (lambda d: CRC8.calculate(d))))
    op("fail.crc9.bad_crc32_length", "shared")(lambda: ((lambda: (b"\x11\x22\x33\x44\x55\x66", b"\xde\xad\xbe")), (lambda d, c: CRC9.calculate_from_parts(d, 3, CrcMasks.Rate12DataContinuation, c))))
    op("fail.crc16.check_out_of_range", "shared")(lambda: ((lambda: (HEX("023a2337fc2337fe8200"),)), (lambda d: CRC16.check(d, 0x1FFFF, CrcMasks.DataHeader))))
    op("fail.csbk.from_bits_95", "shared")(lambda: ((lambda: (ba(CSBK_PRE[:95]),)), (lambda b: CSBK.from_bits(b))))
    op("fail.dataheader.undefined_format", "shared")(lambda: ((lambda: (ba("0000" + "1100" + "0" * 88),)), (lambda b: DataHeader.from_bits(b))))
    op("fail.burst.from_bytes_32", "shared")(lambda: ((lambda: (BURST_D[:32],)), (lambda d: Burst.from_bytes(d))))
    op("fail.hstrp.bad_magic", "shared")(lambda: ((lambda: (HEX("3342002000018304"),)), (lambda d: HSTRP.from_bytes(d))))
    op("fail.hrnp.truncated", "shared")(lambda: ((lambda: (HEX("7e04000020100001001b43b5024718"),)), (lambda d: HRNP.from_bytes(d))))
    op("fail.hdap.unknown_service", "shared")(lambda: ((lambda: (HEX("7f000100010000"),)), (lambda d: HDAP.from_bytes(d))))
    op("fail.mbxml.truncated", "shared")(lambda: ((lambda: (LR[:-3],)), (lambda d: MBXML.from_bytes(d))))
    # calls that fail *late*: the argument is consumed piece by piece and a later piece is invalid (a half-updated shared register)
    LATE_BITS = [0, 1, 1, 0, 1, 0, 0, 1, 1, 1, 0, 0, 2, 0, 1, 1, 0, 0, 0, 1, 1, 1, 0, 1, 1, 0, 1, 0]

    class _LateSlices:
        """a bit container whose slices beyond the first octet cannot be read (an I/O-backed buffer that went away)"""

        def __init__(self, b):
            self.b = b

        def __len__(self):
            return len(self.b)

        def __getitem__(self, i):
            if isinstance(i, slice) and (i.start or 0) >= 8:
                raise ValueError("late")
            return self.b[i]

        def bytereverse(self):
            return None

    op("fail.crc8.late_bad_bit", "shared")(lambda: ((lambda: (list(LATE_BITS),)), (lambda b: CRC8.calculate(b))))
    op("fail.crc8.late_unreadable_slice", "shared")(lambda: ((lambda: (ba(MSG_A[:28]),)), (lambda b: CRC8.calculate(_LateSlices(b)))))
    op("fail.crc9.late_bad_bit", "shared")(lambda: ((lambda: (list(LATE_BITS) * 3,)), (lambda b: CRC9.calculate(b, CrcMasks.Rate34DataContinuation))))
    op("fail.crc9.late_unreadable_slice", "shared")(lambda: ((lambda: (ba(MSG_A[:87]),)), (lambda b: CRC9.calculate(_LateSlices(b), CrcMasks.Rate34DataContinuation))))
    op("fail.crc32.late_bad_byte", "shared")(lambda: ((lambda: ([1, 2, 3, 4, 5, 6, 7, 8, 300, 10],)), (lambda d: CRC32.calculate(d))))
    for cname, cfg in (("crc8", Crc8.ETSI_DMR), ("crc9", Crc9.ETSI_DMR), ("crc16", Crc16.ETSI_DMR), ("crc32", Crc32.ETSI_DMR)):
        for tb in (False, True):
            def fl(cfg=cfg, tb=tb):
                return (lambda: (ba(MSG_A),)), (lambda b: BitCrcCalculator(cfg, table_based=tb).calculate_checksum(_LateSlices(b)))
            op(f"fail.{cname}_{'table' if tb else 'bitwise'}.late_unreadable_slice", "shared")(fl)
    # bit/byte helpers on arguments whose length is not a whole number of octets
    from okdmr.dmrlib.utils.bits_bytes import bits_to_bytes, numpy_array_to_bitarray, bitarray_to_numpy_array, numpy_array_to_int, half_byte_to_bytes
    op("bits_to_bytes_77")(lambda: ((lambda: (ba((MSG_A + MSG_B)[:77]),)), (lambda b: bits_to_bytes(b))))
    op("bits_to_bytes_80")(lambda: ((lambda: (ba((MSG_A + MSG_B)[:80]),)), (lambda b: bits_to_bytes(b))))
    op("bits_to_bytes_49_little")(lambda: ((lambda: (bitarray(MSG_B[:49], endian="little"),)), (lambda b: bits_to_bytes(b))))
    op("bytes_to_bits_little")(lambda: ((lambda: (bytearray(b"\xa5\x0f\x01"),)), (lambda d: bytes_to_bits(d, "little"))))
    op("numpy_array_to_bitarray")(lambda: ((lambda: (numpy.array([1, 0, 1, 1, 0, 0, 1, 0, 1, 1, 1]),)), (lambda a: numpy_array_to_bitarray(a))))
    op("bitarray_to_numpy_array")(lambda: ((lambda: (ba(MSG_A[:13]),)), (lambda b: bitarray_to_numpy_array(b))))
    op("numpy_array_to_int")(lambda: ((lambda: (numpy.array([1, 0, 1, 1, 0, 0, 1, 0, 1, 1, 1]),)), (lambda a: numpy_array_to_int(a))))
    op("half_byte_to_bytes")(lambda: ((lambda: ()), (lambda: (half_byte_to_bytes(0xA), half_byte_to_bytes(0x3, 4)))))
    op("udpip.roundtrip_odd_length", "parse")(lambda: ((lambda: (bits_of(HEX("00010000" "0fa7" "0fa7" "41424344")),)), (lambda b: UDPIPv4CompressedHeader.from_bits(b).as_bits())))
    op("fail.mbxml.uintvar_too_big", "shared")(lambda: ((lambda: ()), (lambda: MBXML.write_uintvar(2 ** 40))))
    op("fail.tms.truncated", "shared")(lambda: ((lambda: (HEX("000ea00000"),)), (lambda d: TextMessagingService.from_bytes(d))))
    op("fail.ars.truncated", "shared")(lambda: ((lambda: (HEX("0010F50002313109"),)), (lambda d: AutomaticRegistrationService.from_bytes(d))))
    _ = numpy


def _csbk_default(CSBK):
    from okdmr.dmrlib.etsi.layer2.elements.csbk_opcodes import CsbkOpcodes
    from okdmr.dmrlib.etsi.layer3.elements.announcement_type import AnnouncementType  # noqa: F401

    c = CSBK(csbko=CsbkOpcodes.PreambleCSBK, last_block=True, source_address=1, target_address=2, blocks_to_follow=3)
    c.broadcast_params.extend("1010")  # default-argument object used as a caller would
    return (c.as_bits(), CSBK(csbko=CsbkOpcodes.PreambleCSBK, last_block=True).broadcast_params.to01())


def _dh_default_padding(DataHeader):
    """default-constructed short-data header; report its bit padding, then fill the padding as a caller would"""
    hdr = DataHeader.from_bits(bitarray("0000" + "1101" + "1010" + "0001" + "0" * 48 + "000001" + "0" + "1" + "0" * 8 + "0" * 16))
    fresh = type(hdr)(dpf=hdr.data_packet_format, sap_identifier=hdr.sap_identifier, defined_data_format=hdr.defined_data_format,
                      sarq=hdr.sarq, full_message_flag=hdr.full_message_flag, appended_blocks=1)
    seen = fresh.bit_padding.to01()
    fresh.bit_padding.extend("10101010")
    return seen


def _tms(TMS, d):
    try:
        return TMS.from_bytes(d).as_bytes()
    except Exception as e:  # the vector is synthetic; outcome (value or error type) must be stable
        return "raises:" + type(e).__name__


def _lp_default(LP):
    from okdmr.dmrlib.hytera.pdu.location_protocol import GPSData

    g = GPSData()
    return repr(type(g))


# ------------------------------------------------------------------------------------------------
# execution
# ------------------------------------------------------------------------------------------------
SKIP = frozenset({"_io", "_parent", "_root", "log_instance", "_log", "_debug"})
DEFAULT_CTOR_SKIPPED = []


def _outcome_of(f):
    try:
        return f()
    except Exception as e:  # noqa: BLE001
        return "raises:" + type(e).__name__


def run_op(name, keep=False):
    """keep=True: the result object is handed back untouched (4th element) instead of being overwritten"""
    make_args, call, flags = OPS[name]
    args = make_args()
    before = h(canon(args, skip=SKIP))
    res = None
    try:
        res = call(*args)
        rd = h(canon(res, skip=SKIP))
        short = type(res).__name__
    except Exception as e:  # noqa: BLE001
        rd = "raises:" + type(e).__name__
        short = rd
    after = h(canon(args, skip=SKIP))
    ok = (before == after) or ("inplace" in flags)
    if res is not None:
        # looking at what a call returned (repr, str, ==, len, hash) must not change it
        if ok and not isinstance(res, (bytes, int, str, bool, float)):
            try:
                _observe(res, light=True)
                if h(canon(res, skip=SKIP)) != rd:
                    ok = False
                    short += "|CHANGED-BY-LOOKING"
            except Exception:  # noqa: BLE001
                pass
            # ... and serialising it twice gives the same octets / bits twice
            if ok:
                for ser in ("as_bytes", "as_bits"):
                    fn = getattr(res, ser, None)
                    if callable(fn):
                        try:
                            if fn() != fn():
                                ok = False
                                short += "|SERIALISES-DIFFERENTLY-TWICE"
                                break
                        except Exception:  # noqa: BLE001
                            pass
        if keep:
            return rd, ok, short, res
        if "deepwrite" in flags:
            try:
                _scramble_everything(res, public_only=True)
            except Exception:  # noqa: BLE001
                pass
        else:
            scribble(res)
    if keep:
        return rd, ok, short, res
    return rd, ok, short


def run_after_kept(j, kept_obj, kept_digest, deep=False):
    """in a forked child: (1) op j while the caller still holds the untouched result of the first op -- that result must not change;
    (2) the caller overwrites the kept result in place, then op j again.  Both runs of j are returned."""
    r, w = os.pipe()
    pid = os.fork()
    if pid == 0:
        try:
            os.close(r)
            first = run_op(j)
            intact = True
            if kept_obj is not None:
                try:
                    intact = h(canon(kept_obj, skip=SKIP)) == kept_digest
                except Exception:  # noqa: BLE001
                    intact = False
                if deep:
                    try:
                        _scramble_everything(kept_obj, public_only=True)
                    except Exception:  # noqa: BLE001
                        pass
                else:
                    scribble(kept_obj)
            second = run_op(j)
            data = pickle.dumps((first, second, intact))
        except BaseException as e:  # noqa: BLE001
            data = pickle.dumps((("CHILD-CRASH:" + repr(e), False, "crash"), ("CHILD-CRASH:" + repr(e), False, "crash"), True))
        with os.fdopen(w, "wb") as f:
            f.write(data)
        os._exit(0)
    os.close(w)
    with os.fdopen(r, "rb") as f:
        data = f.read()
    os.waitpid(pid, 0)
    return pickle.loads(data)


def why(short, name):
    if short.endswith("|SERIALISES-DIFFERENTLY-TWICE"):
        return "result_object_serialises_differently_the_second_time:" + name, f"the object {name} returned gives other octets the second time it is serialised"
    if short.endswith("|CHANGED-BY-LOOKING"):
        return "result_object_changes_when_looked_at:" + name, f"the object {name} returned differs after repr()/str()/==/len()/hash() on it"
    return "argument_buffer_modified:" + name, f"{name} changed a buffer passed to it"


from mc.hist import scribble as _scribble_buffers, scramble_shallow, scramble as _scramble_everything, observe as _observe  # noqa: E402


def scribble(res):
    """the caller owns what a codec call returns: overwrite every mutable buffer in the result in place (after it was digested),
    and write into the buffers / lists that a returned object owns, so that a cached / shared object handed out by the library
    shows up as history dependence of a later call"""
    _scribble_buffers(res)
    try:
        scramble_shallow(res)
    except Exception:  # noqa: BLE001
        pass


def run_sequence_isolated(seq, seam=None):
    """run the op sequence in a forked child of the (pristine) current process; returns list of (digest, args_ok, short)"""
    r, w = os.pipe()
    pid = os.fork()
    if pid == 0:
        try:
            os.close(r)
            if seam is not None:
                s = env.Seams(clock=seam[0])
                s.tok = seam[1]
                s.uid = seam[1]
                env.import_all_okdmr()
                s.install()
                import random

                random.seed(seam[1])
            out = [run_op(n) for n in seq]
            data = pickle.dumps(out)
        except BaseException as e:  # noqa: BLE001
            data = pickle.dumps([("CHILD-CRASH:" + repr(e), False, "crash")])
        with os.fdopen(w, "wb") as f:
            f.write(data)
        os._exit(0)
    os.close(w)
    with os.fdopen(r, "rb") as f:
        data = f.read()
    os.waitpid(pid, 0)
    return pickle.loads(data)


FRESH = {}


def run_isolated_value(func, arg):
    """func(arg) in a forked child of the (pristine) current process; returns its (picklable) value"""
    r, w = os.pipe()
    pid = os.fork()
    if pid == 0:
        try:
            os.close(r)
            try:
                data = pickle.dumps(func(arg))
            except BaseException as e:  # noqa: BLE001
                data = pickle.dumps("CHILD-CRASH:" + repr(e))
            with os.fdopen(w, "wb") as f:
                f.write(data)
        finally:
            os._exit(0)
    os.close(w)
    with os.fdopen(r, "rb") as f:
        data = f.read()
    os.waitpid(pid, 0)
    return pickle.loads(data)


def w_sequences(task):
    seqs, label = task
    acc = Acc()
    for seq in seqs:
        res = run_sequence_isolated(seq)
        last = seq[-1]
        case = {"sequence": list(seq)}
        dirty = [seq[i] for i, (_, ok, _) in enumerate(res) if not ok]
        dirty_short = {seq[i]: sh for i, (_, ok, sh) in enumerate(res) if not ok}
        for d_ in sorted(set(dirty)):
            acc.violation(*why(dirty_short[d_], d_)[:1], case, why(dirty_short[d_], d_)[1])
        if len(res) != len(seq):
            acc.violation("child_crashed", {**case, "detail": res[0][0]})
        elif res[-1][0] != FRESH[last][0]:
            acc.violation(f"result_depends_on_history:{last}", {**case, "fresh": FRESH[last][2], "after_history": res[-1][2]},
                          f"{last} returns a different result after {list(seq[:-1])} than in a fresh interpreter state")
        acc.case(nontrivial=True, calls=len(seq), outcome=(res[-1][2] if res else "crash"), sample=case if len(acc.samples) < 1 else None)
    return acc


def w_pairs_from(first):
    """all pairs (first, j): `first` runs once in a child forked from the pristine worker, every j in its own grandchild"""
    r, w = os.pipe()
    pid = os.fork()
    if pid == 0:
        try:
            os.close(r)
            acc = Acc()
            res_i = run_op(first, keep=True)
            kept = res_i[3] if not isinstance(res_i[3], (bytes, int, str, bool, float, type(None))) else None
            if not res_i[1]:
                acc.violation(why(res_i[2], first)[0], {"sequence": [first]}, why(res_i[2], first)[1])
            for j in OPS:
                # forked from this child: state = after `first`, whose result the caller still holds
                r1, r2, intact = run_after_kept(j, kept, res_i[0], deep="deepwrite" in OPS[first][2])
                case = {"sequence": [first, j]}
                if str(r1[0]).startswith("CHILD-CRASH"):
                    acc.violation("child_crashed", {**case, "detail": str(r1[0])[:200]})
                else:
                    if not intact:
                        acc.violation(f"earlier_result_changed_by_a_later_call:{first}", case,
                                      f"the object {first} returned (kept, untouched by the caller) is different after {j}")
                    for k_, rr in (("", r1), ("_after_caller_overwrote_the_first_result", r2)):
                        if not rr[1]:
                            acc.violation(why(rr[2], j)[0], case, why(rr[2], j)[1])
                        if rr[0] != FRESH[j][0]:
                            acc.violation(f"result_depends_on_history{k_}:{j}", {**case, "fresh": FRESH[j][2], "after_history": rr[2]},
                                          f"{j} returns a different result after {[first]} than in a fresh interpreter state")
                acc.case(nontrivial=True, calls=3, outcome=r1[2], sample=case if len(acc.samples) < 1 else None)
            data = pickle.dumps(acc)
        except BaseException as e:  # noqa: BLE001
            a2 = Acc()
            a2.violation("child_crashed", {"sequence": [first], "detail": repr(e)})
            data = pickle.dumps(a2)
        with os.fdopen(w, "wb") as f:
            f.write(data)
        os._exit(0)
    os.close(w)
    with os.fdopen(r, "rb") as f:
        data = f.read()
    os.waitpid(pid, 0)
    return pickle.loads(data)


def _mutable_kind(x):
    if isinstance(x, bitarray):
        e = x.endian
        return "bitarray-" + (e() if callable(e) else str(e))
    if isinstance(x, bytearray):
        return "bytearray"
    if isinstance(x, list):
        return "list"
    if type(x).__module__ == "numpy" and hasattr(x, "shape"):
        return "numpy" + repr(tuple(x.shape))
    return None


SHAPES = {}  # op -> argument shape; filled once from a forked child (argument factories may call the library: the parent and the workers stay pristine)
TWINNABLE = {}  # (op, twin kind) -> bool, same


def _arg_shape(name):
    if name in SHAPES:
        return SHAPES[name]
    try:
        return tuple(_mutable_kind(x) for x in OPS[name][0]())
    except Exception:  # noqa: BLE001
        return ()


def _load_shapes(names):
    if not SHAPES:
        SHAPES.update(run_isolated_value(lambda ns: {n: _arg_shape(n) for n in ns}, names))
        TWINNABLE.update(run_isolated_value(lambda ns: {(n, k): _twin_args(n, k) is not None for n in ns for k in TWIN_KINDS}, names))


def _digest_call(call, args):
    try:
        res = call(*args)
        return h(canon(res, skip=SKIP)), type(res).__name__
    except Exception as e:  # noqa: BLE001
        return "raises:" + type(e).__name__, "raises:" + type(e).__name__


def _nudge(x):
    """the caller edits its buffer in place (one bit / one element), keeping the length"""
    k = _mutable_kind(x)
    if k and k.startswith("bitarray") and len(x):
        x[len(x) // 2] = not x[len(x) // 2]
    elif k == "bytearray" and len(x):
        x[len(x) // 2] ^= 0x01
    elif k == "list" and len(x) and isinstance(x[len(x) // 2], int):
        x[len(x) // 2] ^= 1
    elif k and k.startswith("numpy") and x.size:
        flat = x.reshape(-1)
        flat[x.size // 2] = 1 - flat[x.size // 2] if flat[x.size // 2] in (0, 1) else flat[x.size // 2] + 1


def _reuse_same(name):
    """(expected, got): op, the caller nudges the op's own argument buffers in place, op again with the same objects;
    expected = the op on fresh buffers with the nudged content, taken in another child of the pristine parent"""
    mk, call, _ = OPS[name]

    def expected(_):
        a = mk()
        for x in a:
            _nudge(x)
        return _digest_call(call, a)

    def got(_):
        from mc.hist import overwrite_in_place

        a = mk()
        _digest_call(call, a)
        for x, x0 in zip(a, mk()):
            if _mutable_kind(x):
                overwrite_in_place(x, x0)  # (an in-place repair may have changed it: the caller writes the whole content again)
                _nudge(x)
        return _digest_call(call, a)

    return run_isolated_value(expected, None), run_isolated_value(got, None)


def _reuse_cross(pair):
    """op X on its buffers, then the caller overwrites those same objects in place with the arguments of op Y and calls Y with them"""
    from mc.hist import overwrite_in_place

    x, y = pair
    a = list(OPS[x][0]())
    _digest_call(OPS[x][1], a)
    b = OPS[y][0]()
    for i, v in enumerate(b):
        if _mutable_kind(v):
            overwrite_in_place(a[i], v)
        else:
            a[i] = v
    return _digest_call(OPS[y][1], a)


TWIN_KINDS = ("same_octets_other_bit_order", "same_bits_other_storage")


def _twin(x, kind):
    """a bitarray that a careless cache key confuses with `x`: the same storage octets read in the other bit order (another bit string
    with the same tobytes()), or the same bit string in the other storage order (another tobytes() with the same to01())"""
    k = _mutable_kind(x)
    if not (k and k.startswith("bitarray")) or len(x) == 0:
        return None
    other = "little" if k.endswith("big") else "big"
    if kind == "same_octets_other_bit_order":
        t = bitarray(endian=other)
        t.frombytes(x.tobytes())
        del t[len(x):]
        return t
    return bitarray(x.to01(), endian=other)


def _twin_args(name, kind):
    args = list(OPS[name][0]())
    hit = False
    for i, v in enumerate(args):
        t = _twin(v, kind)
        if t is not None and (t != v or kind == "same_bits_other_storage"):
            args[i] = t
            hit = True
    return args if hit else None


def _twin_history(task):
    """order: 'T' twin alone, 'XT' op then twin, 'TX' twin then op, 'TT' twin twice -> digest of the last call"""
    name, kind, order = task
    call = OPS[name][1]
    out = None
    for step in order:
        args = _twin_args(name, kind) if step == "T" else list(OPS[name][0]())
        out = _digest_call(call, args)
    return out


def w_twins_from(name):
    acc = Acc()
    for kind in TWIN_KINDS:
        if not TWINNABLE.get((name, kind)):
            continue
        alone = run_isolated_value(_twin_history, (name, kind, "T"))
        for order, last_alone, what in (("XT", alone, "the twin after the op"), ("TX", FRESH[name], "the op after its twin"), ("TT", alone, "the twin twice")):
            g = run_isolated_value(_twin_history, (name, kind, order))
            case = {"op": name, "twin": kind, "sequence": order, "meaning": what}
            if isinstance(g, str) or isinstance(alone, str):
                acc.violation("child_crashed", {**case, "detail": str(g)[:200]})
            elif g[0] != last_alone[0]:
                acc.violation(f"result_depends_on_an_earlier_call_with_a_storage_twin:{name}", {**case, "alone": last_alone[1], "in_history": g[1]},
                              f"{name}: the call gives another result after the same call on a bitarray with {kind.replace('_', ' ')} than it gives alone")
            acc.case(nontrivial=True, calls=len(order), outcome=kind + ":" + order, sample=case if len(acc.samples) < 1 else None)
    return acc


def w_reuse_from(first):
    acc = Acc()
    shape = _arg_shape(first)
    e, g = _reuse_same(first)
    case = {"sequence": [first, "caller edits the argument buffers in place", first]}
    if isinstance(e, str) or isinstance(g, str):
        acc.violation("child_crashed", {**case, "detail": str(e)[:100] + " / " + str(g)[:100]})
    elif e[0] != g[0]:
        acc.violation(f"answer_for_an_earlier_content_of_the_callers_buffer:{first}", {**case, "fresh_buffers": e[1], "reused_buffers": g[1]},
                      f"{first} called again with the same argument objects after the caller changed their content gives another result than for fresh objects with that content")
    acc.case(nontrivial=True, calls=3, outcome="same_op", sample=case if len(acc.samples) < 1 else None)
    for y in OPS:
        if y == first or _arg_shape(y) != shape:
            continue
        g = run_isolated_value(_reuse_cross, (first, y))
        case = {"sequence": [first, "caller overwrites the same argument objects in place", y]}
        if isinstance(g, str):
            acc.violation("child_crashed", {**case, "detail": g[:200]})
        elif g[0] != FRESH[y][0]:
            acc.violation(f"result_depends_on_what_the_callers_buffer_held_before:{y}", {**case, "fresh": FRESH[y][2], "reused_buffers": g[1]},
                          f"{y} gives another result when its argument objects were used for {first} before and overwritten in place")
        acc.case(nontrivial=True, calls=2, outcome="cross", sample=None)
    return acc


def dump_fresh():
    """entry point for the brand-new-interpreter cross-check: print fresh digests as JSON"""
    build_catalogue()
    out = {}
    names = list(OPS)
    for n, r in zip(names, par.pmap(lambda n: run_sequence_isolated([n]), names, 4)):
        out[n] = [r[0][0], r[0][1], r[0][2]]
    print("FRESH-JSON:" + json.dumps(out))


def fresh_in_new_interpreter(fake_date=None):
    code = "import sys; sys.path.insert(0, %r)\n" % env.VERIF
    if fake_date:
        code += (
            "import datetime as _dt, time as _t\n"
            "class _D(_dt.date):\n"
            "    @classmethod\n"
            "    def today(cls): return _dt.date(%d, %d, %d)\n"
            "_dt.date = _D\n"
            "_t.time = lambda: %f\n" % (fake_date[0], fake_date[1], fake_date[2], fake_date[3])
        )
    code += "from mc import env\nimport checks.c19_purity as c\nc.dump_fresh()\n"
    e = dict(os.environ, PYTHONHASHSEED=str(fake_date[4] if fake_date else 1), TZ=(fake_date[5] if fake_date and len(fake_date) > 5 else "UTC"))
    r = subprocess.run([sys.executable] + (["-O"] if sys.flags.optimize else []) + ["-B", "-c", code], capture_output=True, text=True, env=e, cwd=env.VERIF)
    for line in r.stdout.splitlines():
        if line.startswith("FRESH-JSON:"):
            return json.loads(line[len("FRESH-JSON:"):])
    raise RuntimeError("fresh interpreter run failed: " + r.stderr[-2000:])


def run(only=None):
    rep = Report("C19")
    env.import_all_okdmr()  # pristine parent: library imported, nothing executed
    build_catalogue()
    names = list(OPS)
    rep.explanation = (
        "State = interpreter-global state of the loaded library. Every explored call sequence is executed in its own forked child of a "
        "pristine parent; the last call's result digest (generic structural hash of the returned object / exception type) must equal the "
        "digest of the same call alone, and every call's argument buffers are hashed before and after. All ordered pairs of the "
        f"{len(names)}-op catalogue and all ordered triples over the shared-state ops are enumerated."
    )
    rep.assumptions = [
        "the catalogue (one or more closed calls per public codec family, explicit / default-argument / default-constructed-object variants) is the event alphabet",
        "fork of a pristine parent == fresh interpreter (cross-checked against a brand-new interpreter in sub-check fresh_reference)",
        "in-place Hamming repair (check_and_correct) is the documented exception to buffer immutability",
    ]
    # ---- fresh reference -----------------------------------------------------------------------------
    s = rep.sub("fresh_reference", "every op alone in a forked child of the pristine parent, compared with a brand-new interpreter (other PYTHONHASHSEED, TZ=UTC "
                                   "while this process runs in another zone) and with two fresh interpreters running under different fake dates/clocks and zones")
    for n, r in zip(names, par.pmap(lambda n: run_sequence_isolated([n])[0], names)):
        FRESH[n] = r
        if not r[1]:
            s.violation(why(r[2], n)[0], {"sequence": [n]}, why(r[2], n)[1])
        s.case(nontrivial=True, outcome=r[2], sample={"op": n, "result": r[2]} if len(s.samples) < 2 else None)
    import concurrent.futures as _cf

    with _cf.ThreadPoolExecutor(max_workers=3) as ex:
        futs = [("new_interpreter", ex.submit(fresh_in_new_interpreter)),
                ("fake_date_2001", ex.submit(fresh_in_new_interpreter, (2001, 2, 3, 981_000_000.0, 11, "America/Adak"))),
                ("fake_date_2038", ex.submit(fresh_in_new_interpreter, (2038, 11, 30, 2_174_000_000.0, 12, "Asia/Kolkata")))]
        others = [(label, f.result()) for label, f in futs]
    for label, ref in others:
        for n in names:
            flags = OPS[n][2]
            if ref.get(n, [None])[0] != FRESH[n][0]:
                if label == "new_interpreter" or "parse" in flags:
                    s.violation(f"result_differs_in_{label}:{n}", {"op": n, "here": FRESH[n][2], "there": ref.get(n, [None, None, None])[2]},
                                "result depends on interpreter start-up state / date / hash seed")
            s.case(nontrivial=False)
    s.extra["ops"] = {n: FRESH[n][2] for n in names}
    s.extra["ops_raising_when_fresh"] = [n for n in names if FRESH[n][2].startswith("raises")]
    s.extra["classes_not_built_with_defaults"] = list(DEFAULT_CTOR_SKIPPED)
    s.done()
    # ---- seams: clock / randomness independence of parsing -------------------------------------------
    s = rep.sub("clock_randomness_independence", "every op alone under two seam settings (clock, token/uuid counters, random seed); parse ops must return the fresh digest")
    for seam in ((1_000_000_000.0, 7), (1_900_000_000.5, 123456)):
        for n, r in zip(names, par.pmap(lambda n, seam=seam: run_sequence_isolated([n], seam=seam)[0], names)):
            if r[0] != FRESH[n][0] and "parse" in OPS[n][2]:
                s.violation("parse_depends_on_clock_or_randomness:" + n, {"op": n, "seam": list(seam)})
            s.case(nontrivial=True, outcome=r[2])
    s.done()
    # ---- an entry point as the first and only thing a process does with the library ----------------------------
    if not only or "entry_point_alone_in_a_new_interpreter" in only:
        import concurrent.futures as _cf2

        ENTRY = [
            ("okdmr.dmrlib.etsi.layer2.burst", "Burst.from_bytes(bytes.fromhex('51dd0c4d8bb40ac413a86c5094fdff57d75df5dcadfa1268aaa87b82b9d8291910')).as_bytes().hex()", "Burst"),
            ("okdmr.dmrlib.etsi.layer2.burst", "repr(Burst.from_bytes(bytes.fromhex('51dd0c4d8bb40ac413a86c5094fdff57d75df5dcadfa1268aaa87b82b9d8291910')).data.as_bits())", "Burst"),
            ("okdmr.dmrlib.etsi.layer2.pdu.csbk", "CSBK.from_bits(__import__('bitarray').bitarray('101111010000000000000000000000010000000000000001100110100000000000000001100111000101011011001110')).as_bits().to01()", "CSBK"),
            ("okdmr.dmrlib.etsi.layer2.pdu.full_link_control", "FullLinkControl.from_bits(__import__('bitarray').bitarray('0' * 24 + format(91, '024b') + format(2301234, '024b') + '0' * 24)).as_bits().to01()", "FullLinkControl"),
            ("okdmr.dmrlib.etsi.fec.bptc_196_96", "BPTC19696.deinterleave_data_bits(BPTC19696.encode(__import__('bitarray').bitarray('10110011' * 12)), True).to01()", "BPTC19696"),
            ("okdmr.dmrlib.etsi.fec.trellis", "Trellis34.decode(Trellis34.encode(__import__('bitarray').bitarray('101100111' * 16))).to01()", "Trellis34"),
            ("okdmr.dmrlib.etsi.fec.reed_solomon_12_9_4", "(ReedSolomon1294.log_multiply(0x80, 0x1D), ReedSolomon1294.generate(bytes(range(9, 18)), b'\\x96\\x96\\x96').hex())", "ReedSolomon1294"),
            ("okdmr.dmrlib.etsi.crc.crc16", "CRC16.calculate(bytes.fromhex('bd0000010001019a0001'), __import__('okdmr.dmrlib.etsi.layer2.elements.crc_masks', fromlist=['CrcMasks']).CrcMasks.CSBK)", "CRC16"),
            ("okdmr.dmrlib.hytera.pdu.hstrp", "HSTRP.from_bytes(bytes.fromhex('32420020000183040001869f04010211000300040a000064bd03')).as_bytes().hex()", "HSTRP"),
            ("okdmr.dmrlib.hytera.pdu.hrnp", "HRNP.from_bytes(bytes.fromhex('7e0400002010000100189b6002040005006400000001c403')).as_bytes().hex()", "HRNP"),
            ("okdmr.dmrlib.hytera.pdu.hdap", "HDAP.from_bytes(bytes.fromhex('11000300040a000064bd03')).as_bytes().hex()", "HDAP"),
            ("okdmr.dmrlib.hytera.hytera_ipsc", "__import__('okdmr.dmrlib.etsi.layer2.burst', fromlist=['Burst']).Burst.from_hytera_ipsc(bytes.fromhex('5a5a5a5a0300000041000501020000002222999911110000100038d424a26d410436c0dda2f46165307000904607a54d4715ff8e3685dd23255501e3000001000900000022072800')).hytera_ipsc.as_ipsc_bytes().hex()", "HyteraIPSC"),
            ("okdmr.dmrlib.motorola.mbxml", "[MBXML.as_bytes(d).hex() for d in MBXML.from_bytes(bytes.fromhex('071A22042468ACE0341F4DBC778051118ECD8D118AD47B00636C0006'))]", "MBXML"),
            ("okdmr.dmrlib.motorola.text_messaging_service", "TextMessagingService.from_bytes(bytes.fromhex('000ea00000840d000a00540045005300')).as_bytes().hex()", "TextMessagingService"),
            ("okdmr.dmrlib.motorola.automatic_registration_service", "AutomaticRegistrationService.from_bytes(bytes.fromhex('0010F5000231310939393939393939393900')).as_bytes().hex()", "AutomaticRegistrationService"),
        ]
        s = rep.sub("entry_point_alone_in_a_new_interpreter",
                    f"{len(ENTRY)} codec entry points (burst, PDUs, FEC, CRC, Hytera, Motorola), each evaluated in a brand-new interpreter that imports nothing of the "
                    "library but the entry point's own module and makes that one call: same result as the same expression evaluated in this process "
                    "(which has imported and used everything)")

        def there(entry):
            mod, expr, name = entry
            code = ("import sys, logging\nsys.path.insert(0, %r)\nlogging.disable(logging.CRITICAL)\nimport io, contextlib\n"
                    "from %s import %s\n"
                    "try:\n"
                    "    with contextlib.redirect_stdout(io.StringIO()):\n"
                    "        r = repr(%s)\n"
                    "except Exception as e:\n"
                    "    r = 'raises:' + type(e).__name__ + ':' + str(e)[:100]\n"
                    "print('RESULT:' + r)\n") % (env.REPO, mod, name, expr)
            r = subprocess.run([sys.executable] + (["-O"] if sys.flags.optimize else []) + ["-B", "-c", code], capture_output=True, text=True,
                               env=dict(os.environ, PYTHONHASHSEED="77"))
            for line in r.stdout.splitlines():
                if line.startswith("RESULT:"):
                    return line[7:]
            return "NO-RESULT:" + r.stderr[-200:]

        def here(entry):
            mod, expr, name = entry
            import importlib
            import io as _io
            import contextlib as _cl
            ns = {name: getattr(importlib.import_module(mod), name)}
            try:
                with _cl.redirect_stdout(_io.StringIO()):
                    return repr(eval(expr, ns))  # noqa: S307  (fixed expressions above)
            except Exception as e:  # noqa: BLE001
                return "raises:" + type(e).__name__ + ":" + str(e)[:100]

        with _cf2.ThreadPoolExecutor(max_workers=8) as ex:
            theres = list(ex.map(there, ENTRY))
        for entry, t_ in zip(ENTRY, theres):
            h_ = run_isolated_value(here, entry)
            case = {"module": entry[0], "expression": entry[1][:160]}
            if t_.startswith("NO-RESULT"):
                rep.internal_error(f"new interpreter for {entry[0]} gave no result: {t_}")
            elif h_ != t_:
                s.violation(f"result_differs_when_the_entry_point_is_alone_in_a_new_interpreter:{entry[2]}", {**case, "here": h_[:200], "there": t_[:200]},
                            "the same call gives another result (or fails) in a process that imported only the entry point's module")
            elif h_.startswith("raises:"):
                rep.internal_error(f"entry expression for {entry[0]} raises in both processes: {h_}")
            s.case(nontrivial=True, calls=2, outcome=entry[2], sample=case if len(s.samples) < 1 else None)
        s.declared = len(ENTRY)
        s.done()
    # ---- all ordered pairs ------------------------------------------------------------------------------
    if not only or "all_ordered_pairs" in only:
        s = rep.sub("all_ordered_pairs", f"all {len(names)}^2 ordered pairs (i, j) incl. i == j, each in its own forked child; non-trivial: every pair")
        s.declared = len(names) ** 2
        for acc in par.pmap(w_pairs_from, names):
            s.merge(acc)
        s.done()
    # ---- the caller re-uses its argument buffers ---------------------------------------------------------------
    if not only or "argument_buffers_reused_by_the_caller" in only:
        _load_shapes(names)
        reus = [n for n in names if any(_arg_shape(n))]
        s = rep.sub("argument_buffers_reused_by_the_caller",
                    f"the {len(reus)} ops that take a bitarray / bytearray / list / numpy array: (a) the op, the caller changes one bit / element of the SAME argument "
                    "objects in place, the op again -- same result as for fresh objects of that content; (b) for every ordered pair of such ops with "
                    "the same argument shapes: op X, the caller overwrites the same objects in place with Y's arguments, op Y -- Y's fresh result.  "
                    "Each history in its own forked child of the pristine parent")
        for acc in par.pmap(w_reuse_from, reus):
            s.merge(acc)
        s.extra["ops_with_mutable_arguments"] = len(reus)
        s.done()
    # ---- storage twins of the arguments -----------------------------------------------------------------------
    if not only or "storage_twins_of_the_arguments" in only:
        _load_shapes(names)
        tw = [n for n in names if any(TWINNABLE.get((n, k)) for k in TWIN_KINDS)]
        s = rep.sub("storage_twins_of_the_arguments",
                    f"the {len(tw)} ops that take a bitarray: the op and its storage twins (the same storage octets in the other bit order = another bit string with the "
                    "same tobytes(); the same bit string in the other storage order = another tobytes() with the same to01()) in the orders op-twin, twin-op, "
                    "twin-twin, each history in its own forked child: the last call gives what it gives alone in a forked child of the pristine parent")
        for acc in par.pmap(w_twins_from, tw):
            s.merge(acc)
        s.extra["ops_with_bitarray_arguments"] = len(tw)
        s.done()
    # ---- triples over shared-state ops -------------------------------------------------------------------
    if not only or "shared_state_triples" in only:
        shared = [n for n in names if "shared" in OPS[n][2]]
        if not rep.thorough():
            # quick: the ops whose implementation holds state between calls (CRC singletons, class tables, default-argument objects,
            # BPTC tables); the thorough tier runs all ops flagged "shared"
            core = ["CRC8.calculate_A", "CRC8.calculate_A_padded32", "CRC9.from_parts_crc32", "CRC9.calculate_bits", "CRC16.calculate_hdr", "CRC32.calculate_odd",
                    "crc9_table_m1", "crc16_table_m0", "rcp.default_ctor_add_setting", "rcp.default_ctor_serialise", "lrrp.get_token_with_attribute",
                    "lrrp.get_token_plain", "burst.default_ctor_then_write", "dataheader.default_ctor_then_write", "bptc.encode", "bptc.decode_reserved_bits_set",
                    "fail.crc.bytes_instead_of_bits", "fail.bptc.decode_195", "fail.crc8.late_bad_bit", "fail.crc9.late_unreadable_slice",
                    "fail.crc16_table.late_unreadable_slice"]
            shared = [n for n in core if n in OPS]
        s = rep.sub("shared_state_triples", f"all ordered triples over the {len(shared)} ops that touch shared state (CRC singletons, cached table, class tables, defaults)")
        triples = [(a, b, c) for a in shared for b in shared for c in shared]
        s.declared = len(triples)
        tasks = [(c, "triples") for c in par.split_list(triples, 64)]
        for acc in par.pmap(w_sequences, tasks):
            s.merge(acc)
        s.extra["ops"] = shared
        s.done()
    rep.bounds = {"catalogue": len(names), "sequence_length": 3}
    return rep.finish()


def replay(doc):
    env.import_all_okdmr()
    build_catalogue()
    bad = 0
    for c in doc.get("cases", []):
        seq = c.get("sequence") or [c.get("op")]
        if "earlier_result_changed" in doc.get("sig", "") and len(seq) == 2:
            rd, ok, short, obj = run_op(seq[0], keep=True)
            run_op(seq[1])
            same = h(canon(obj, skip=SKIP)) == rd
            print("  sequence", seq, "-> result of", seq[0], "kept by the caller is", "UNCHANGED" if same else "DIFFERENT", "after", seq[1])
            bad += 0 if same else 1
            continue
        fresh = run_sequence_isolated([seq[-1]])[0]
        res = run_sequence_isolated(seq)
        print("  sequence", seq, "->", [(r[2], "args ok" if r[1] else "ARGS MODIFIED") for r in res], "| fresh:", fresh[2],
              "SAME" if res[-1][0] == fresh[0] else "DIFFERENT")
        if res[-1][0] != fresh[0] or not all(r[1] for r in res):
            bad += 1
    print("replay:", "still fails" if bad else "does not reproduce")
    return 1 if bad else 0

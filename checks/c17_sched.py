"""C17, schedules of a closed system: two real RRS/HSTRP handlers, each with its periodic_maintenance() task, on ONE virtual event
loop (what tools/hrnp_client.py builds: two endpoints and their maintenance tasks on one loop), wired back to back through an
in-flight multiset of datagrams.

The explorer owns every source of order: which in-flight datagram is delivered next, when the loop runs its next ready callback
(a step of either maintenance task, a timer's wake-up), when time passes to the next timer, and when (budget-bounded) an external
datagram is injected.  The maintenance task addresses a fixed repeater address; in the closed system that address is the peer.

Obligations (C17's statement, per handler): handling never raises; an ack-bearing datagram is never answered, so after the last
spontaneous send (injection or maintenance CONNECT) the exchange dies out within a bound; the connected flag of each handler equals
'last connect / close it has seen was a connect' (a datagram with the connect / close bit, with or without ACK); each handler's
registry is what the datagrams it received imply.
"""
from mc import explore
from mc.report import exc_sig
from mc.canon import canon
from mc.vloop import VLoop

from checks import c17_hstrp as H

MAINT_PEER = "192.168.22.18"  # the address periodic_maintenance() sends its CONNECT to
QUIET = 8
CLOCK0 = 1_700_000_000.0


class ClosedMaint(explore.System):
    INITS = [(False, False), (True, True), (True, False)]
    BUDGET = 1
    INJECT = ["CONNECT", "CLOSE", "CLOSE_ACK", "ACK", "REG_A", "HEARTBEAT", "REJECT"]

    def __init__(self, init):
        H.SEAMS.clock = CLOCK0
        self._init = init
        self._path = []
        self.loop = VLoop()
        self.h, self.tr, self.task = {}, {}, {}
        for name, conn in zip("AB", init):
            p = H.RRSDatagramProtocol(port=30001)
            t = H.RecDatagramTransport()
            p.connection_made(t)
            p.hstrp_connected = conn
            self.h[name], self.tr[name] = p, t
        with self.loop.running():
            for name in "AB":
                self.task[name] = self.loop.create_task(self.h[name].periodic_maintenance())
        self.m_conn = {"A": init[0], "B": init[1]}
        self.m_reg = {"A": {}, "B": {}}
        self.inflight = []
        self.budget = self.BUDGET
        self.since_spontaneous = 0
        self.dead = False
        self.obs = None

    def clone(self):
        c = type(self)(self._init)
        for ev in self._path:
            c.step(ev)
        return c

    def __del__(self):
        try:
            self.loop.shutdown(list(self.task.values()))
        except Exception:  # noqa: BLE001
            pass

    def events(self):
        if self.dead:
            return []
        evs = []
        seen = set()
        for i, m in enumerate(self.inflight):
            if m not in seen:
                seen.add(m)
                evs.append(("deliver", i))
        if self.loop.ready_count():
            evs.append(("loop_step",))
        if self.loop.timer_count():
            evs.append(("timer",))
        if self.budget > 0:
            evs += [("inject", k) for k in self.INJECT]
        return evs

    def _collect(self, sender, spontaneous):
        """move what `sender`'s transport recorded into the in-flight multiset"""
        other = "B" if sender == "A" else "A"
        n = 0
        for o, a in self.tr[sender].sent:
            p = H.parse_out(o)
            if p is not None and p["type"] == H.T_HB and not spontaneous:
                continue  # heartbeat echo between connected peers: permitted to go on, counted, not re-delivered
            self.inflight.append((other, sender, o))
            n += 1
        self.tr[sender].sent = []
        self.inflight.sort()
        return n

    def step(self, ev):
        ev = tuple(ev)
        self._path.append(ev)
        H.SEAMS.clock = CLOCK0 + self.loop.time()
        viol = []
        for n in "AB":
            self.tr[n].sent = []
        if ev[0] == "loop_step":
            try:
                self.loop.step()
            except Exception as e:  # noqa: BLE001
                viol.append(("exception_out_of_the_event_loop:" + exc_sig(e), {"event": list(ev), "exc": repr(e)}))
            sent = 0
            for n in "AB":
                for o, _ in self.tr[n].sent:
                    if (H.parse_out(o) or {}).get("type", 0) & H.T_ACK:
                        viol.append(("acknowledgement_sent_by_the_event_loop_not_by_the_handling_of_a_message", {"event": list(ev), "handler": n, "sent": o.hex()}))
                    if H.is_rrs_success_answer(o, H.IP_A):
                        viol.append(("registration_answered_again_by_the_event_loop", {"event": list(ev), "handler": n, "sent": o.hex()}))
                sent += self._collect(n, spontaneous=True)
            if sent:
                self.since_spontaneous = 0
            self.obs = ("loop_step", sent)
        elif ev[0] == "timer":
            self.loop.advance()
            self.obs = ("timer",)
        else:
            if ev[0] == "inject":
                dst, src, data = "A", "B", H.DG[ev[1]]
                self.budget -= 1
                self.since_spontaneous = 0
            else:
                dst, src, data = self.inflight.pop(ev[1])
                self.since_spontaneous += 1
            h = self.h[dst]
            try:
                with self.loop.running():
                    h.datagram_received(data, (MAINT_PEER, 30001))
            except Exception as e:  # noqa: BLE001
                viol.append(("exception:" + exc_sig(e), {"event": list(ev), "datagram": data.hex(), "exc": repr(e)}))
            p = H.parse_out(data)
            if p is not None and len(data) >= 6:
                if p["type"] & H.T_CONNECT:
                    self.m_conn[dst] = True
                elif p["type"] & H.T_CLOSE and not p["type"] & H.T_HB:
                    self.m_conn[dst] = False
                if p["type"] & H.T_ACK and any((H.parse_out(o) or {}).get("type", 0) & H.T_ACK for o, _ in self.tr[dst].sent):
                    viol.append(("acknowledgement_answered", {"event": list(ev), "datagram": data.hex(), "sent": [o.hex() for o, _ in self.tr[dst].sent]}))
            eff = H.rrs_effect(data)
            if eff is not None:
                self.m_reg[dst][eff[0]] = eff[1]
            self._collect(dst, spontaneous=False)
            self.obs = (ev[0], (p or {}).get("type"), len(self.inflight))
        for n in "AB":
            if self.h[n].hstrp_connected != self.m_conn[n]:
                viol.append(("connected_flag_differs_from_what_the_handler_has_seen", {"event": list(ev), "handler": n, "flag": self.h[n].hstrp_connected, "model": self.m_conn[n]}))
                self.m_conn[n] = self.h[n].hstrp_connected
            if dict(H.registry_view(self.h[n])) != self.m_reg[n]:
                viol.append(("registry_of_a_handler_differs_from_its_own_history", {"event": list(ev), "handler": n, "registry": H.registry_view(self.h[n]), "model": self.m_reg[n]}))
                self.m_reg[n] = dict(H.registry_view(self.h[n]))
        if self.since_spontaneous > QUIET and self.inflight:
            viol.append(("handlers_keep_answering_each_other", {"event": list(ev), "deliveries_since_the_last_spontaneous_send": self.since_spontaneous,
                                                               "inflight": [(d, s_, b.hex()) for d, s_, b in self.inflight]}))
            self.dead = True
        H.SEAMS.clock = CLOCK0 + self.loop.time()
        return viol

    def key(self):
        now = self.loop.time()
        return (
            tuple((n, self.h[n].hstrp_connected, self.h[n].sn, H.registry_view(self.h[n]), self.m_conn[n]) for n in "AB"),
            tuple(self.inflight), self.budget, self.since_spontaneous, self.dead, now,
            self.loop.describe({self.task[n]: n for n in "AB"}), tuple(self.task[n].done() for n in "AB"),
            tuple(repr(canon(self.h[n], skip=H.IMPL_SKIP)) for n in "AB"),
        )

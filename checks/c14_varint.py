"""C14 -- MBXML variable-length integers / floats, latitude, longitude, info-time.

Complete enumeration of stated finite spaces on the real MBXML.write_* / MBXML.read_*:
  * unsigned / signed integers: dense sweep, the structured 5-septet family that covers the whole
    32 / 31-bit range (two free septets over all 128^2 values at every position pair, the other
    three septets at their extreme values), all 128^k*j and 2^k boundaries with +-1 neighbours;
    oracle = harness varint reference (mc/oracle/mbxml_ref.py): writer output must be the canonical
    shortest septet sequence, reader on `reference || sentinel` must return the value and the
    index just behind the reference octets (writer and reader are judged separately);
  * floats: (integer alphabet) x all 128 / 16384 fractions for precision 1 / 2, boundary fractions
    (thorough: all 128^3) for precision 3, both signs incl. (-1, 0); oracle = exact round trip
    (values are dyadic rationals, exact in a double) + reader on the reference octets;
  * latitude / longitude / info-time: oracle = the library's own XML view (doc.as_xml()) of a
    circle-2d + point-2d + point-3d / info-time token carrying the written octets.
"""
from mc import env  # noqa: F401
from mc import par
from mc.report import Report, Acc, exc_sig
from mc.oracle import mbxml_ref as R

import datetime
import re

from okdmr.dmrlib.motorola.mbxml import MBXML, MBXMLDocumentIdentifier
from okdmr.dmrlib.motorola.lrrp import LRRP

SENT = b"\xaa\x55"  # sentinel behind every encoded value: 0xAA has the continuation bit set
REJECT = (OverflowError, ValueError, AssertionError)  # writer refusing a value outside its domain


def prefixes():
    """b'' always; plus one seed-chosen 3-octet filler whose last octet has the continuation bit
    set (a reader that looks behind idx would be caught)"""
    f = env.det_bytes("c14-prefix", 3)
    return [b"", f[:2] + bytes([f[2] | 0x80])]


# ---------------------------------------------------------------------------
# per-case evaluators (used by workers and by replay)
# ---------------------------------------------------------------------------
def check_uint(acc, v, prefix=b""):
    ref = R.enc_uintvar(v)
    calls = 0
    try:
        calls += 1
        w = MBXML.write_uintvar(v)
        if w != ref:
            case = {"kind": "uintvar", "value": v, "prefix": prefix.hex()}
            c = {**case, "written": bytes(w).hex(), "canonical": ref.hex()}
            if v > 0 and v % 128 == 0 and w == R.enc_uintvar(v >> 7):
                acc.violation("uintvar_write_drops_zero_low_septet", c,
                              "write_uintvar(128*k) omits the final 0x00 septet: the octets are those of k")
            else:
                try:
                    back = R.dec_uintvar(bytes(w) + SENT, 0) == (v, len(w))
                except Exception:
                    back = False
                acc.violation("uintvar_write_not_shortest_form" if back else "uintvar_write_encodes_other_value", c,
                              "write_uintvar output is not the canonical septet sequence")
    except Exception as e:
        acc.violation("exception_write_uintvar:" + exc_sig(e), {"kind": "uintvar", "value": v, "prefix": prefix.hex()}, repr(e))
    try:
        calls += 1
        got = MBXML.read_uintvar(prefix + ref + SENT, len(prefix))
        if tuple(got) != (v, len(prefix) + len(ref)):
            acc.violation("uintvar_read_wrong", {"kind": "uintvar", "value": v, "prefix": prefix.hex(), "octets": ref.hex(), "got": list(got)},
                          "read_uintvar on the canonical octets does not return (value, index behind them)")
    except Exception as e:
        acc.violation("exception_read_uintvar:" + exc_sig(e), {"kind": "uintvar", "value": v, "prefix": prefix.hex()}, repr(e))
    acc.case(nontrivial=True, calls=calls, outcome=len(ref),
             sample={"kind": "uintvar", "value": v, "prefix": prefix.hex()} if v == 0x87A5 else None)


def check_sint(acc, v, negzero=False, prefix=b"", nontrivial=True):
    """v: value; negzero: the writer's negative_zero flag (only used with v == 0)"""
    ref = R.enc_sintvar(v, negative_zero=negzero)
    sign = -1 if (v < 0 or negzero) else 1
    calls = 0

    def mk():
        return {"kind": "sintvar", "value": v, "negative_zero": negzero, "prefix": prefix.hex()}

    try:
        calls += 1
        w = MBXML.write_sintvar(v, negative_zero=True) if negzero else MBXML.write_sintvar(v)
        if w != ref:
            c = {**mk(), "written": bytes(w).hex(), "canonical": ref.hex()}
            m = abs(v)
            preds = []
            if m > 0 and m % 128 == 0:
                preds.append("zero_low_septet_dropped")
            if R.septets(m)[0] & 0x40:
                preds.append("sign_bit_collision")
            acc.violation("sintvar_write_wrong[" + ("+".join(preds) or "unexplained") + "]", c,
                          "write_sintvar output is not the canonical septet sequence (sign = bit 6 of the first septet, "
                          "magnitude must leave that bit free)")
    except Exception as e:
        acc.violation("exception_write_sintvar:" + exc_sig(e), mk(), repr(e))
    try:
        calls += 1
        got = MBXML.read_sintvar(prefix + ref + SENT, len(prefix))
        want = (v, len(prefix) + len(ref), sign)
        if tuple(got) != want:
            acc.violation("sintvar_read_wrong", {**mk(), "octets": ref.hex(), "got": list(got)},
                          "read_sintvar on the canonical octets does not return (value, index behind them, sign)")
    except Exception as e:
        acc.violation("exception_read_sintvar:" + exc_sig(e), mk(), repr(e))
    acc.case(nontrivial=nontrivial, calls=calls, outcome=(len(ref), sign), sample=mk() if v == -0xA0 else None)


def check_float(acc, signed, i, d, p, negative=False):
    """value = +-(i + d/128^p); exact round trip through write_*floatvar(value, p) / read_*floatvar"""
    kind = "sfloat" if signed else "ufloat"
    v = R.fval(i, d, p, negative)

    def mk():
        return {"kind": kind, "integer": i, "fraction_numerator": d, "precision": p, "negative": negative, "value": repr(v)}

    write = MBXML.write_sfloatvar if signed else MBXML.write_ufloatvar
    read = MBXML.read_sfloatvar if signed else MBXML.read_ufloatvar
    calls = 0
    outcome = None
    try:
        calls += 2
        b = write(v, p)
        got, idx = read(bytes(b) + SENT, 0)
        outcome = len(b)
        if got != v:
            gi = int(abs(got))
            gf = abs(got) - gi
            c = {**mk(), "written": bytes(b).hex(), "read_back": repr(got)}
            sign_bad = signed and ((got < 0) != negative) and got != 0
            if gi != i or sign_bad:
                preds = []
                if i > 0 and i % 128 == 0:
                    preds.append("zero_low_septet_dropped")
                if signed and R.septets(i)[0] & 0x40:
                    preds.append("sign_bit_collision")
                acc.violation(f"{kind}_integer_part_wrong[" + ("+".join(preds) or "unexplained") + "]", c,
                              "float written and read back has a different integer part / sign (integer varint defect inherited)")
            if gf != d / 128 ** p:
                pred = "leading_zero_septet_lost" if (p >= 2 and 0 < d < 128 ** (p - 1)) else "unexplained"
                acc.violation(f"{kind}_fraction_wrong[{pred}]", c,
                              "fraction d/128^p with d < 128^(p-1) is written in fewer than p septets and read back "
                              "scaled by 128^(missing septets)")
            if gi == i and not sign_bad and gf == d / 128 ** p:
                acc.violation(f"{kind}_roundtrip_value_differs", c)
        elif idx != len(b):
            acc.violation(f"{kind}_read_consumes_wrong_length", {**mk(), "written": bytes(b).hex(), "idx": idx})
    except Exception as e:
        acc.violation(f"exception_{kind}_roundtrip:" + exc_sig(e), mk(), repr(e))
    # the reader alone, on the harness's octets
    try:
        calls += 1
        ref = R.enc_sfloat(i, d, negative, p) if signed else R.enc_ufloat(i, d, p)
        got, idx = read(ref + SENT, 0)
        if got != v or idx != len(ref):
            acc.violation(f"{kind}_read_reference_octets_wrong", {**mk(), "octets": ref.hex(), "got": [repr(got), idx]},
                          "reader on the harness-encoded float does not return (value, index behind it)")
    except Exception as e:
        acc.violation(f"exception_{kind}_read:" + exc_sig(e), mk(), repr(e))
    acc.case(nontrivial=True, calls=calls, outcome=(p, outcome), sample=mk() if (i, d, p) == (160, 983, 2) else None)


_XML = {}


def xml_view():
    """one report document per process holding circle-2d, point-2d, point-3d and info-time tokens
    obtained through the public lookup API (no attributes -> the lookup does not touch the tables)"""
    if not _XML:
        doc = LRRP(document_id=MBXMLDocumentIdentifier.LRRP_ImmediateLocationReport_NCDT)
        z = b"\x00\x00\x00\x00"
        _XML["c2"] = doc.get_token(name="circle-2d", value=(z, z, 0.0), attributes={}, is_request=False)
        _XML["p2"] = doc.get_token(name="point-2d", value=(z, z), attributes={}, is_request=False)
        _XML["p3"] = doc.get_token(name=0x69, value=(z, z, 0.0), attributes={}, is_request=False)
        _XML["it"] = doc.get_token(name="info-time", value=b"\x00" * 5, attributes={}, is_request=False)
        _XML["doc"] = doc
    return _XML


RE_LAT = re.compile(r"<lat>([^<]*)</lat>")
RE_LON = re.compile(r"<long>([^<]*)</long>")
RE_IT = re.compile(r"<info-time>([^<]*)</info-time>")


def check_coord(acc, which, k, scale):
    """which: 'lat' | 'lon'; value = k / scale degrees"""
    v = k / scale
    case = {"kind": which, "k": k, "scale": scale, "value": repr(v)}
    in_range = (0 <= v <= 90) if which == "lat" else (0 <= v < 360)
    write = MBXML.write_latitude if which == "lat" else MBXML.write_longitude
    try:
        b = write(v)
    except REJECT as e:
        if in_range:
            acc.violation(f"{which}_in_range_value_rejected", case, repr(e))
        acc.case(nontrivial=True, calls=1, outcome="rejected:" + type(e).__name__)
        return
    except Exception as e:
        acc.violation(f"exception_write_{which}:" + exc_sig(e), case, repr(e))
        acc.case()
        return
    try:
        if not isinstance(b, (bytes, bytearray)) or len(b) != 4:
            acc.violation(f"{which}_not_4_octets", {**case, "written": repr(b)})
        x = xml_view()
        z = b"\x00\x00\x00\x00"
        pair = (b, z) if which == "lat" else (z, b)
        x["c2"].value = pair + (0.0,)
        x["p2"].value = pair
        x["p3"].value = pair + (0.0,)
        x["doc"].parts = [x["c2"], x["p2"], x["p3"]]
        text = x["doc"].as_xml()
        found = (RE_LAT if which == "lat" else RE_LON).findall(text)
        want = round(v, 6)
        if len(found) != 3:
            acc.violation("xml_view_shape", {**case, "found": found}, "expected one value per shape element")
        for name, t in zip(("circle-2d", "point-2d", "point-3d"), found):
            if float(t) != want:
                acc.violation(f"{which}_not_inverted_by_xml_view", {**case, "written": bytes(b).hex(), "element": name, "xml": t, "want": repr(want)},
                              "decoding formula of the XML view does not return the written coordinate (6 decimals)")
    except Exception as e:
        acc.violation(f"exception_xml_view_{which}:" + exc_sig(e), case, repr(e))
    acc.case(nontrivial=True, calls=2, outcome="accepted" if in_range else "accepted_outside_range",
             sample=case if k == 12345 else None)


def check_infotime(acc, y, mo, d, h, mi, s):
    case = {"kind": "infotime", "ymdhms": [y, mo, d, h, mi, s]}
    want = f"{y:04}{mo:02}{d:02}{h:02}{mi:02}{s:02}"
    try:
        forms = {
            "datetime": MBXML.write_infotime(datetime.datetime(y, mo, d, h, mi, s)),
            "str": MBXML.write_infotime(want),
            "int": MBXML.write_infotime(int(want)),
        }
        b = forms["datetime"]
        if len(b) != 5:
            acc.violation("infotime_not_5_octets", {**case, "written": bytes(b).hex()})
        for f, bb in forms.items():
            if bb != b:
                acc.violation("infotime_input_forms_disagree", {**case, "form": f, "octets": bytes(bb).hex(), "datetime_octets": bytes(b).hex()},
                              "datetime / str / int inputs for the same instant give different octets")
        x = xml_view()
        x["it"].value = b
        x["doc"].parts = [x["it"]]
        found = RE_IT.findall(x["doc"].as_xml())
        if found != [want]:
            acc.violation("infotime_not_inverted_by_xml_view", {**case, "written": bytes(b).hex(), "xml": found, "want": want},
                          "XML view of the written info-time is not the instant that was written")
    except Exception as e:
        acc.violation("exception_infotime:" + exc_sig(e), case, repr(e))
    acc.case(nontrivial=True, calls=4, outcome=(mo, h), sample=case if (y, mo, d, h, mi, s) == (2003, 6, 30, 7, 30, 0) else None)


# ---------------------------------------------------------------------------
# spaces
# ---------------------------------------------------------------------------
def uint_boundaries():
    vals = set()
    for k in range(5):
        for j in range(128):
            for dlt in (-1, 0, 1):
                vals.add(128 ** k * j + dlt)
    for k in range(33):
        for dlt in (-1, 0, 1):
            vals.add((1 << k) + dlt)
    for dlt in (0, 1, 127, 128, 129, 255, 256):
        vals.add(R.UINTVAR_MAX - dlt)
    for n in range(8):
        vals.add(env.det_int(f"c14-u-{n}", 32))
    return sorted(v for v in vals if 0 <= v <= R.UINTVAR_MAX)


def sint_boundaries():
    mags = set()
    for k in range(5):
        for j in range(128):
            for dlt in (-1, 0, 1):
                mags.add(128 ** k * j + dlt)
    for k in range(32):
        for dlt in (-1, 0, 1):
            mags.add((1 << k) + dlt)
    for k in range(1, 5):  # sign-bit boundaries 2^(7k-1) +- 1
        for dlt in (-2, -1, 0, 1, 2):
            mags.add((1 << (7 * k - 1)) + dlt)
    for dlt in (0, 1, 127, 128, 129):
        mags.add(R.SINTVAR_MAX - dlt)
    for n in range(8):
        mags.add(env.det_int(f"c14-s-{n}", 31))
    mags = sorted(m for m in mags if 0 <= m <= R.SINTVAR_MAX)
    out = []
    for m in mags:
        out.append((m, False))
        out.append((-m, m == 0))  # (0, True) = negative zero
    return out


# structured family: 5 septets s[0] (most significant) .. s[4]; `top` = largest value of s[0]
def struct_tasks(top):
    tasks = []
    for i in range(5):
        for j in range(i + 1, 5):
            others = [p for p in range(5) if p not in (i, j)]
            for pat in range(8):
                tasks.append((i, j, others, pat))
    return tasks


def struct_size(top):
    n = 0
    for (i, j, others, pat) in struct_tasks(top):
        n += (top + 1 if i == 0 else 128) * 128
    return n


def struct_values(task, top):
    """yield (value, is_canonical_generator): every 5-septet vector with s[i], s[j] free and the
    others at 0 / max; a vector reachable from several (pair, pattern) tasks is flagged as canonical
    only in the lexicographically first pair that generates it (non-trivial count = distinct values)"""
    i, j, others, pat = task
    s = [0] * 5
    for n, p in enumerate(others):
        s[p] = ((top if p == 0 else 0x7F) if (pat >> n) & 1 else 0)
    for a in range((top + 1) if i == 0 else 128):
        s[i] = a
        for b in range(128):
            s[j] = b
            v = 0
            for x in s:
                v = (v << 7) | x
            # positions holding a non-extreme septet
            ne = [p for p in (i, j) if s[p] not in (0, top if p == 0 else 0x7F)]
            if len(ne) == 2:
                canon = True
            elif len(ne) == 1:
                canon = (i, j) == ((0, 1) if ne[0] == 0 else (0, ne[0]))
            else:
                canon = (i, j) == (0, 1)
            yield v, canon


def float_int_alphabet(signed):
    top = R.SINTVAR_MAX if signed else R.UINTVAR_MAX
    vals = {0, 1, 2, 37, 62, 63, 64, 65, 100, 126, 127, 128, 129, 160, 255, 256, 257, 384, 8191, 8192, 8193,
            16383, 16384, 16385, 16512, (1 << 20) - 1, 1 << 20, (1 << 20) + 1, (1 << 21) - 1, 1 << 21, (1 << 21) + 128,
            (1 << 27) - 1, 1 << 27, (1 << 28) - 1, 1 << 28, (1 << 31) - 1, top, top - 1, top - 127, top - 255}
    if not signed:
        vals |= {1 << 31, (1 << 31) + 1}
    for n in range(4):
        vals.add(env.det_int(f"c14-f-{n}", 31 if signed else 32))
    return sorted(v for v in vals if 0 <= v <= top)


def p3_boundary_fractions():
    vals = set()
    for k in range(3):
        for j in (0, 1, 2, 63, 64, 65, 126, 127):
            for dlt in (-1, 0, 1):
                vals.add(128 ** k * j + dlt)
    for k in range(22):
        vals.add(1 << k)
        vals.add((1 << k) - 1)
    vals |= {128 ** 3 - 1, 128 ** 3 - 2, 128 ** 3 - 128, 128 ** 3 - 129, 128 ** 3 - 16384, 0x155555, 0x0AAAAA}
    return sorted(v for v in vals if 0 <= v < 128 ** 3)


def all_dates():
    d = datetime.date(2000, 1, 1)
    end = datetime.date(2099, 12, 31)
    out = []
    while d <= end:
        out.append((d.year, d.month, d.day))
        d += datetime.timedelta(days=1)
    return out


# ---------------------------------------------------------------------------
def run(only=None):
    rep = Report("C14")
    T = rep.thorough()
    nw = env.workers()
    rep.explanation = (
        "Complete enumeration of bounded value spaces on the real MBXML.write_*/read_* functions. state = one enumerated "
        "value (or (integer, fraction, precision, sign) tuple, coordinate, instant); transition = one real library call on it; "
        "every case is an implementation execution. The verdict does not depend on VERIF_SEED (the seed only adds a few "
        "extra integers to fixed alphabets and picks the filler in front of the read position)."
    )
    rep.assumptions = [
        "varint reference written from the format description in the mbxml.py docstrings (7 bits per octet, most significant "
        "septet first, bit 7 = continuation, signed: bit 6 of the first septet = sign) and self-tested against the example "
        "vectors quoted in the repository tests",
        "values i + d/128^p with i < 2^32, p <= 3 are exact doubles, so float round trips are compared with ==",
        "latitude/longitude/info-time: the XML view (MBXMLDocument.as_xml) is the decoding formula named by the statement; "
        "negative coordinates and longitude 360 are refused by the writer (OverflowError) = domain restriction, counted, not a violation",
    ]
    # -- reference self-test on the documented vectors -------------------------------------------
    vec_u = [("25", 0x25), ("8120", 0xA0), ("828F25", 0x87A5), ("8757", 0x3D7)]
    vec_s = [("65", -0x25), ("C120", -0xA0)]
    for hx, v in vec_u:
        if R.enc_uintvar(v) != bytes.fromhex(hx) or R.dec_uintvar(bytes.fromhex(hx), 0) != (v, len(hx) // 2):
            rep.internal_error(f"reference uintvar self-test failed on {hx}")
    for hx, v in vec_s:
        if R.enc_sintvar(v) != bytes.fromhex(hx) or R.dec_sintvar(bytes.fromhex(hx), 0)[:2] != (v, len(hx) // 2):
            rep.internal_error(f"reference sintvar self-test failed on {hx}")
    if R.enc_sfloat(0, 10, True, 1) != bytes.fromhex("400a") or R.enc_ufloat(160, 983, 2) != bytes.fromhex("81208757") \
            or R.enc_ufloat(160, 7 * 128, 2) != bytes.fromhex("812007") or R.enc_infotime(2003, 6, 30, 7, 30, 0) != bytes.fromhex("1F4DBC7780"):
        rep.internal_error("reference float / info-time self-test failed")

    def want(name):
        return only is None or name in only

    pfx = prefixes()
    dense = (1 << 21) if T else (1 << 16)

    # 1. unsigned dense
    if want("uintvar_dense"):
        s = rep.sub("uintvar_dense", f"all unsigned values 0..{dense} (inclusive); every value is distinct")
        s.declared = dense + 1

        def w(task):
            acc = Acc()
            for v in range(*task):
                check_uint(acc, v)
            return acc

        for acc in par.pmap(w, par.chunks(dense + 1, 128), nw):
            s.merge(acc)
        s.done()

    # 2. unsigned structured family over the whole 32-bit range
    if want("uintvar_structured"):
        s = rep.sub("uintvar_structured",
                    "all 5-septet vectors (top septet <= 0x0F) with two free septets (all values, all 10 position pairs) and the "
                    "other three at 0 / max (all 8 patterns); non-trivial = distinct values (a vector generated by several pairs "
                    "counts once)")
        s.declared = struct_size(0x0F)

        def w(task):
            acc = Acc()
            for v, canon in struct_values(task, 0x0F):
                n0 = acc.nontrivial
                check_uint(acc, v)
                if not canon:
                    acc.nontrivial = n0
            return acc

        for acc in par.pmap(w, struct_tasks(0x0F), nw):
            s.merge(acc)
        s.done()

    # 3. unsigned boundaries, read at two offsets
    if want("uintvar_boundaries"):
        vals = uint_boundaries()
        s = rep.sub("uintvar_boundaries",
                    "128^k*j (k<5, j<128) and 2^k (k<=32) with +-1 neighbours, the top of the range, 8 seed-chosen values; each "
                    "read at offset 0 and behind a 3-octet filler; non-trivial = distinct (value, offset)")
        s.declared = len(vals) * len(pfx)
        for v in vals:
            for p in pfx:
                check_uint(s, v, p)
        s.extra["values"] = len(vals)
        s.done()

    # 4. signed dense
    if want("sintvar_dense"):
        s = rep.sub("sintvar_dense", f"all signed values -{dense}..{dense} plus negative zero; every case distinct")
        s.declared = 2 * dense + 2

        def w(task):
            acc = Acc()
            for v in range(*task):
                check_sint(acc, v - dense)
            return acc

        for acc in par.pmap(w, par.chunks(2 * dense + 1, 128), nw):
            s.merge(acc)
        check_sint(s, 0, negzero=True)
        s.done()

    # 5. signed structured family
    if want("sintvar_structured"):
        s = rep.sub("sintvar_structured",
                    "magnitudes = all 5-septet vectors (top septet <= 0x07) with two free septets / other three at 0 or max, "
                    "both signs (negative zero through negative_zero=True); non-trivial = distinct (sign, magnitude)")
        s.declared = 2 * struct_size(0x07)

        def w(task):
            acc = Acc()
            for m, canon in struct_values(task, 0x07):
                check_sint(acc, m, nontrivial=canon)
                check_sint(acc, -m, negzero=(m == 0), nontrivial=canon)
            return acc

        for acc in par.pmap(w, struct_tasks(0x07), nw):
            s.merge(acc)
        s.done()

    # 6. signed boundaries
    if want("sintvar_boundaries"):
        vals = sint_boundaries()
        s = rep.sub("sintvar_boundaries",
                    "+-(128^k*j), +-2^k, sign-bit boundaries +-(2^(7k-1) + {-2..2}), +-(2^31-1) region, 8 seed-chosen magnitudes, "
                    "with +-1 neighbours; each read at offset 0 and behind a filler")
        s.declared = len(vals) * len(pfx)
        for v, nz in vals:
            for p in pfx:
                check_sint(s, v, negzero=nz, prefix=p)
        s.done()

    # 7/8. floats
    p3 = p3_boundary_fractions()
    for signed in (False, True):
        name = "sfloatvar" if signed else "ufloatvar"
        if not want(name):
            continue
        ints = float_int_alphabet(signed)
        signs = (False, True) if signed else (False,)
        s = rep.sub(name,
                    f"integer alphabet ({len(ints)} boundary values incl. 4 seed-chosen) x all 128 fractions (p=1), x {len(p3)} boundary "
                    f"fractions (p=3); all 16384 fractions (p=2) x " + ("the whole alphabet" if T else "12 septet/sign-boundary integer parts")
                    + (", both signs, negative fractions with zero integer part included (-0.0 itself excluded)" if signed else "")
                    + (f"; thorough: all 128^3 fractions for integer parts 0, 5, 300" if T else ""))
        # quick: the complete 16384-fraction sweep (p=2) runs on the integer parts that sit on a septet / sign-bit
        # boundary; thorough: on the whole alphabet
        top = R.SINTVAR_MAX if signed else R.UINTVAR_MAX
        ints_p2 = ints if T else [i for i in ints if i in (0, 1, 63, 64, 127, 128, 8192, 16383, 16384, 1 << 21, (1 << 31) - 1, top)]
        tasks = []
        for i in ints:
            for neg in signs:
                tasks.append((i, neg, 1, 0, 128))
                if i in ints_p2:
                    for lo, hi in par.chunks(16384, 4):
                        tasks.append((i, neg, 2, lo, hi))
                tasks.append((i, neg, 3, None, None))
        if T:
            for i in (0, 5, 300):
                for neg in signs:
                    for lo, hi in par.chunks(128 ** 3, 64):
                        tasks.append((i, neg, 3, lo, hi))

        def w(task, signed=signed):
            i, neg, p, lo, hi = task
            acc = Acc()
            ds = p3 if lo is None else range(lo, hi)
            for d in ds:
                if neg and i == 0 and d == 0:
                    continue
                check_float(acc, signed, i, d, p, neg)
            return acc

        decl = 0
        for (i, neg, p, lo, hi) in tasks:
            n = len(p3) if lo is None else hi - lo
            if neg and i == 0 and (lo is None or lo == 0):
                n -= 1
            decl += n
        s.declared = decl
        for acc in par.pmap(w, tasks, nw):
            s.merge(acc)
        s.done()

    # 9. latitude / longitude
    if want("lat_lon"):
        neg_step = 1 if T else 10
        win = 1000 if T else 100
        tasks = []
        # multiples of 10^-3 in the accepted range
        tasks += [("lat", 1000, lo, hi, 1) for lo, hi in par.chunks(90001, 32)]
        if T:
            tasks += [("lon", 1000, lo, hi, 1) for lo, hi in par.chunks(360000, 96)]
        else:
            tasks += [("lon", 100, lo, hi, 1) for lo, hi in par.chunks(36000, 32)]
        # negative range (domain restriction: writer refuses) and longitude 360
        tasks += [("lat", 1000, -90000, 0, neg_step), ("lon", 1000, -180000, 0, neg_step), ("lon", 1000, 360000, 360001, 1)]
        # multiples of 10^-6 around 0, 45, 90 (, 180, 360)
        for c in (0, 45, 90):
            tasks.append(("lat", 10 ** 6, c * 10 ** 6 - win, c * 10 ** 6 + win + 1, 1))
        for c in (0, 45, 90, 180, 360):
            tasks.append(("lon", 10 ** 6, c * 10 ** 6 - win, c * 10 ** 6 + win + 1, 1))
        s = rep.sub("lat_lon",
                    f"every multiple of 10^-3 degree in [0,90] (latitude) and of 10^-{3 if T else 2} in [0,360) (longitude); negative multiples of "
                    f"10^-{3 if T else 2} down to -90 / -180 and longitude 360 (expected: refused by the writer); every multiple of 10^-6 "
                    f"within +-{win}e-6 of 0, 45, 90 (, 180, 360); each through circle-2d, point-2d and point-3d of the XML view")
        s.declared = sum(len(range(lo, hi, st)) for (_, _, lo, hi, st) in tasks)

        def w(task):
            which, scale, lo, hi, st = task
            acc = Acc()
            for k in range(lo, hi, st):
                check_coord(acc, which, k, scale)
            return acc

        for acc in par.pmap(w, tasks, nw):
            s.merge(acc)
        s.extra["domain_restriction"] = {k: v for k, v in s.outcomes.items() if str(k).startswith("rejected")}
        s.done()

    # 10. info-time
    if want("infotime"):
        dates = all_dates()
        times3 = [(0, 0, 0), (12, 34, 56), (23, 59, 59)]
        dates3 = [(2000, 1, 1), (2024, 2, 29), (2099, 12, 31)] if T else [(2024, 2, 29)]
        s = rep.sub("infotime",
                    f"all 36525 dates 2000-01-01..2099-12-31 x 3 times + all 86400 times of day x {len(dates3)} date(s); each written from "
                    "datetime, 14-digit str and int and read through the XML view")
        s.declared = len(dates) * 3 + 86400 * len(dates3)
        tasks = [("d", lo, hi) for lo, hi in par.chunks(len(dates), 48)] + [("t", lo, hi) for lo, hi in par.chunks(86400, 96)]

        def w(task):
            k, lo, hi = task
            acc = Acc()
            if k == "d":
                for (y, mo, d) in dates[lo:hi]:
                    for (h, mi, sec) in times3:
                        check_infotime(acc, y, mo, d, h, mi, sec)
            else:
                for t in range(lo, hi):
                    for (y, mo, d) in dates3:
                        check_infotime(acc, y, mo, d, t // 3600, (t // 60) % 60, t % 60)
            return acc

        for acc in par.pmap(w, tasks, nw):
            s.merge(acc)
        s.done()

    # 10b. the same obligation when the process runs in another time zone (info-time is a wall-clock reading, not an instant)
    if want("infotime_other_timezones"):
        import os as _os2
        import time as _time2

        dates = all_dates()
        zones = ["Pacific/Kiritimati", "America/Adak", "Europe/Prague"]
        times_z = [(0, 0, 0), (2, 30, 0), (23, 59, 59)]
        s = rep.sub("infotime_other_timezones",
                    f"all 36525 dates x 3 times of day (incl. 02:30:00, which does not exist on a spring-forward day) with the process time zone "
                    f"set to each of {zones} (TZ + tzset in the forked worker): written octets and XML view as under UTC")
        s.declared = len(dates) * len(times_z) * len(zones)
        tasks = [(z, lo, hi) for z in zones for lo, hi in par.chunks(len(dates), 16)]

        def wz(task):
            z, lo, hi = task
            _os2.environ["TZ"] = z
            _time2.tzset()
            acc = Acc()
            for (y, mo, d) in dates[lo:hi]:
                for (h, mi, sec) in times_z:
                    check_infotime(acc, y, mo, d, h, mi, sec)
            # the worker is a forked child that ends here: the zone does not leak into the rest of the run
            return acc

        for acc in par.pmap(wz, tasks, nw):
            s.merge(acc)
        s.done()

    if want("call_histories"):
        # histories of two calls: a writer / reader result must not depend on which other number was written or read before
        # (memoised writers keyed without the precision, shared scratch buffers, ...)
        import os as _os
        import pickle as _pickle

        ops = []
        for v in (0, 1, 63, 64, 127, 128, 300, 16383, 16384, 2 ** 21, 2 ** 28 - 1):
            ops.append((f"write_uintvar({v})", lambda v=v: MBXML.write_uintvar(v)))
            ops.append((f"write_sintvar({v})", lambda v=v: MBXML.write_sintvar(v)))
            ops.append((f"write_sintvar({-v})", lambda v=v: MBXML.write_sintvar(-v)))
        for v in (0.5, 1 / 128, 1 / 16384, 12.25, 64.5, 127.0078125, 300.0):
            for p_ in (1, 2, 3):
                ops.append((f"write_ufloatvar({v},{p_})", lambda v=v, p_=p_: MBXML.write_ufloatvar(v, p_)))
                ops.append((f"write_sfloatvar({-v},{p_})", lambda v=v, p_=p_: MBXML.write_sfloatvar(-v, p_)))
                ops.append((f"write_sfloatvar({v},{p_})", lambda v=v, p_=p_: MBXML.write_sfloatvar(v, p_)))
        for v in (0.0, 12.345, 45.0, 89.999999, 90.0):
            ops.append((f"write_latitude({v})", lambda v=v: MBXML.write_latitude(v)))
            ops.append((f"write_longitude({v})", lambda v=v: MBXML.write_longitude(v)))
        for hx in ("00", "7f", "8100", "8200", "ff7f", "c07f", "817f"):
            ops.append((f"read_uintvar({hx})", lambda hx=hx: MBXML.read_uintvar(bytes.fromhex(hx) + b"\xff", 0)))
            ops.append((f"read_sintvar({hx})", lambda hx=hx: MBXML.read_sintvar(bytes.fromhex(hx) + b"\xff", 0)))
            ops.append((f"read_ufloatvar({hx}40)", lambda hx=hx: MBXML.read_ufloatvar(bytes.fromhex(hx) + b"\x40\xff", 0)))

        def run_op(i):
            try:
                return repr(ops[i][1]())
            except Exception as e:  # noqa: BLE001
                return "raises:" + type(e).__name__

        def in_child(fn):
            r, w = _os.pipe()
            pid = _os.fork()
            if pid == 0:
                try:
                    _os.close(r)
                    data = _pickle.dumps(fn())
                except BaseException as e:  # noqa: BLE001
                    data = _pickle.dumps("CHILD-CRASH:" + repr(e))
                with _os.fdopen(w, "wb") as f:
                    f.write(data)
                _os._exit(0)
            _os.close(w)
            with _os.fdopen(r, "rb") as f:
                data = f.read()
            _os.waitpid(pid, 0)
            return _pickle.loads(data)

        s = rep.sub("call_histories", f"{len(ops)} writer / reader calls (same value at different precisions, values sharing septets, reads of shared prefixes): "
                                      "each alone in a forked child = reference; then for every first call i (own forked child) every call j after it must return its reference")
        alone = [in_child(lambda i=i: run_op(i)) for i in range(len(ops))]

        def after(i):
            out = [run_op(i)]
            out += [run_op(j) for j in range(len(ops))]
            out += [run_op(j) for j in range(len(ops) - 1, -1, -1)]
            return out

        for i, res in enumerate(par.pmap(lambda i: in_child(lambda: after(i)), range(len(ops)), nw)):
            if isinstance(res, str):
                s.violation("child_crashed", {"first": ops[i][0], "detail": res})
                continue
            seq = [i] + list(range(len(ops))) + list(range(len(ops) - 1, -1, -1))
            for pos, (j, got) in enumerate(zip(seq, res)):
                if got != alone[j]:
                    s.violation("result_depends_on_earlier_calls", {"first": ops[i][0], "call": ops[j][0], "alone": alone[j], "after_history": got, "position": pos},
                                "a writer / reader returns another result after other numbers were written / read in the same process")
                    break
                s.case(nontrivial=True, calls=1, outcome=alone[j][:12], sample={"first": ops[i][0], "then": ops[j][0]} if (i == 3 and pos == 5) else None)
        s.done()

    rep.bounds = {
        "unsigned": f"dense 0..{dense}; structured two-free-septet family over 0..2^32-1 ({struct_size(0x0F)} vectors); boundaries",
        "signed": f"dense +-{dense}; structured family over magnitudes 0..2^31-1, both signs; boundaries",
        "floats": "precision 1, 2: all fractions x integer alphabet; precision 3: boundary fractions" + (" + all 128^3 for 3 integer parts" if T else ""),
        "not_covered": "32-bit values with three or more septets that are neither 0 nor max simultaneously (covered only by the dense sweep "
                       "below 2^21 and the seed-chosen values); float integer parts outside the boundary alphabet; coordinates that are "
                       "not multiples of 10^-3 outside the +-window around 0/45/90/180/360; years outside 2000..2099",
    }
    return rep.finish()


def replay(doc):
    acc = Acc()
    for c in doc.get("cases", []):
        k = c.get("kind")
        if k == "uintvar":
            check_uint(acc, c["value"], bytes.fromhex(c.get("prefix", "")))
        elif k == "sintvar":
            check_sint(acc, c["value"], c.get("negative_zero", False), bytes.fromhex(c.get("prefix", "")))
        elif k in ("ufloat", "sfloat"):
            check_float(acc, k == "sfloat", c["integer"], c["fraction_numerator"], c["precision"], c.get("negative", False))
        elif k in ("lat", "lon"):
            check_coord(acc, k, c["k"], c["scale"])
        elif k == "infotime":
            check_infotime(acc, *c["ymdhms"])
        else:
            print("cannot replay case", c)
    for sig, (cnt, cases, what) in acc.viol.items():
        print(f"still fails: {sig} x{cnt} {what}\n   {cases[0]}")
    if not acc.viol:
        print(f"replayed {acc.n} case(s): no violation")
    return 1 if acc.viol else 0

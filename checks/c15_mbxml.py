"""C15 -- LRRP/MBXML documents re-serialise to the bytes they were parsed from.

Driver: canonical byte strings come from the harness's own MBXML writer
(mc/oracle/mbxml_ref.py: reference varints, one-septet fractions, LRRP token tables held
as data).  Every buffer is parsed with the real MBXML.from_bytes, compared token by token
with what the harness wrote, serialised with the real MBXML.as_bytes and compared octet by
octet with the input.  Nothing is sampled: each sub-check enumerates a stated finite set of
(document id, token sequence, value, constant-table variant, documents per buffer).

One defect, one property: a re-serialisation that differs only because a number in the
document hits a defect of the variable-length writers (C14) is verified as such at run time
(the library primitive is called on the value and compared with the reference octets) and
then counted under `attributed_to_C14`, not reported here.
"""
from mc import env  # noqa: F401
from mc import par
from mc.report import Report, Acc, exc_sig
from mc.hist import scramble, scribble


def scramble_docs(docs):
    """rewrite what a parse handed out -- the parsed *content* (parts, their values and attribute lists); the token definition
    tables a document object points to are shared class-level data by design and are left alone"""
    for d in docs:
        for part in list(getattr(d, "parts", [])):
            scramble(part)
        scribble(getattr(d, "parts", None))

from mc.oracle import mbxml_ref as R

import itertools
import os
import pickle
import signal
import contextlib
import io

from okdmr.dmrlib.motorola.mbxml import (
    MBXML,
    MBXMLDocument,
    MBXMLDocumentIdentifier,
    MBXMLToken,
    MBXMLTokenType,
)
from okdmr.dmrlib.motorola.lrrp import LRRP

NON_NCDT = [d for d in sorted(R.DOC_IDS) if not R.DOC_IDS[d][1]]
NCDT = [d for d in sorted(R.DOC_IDS) if R.DOC_IDS[d][1]]
BASE_CDT = bytes.fromhex("054150434f")  # the inline table of the repository's own example (test_lrrp_cdt)


class ParseTimeout(Exception):
    pass


def _alarm(signum, frame):
    raise ParseTimeout()


# ---------------------------------------------------------------------------
# attribution of number-writer defects to C14 (verified on the primitive itself)
# ---------------------------------------------------------------------------
_PRIM = {}


def prim_ok(kind, value):
    """does the library's primitive writer produce the reference octets for this value?"""
    key = (kind, value)
    r = _PRIM.get(key)
    if r is None:
        try:
            if kind == "u":
                r = MBXML.write_uintvar(value) == R.enc_uintvar(value)
            elif kind == "uf":
                r = MBXML.write_ufloatvar(R.fval(value[0], value[1], 1), 1) == R.enc_ufloat(value[0], value[1], 1)
            elif value[0] == 0 and value[1] == 0 and value[2]:
                # negative zero (octets 40 00): C14 is a statement about values and -0.0 == 0.0, so the octets are this property's business
                r = True
            else:
                r = MBXML.write_sfloatvar(R.fval(value[0], value[1], 1, value[2]), 1) == R.enc_sfloat(value[0], value[1], value[2], 1)
        except Exception:
            r = False
        _PRIM[key] = r
    return r


def numbers_of(doc_spec, body_len):
    """every (primitive kind, value) the library has to write for this document"""
    doc_id, tokens, cdt = doc_spec
    table = R.table_for(doc_id)
    out = [("u", doc_id), ("u", body_len)]
    if isinstance(cdt, (bytes, bytearray)):
        out.append(("u", len(cdt)))
    for tid, value, attrs in tokens:
        name, kind, flen, attr_ids = table[tid]
        for a in attrs:
            out.append(("u", a))
        if kind == R.OPAQUE and flen is None:
            out.append(("u", len(value)))
        elif kind == R.UINTVAR:
            out.append(("u", value))
        elif kind == R.UFLOAT:
            out.append(("uf", value))
        elif kind == R.SFLOAT:
            out.append(("sf", value))
        elif kind == R.CIRCLE2D:
            out.append(("uf", value[2]))
        elif kind == R.POINT3D:
            out.append(("sf", value[2]))
    return out


def predicates(docs):
    """structural facts about a harness buffer that name the *class* of a failure"""
    p = set()
    for doc_id, tokens, cdt in docs:
        table = R.table_for(doc_id)
        for tid, value, attrs in tokens:
            name, kind, flen, attr_ids = table[tid]
            if kind == R.OPAQUE and flen is None and len(value) == 0:
                p.add("empty_variable_length_opaque")
            if kind == R.OPAQUE and flen == 0 and attrs:
                p.add("zero_length_opaque_with_value_attribute")
    return p


# ---------------------------------------------------------------------------
# evaluator
# ---------------------------------------------------------------------------
def norm(v):
    """container types are not part of the contract: list == tuple, bytearray == bytes"""
    if isinstance(v, (list, tuple)):
        return tuple(norm(x) for x in v)
    if isinstance(v, (bytearray, memoryview)):
        return bytes(v)
    return v


def compare_doc(got, spec, prev_table):
    """-> list of difference strings between a parsed MBXMLDocument and the harness document"""
    doc_id, tokens, cdt = spec
    table = R.table_for(doc_id)
    diffs = []
    if got.id.value[0] != doc_id:
        diffs.append(f"document id {got.id.value[0]:#x} != {doc_id:#x}")
    if len(got.parts) != len(tokens):
        diffs.append(f"{len(got.parts)} parts parsed, {len(tokens)} tokens written")
        return diffs
    for n, (part, (tid, value, attrs)) in enumerate(zip(got.parts, tokens)):
        name, kind, flen, attr_ids = table[tid]
        if part.token_id != tid:
            diffs.append(f"part {n}: token id {part.token_id:#x} != {tid:#x}")
            continue
        if kind != R.NONE and not (kind == R.OPAQUE and flen == 0):
            want = R.expected_value(kind, value)
            if norm(part.value) != want:
                diffs.append(f"part {n} ({tid:#x}): value {part.value!r} != {want!r}")
        carried = [a.value for a in part.attributes if isinstance(a, MBXMLToken)]
        if carried != list(attrs):
            diffs.append(f"part {n} ({tid:#x}): attribute values {carried!r} != {list(attrs)!r}")
    if isinstance(cdt, (bytes, bytearray)) and got.constants_table != cdt:
        diffs.append("inline constant table differs")
    return diffs


def run_buffer(docs):
    """parse + re-serialise a harness buffer. -> (kind, detail) with kind in
    ok | exception_parse:<sig> | timeout | document_count | parts | inherit | exception_serialise:<sig> | bytes"""
    x = b"".join(R.enc_document(*d) for d in docs)
    old = signal.signal(signal.SIGALRM, _alarm)
    signal.setitimer(signal.ITIMER_REAL, 2.0)
    try:
        try:
            # history probe: a first parse whose result the caller then rewrites in place must not influence the next parse of the
            # same bytes (parse results cached / shared by the library)
            try:
                scramble_docs(MBXML.from_bytes(x))
            except Exception:  # noqa: BLE001
                pass
            parsed = MBXML.from_bytes(x)
        finally:
            signal.setitimer(signal.ITIMER_REAL, 0)
            signal.signal(signal.SIGALRM, old)
    except ParseTimeout:
        return x, "parse_does_not_terminate_within_2s", ""
    except Exception as e:
        return x, "exception_parse:" + exc_sig(e), repr(e)
    if not isinstance(parsed, list) or len(parsed) != len(docs):
        return x, "document_count_differs", f"{len(parsed) if isinstance(parsed, list) else parsed!r} documents parsed, {len(docs)} written"
    prev_table = None
    for n, (got, spec) in enumerate(zip(parsed, docs)):
        diffs = compare_doc(got, spec, prev_table)
        if diffs:
            return x, "parsed_parts_differ_from_written_tokens", f"document {n}: " + "; ".join(diffs[:3])
        if spec[2] == R.INHERIT:
            if got.constants_table != prev_table:
                return x, "inherited_table_not_taken_from_previous_document", f"document {n}: table {bytes(got.constants_table).hex()} != {prev_table.hex() if prev_table is not None else None}"
        elif isinstance(spec[2], (bytes, bytearray)):
            prev_table = spec[2]
        else:
            prev_table = got.constants_table  # default table of an NCDT id; nothing inherits from it in our buffers
    try:
        out = b"".join(MBXML.as_bytes(d) for d in parsed)
    except Exception as e:
        return x, "exception_serialise:" + exc_sig(e), repr(e)
    if out != x:
        return x, "reserialised_bytes_differ", f"got {out.hex()}"
    # the read-only views of a parsed document (XML view, attribute / value getters, repr, str) between two serialisations
    with contextlib.redirect_stdout(io.StringIO()):
        for d in parsed:
            for view in (d.as_xml, lambda d=d: repr(d), lambda d=d: str(d)):
                try:
                    view()
                except Exception:  # noqa: BLE001  (a view that cannot render some value is not this property's business)
                    pass
            for part in d.parts:
                for view in (lambda: part.get_attributes(d), lambda: part.get_value(d), lambda: repr(part), lambda: str(part)):
                    try:
                        view()
                    except Exception:  # noqa: BLE001
                        pass
    try:
        out2 = b"".join(MBXML.as_bytes(d) for d in parsed)
    except Exception as e:
        return x, "exception_serialise_after_read_only_views:" + exc_sig(e), repr(e)
    if out2 != x:
        return x, "reserialised_bytes_differ_after_read_only_views", f"got {out2.hex()}"
    return x, "ok", ""


def c14_attributable(docs):
    """True iff some number in the buffer is written wrongly by the library primitive itself"""
    for d in docs:
        enc = R.enc_document(*d)
        _, i = R.dec_uintvar(enc, 0)
        blen, i = R.dec_uintvar(enc, i)
        for kind, value in numbers_of(d, blen):
            if not prim_ok(kind, value):
                return True
    return False


def alone(spec, prev_table):
    """the same document as a single-document buffer (an inherited table is made inline)"""
    doc_id, tokens, cdt = spec
    if cdt == R.INHERIT and prev_table is not None:
        cdt = prev_table  # (nothing transmitted to inherit - the default table: the marker stays)
    return (doc_id, tokens, cdt)


def check_buffer(acc, docs, nontrivial=True, sample=False, label=None):
    case = None
    x, kind, detail = run_buffer(docs)
    outcome = "ok"
    if kind != "ok":
        case = {"kind": "buffer", "hex": x.hex(), "docs": [list(d) for d in docs], "detail": detail}
        if (kind == "reserialised_bytes_differ" or kind.startswith("exception_serialise")) and c14_attributable(docs):
            # a number inside the document is written wrongly by the primitive writer itself (C14's subject): the document does not
            # re-serialise to its bytes all the same, so it is reported here too, under its own signature
            acc.violation(kind + "[a_number_is_written_wrongly_by_the_primitive_writer]", case, detail)
            outcome = "number_writer"
        else:
            preds = sorted(predicates(docs))
            if len(docs) > 1:
                # does every document pass on its own?
                ok_alone = True
                prev = None
                inline = []
                for d in docs:
                    a = alone(d, prev)
                    inline.append(a)
                    if isinstance(d[2], (bytes, bytearray)):
                        prev = d[2]
                    k1 = run_buffer([a])[1]
                    if k1 != "ok" and not ((k1 == "reserialised_bytes_differ" or k1.startswith("exception_serialise")) and c14_attributable([a])):
                        ok_alone = False
                preds.append("each_document_passes_alone" if ok_alone else "some_document_fails_alone")
                if any(d[2] == R.INHERIT for d in docs):
                    # the same buffer with every inherited table written inline: does only the inherit marker matter?
                    k2 = run_buffer(inline)[1]
                    passes = k2 == "ok" or ((k2 == "reserialised_bytes_differ" or k2.startswith("exception_serialise")) and c14_attributable(inline))
                    preds.append("passes_with_tables_inline" if passes else "fails_also_with_tables_inline")
            sig = kind + ("[" + "+".join(preds) + "]" if preds else "")
            acc.violation(sig, case, detail)
            outcome = kind.split(":")[0]
    acc.case(nontrivial=nontrivial, calls=1 + len(docs), outcome=(label, outcome) if label else outcome,
             sample={"kind": "buffer", "hex": x.hex(), "docs": [list(d) for d in docs]} if sample else None)
    return kind


# ---------------------------------------------------------------------------
# value alphabets
# ---------------------------------------------------------------------------
ID4 = bytes.fromhex("2468ACE0")
LAT0 = bytes.fromhex("118ECD8D")
LON0 = bytes.fromhex("118AD47B")
IT0 = bytes.fromhex("1F4DBC7780")


def base_value(kind, flen):
    return {
        R.OPAQUE: ID4 if flen is None else (b"\xa5" * flen),
        R.UINTVAR: 60,
        R.UFLOAT: (2, 64),
        R.SFLOAT: (3, 32, True),
        R.UINT8: 7,
        R.NONE: None,
        R.INFOTIME: IT0,
        R.CIRCLE2D: (LAT0, LON0, (0, 99)),
        R.POINT2D: (LAT0, LON0),
        R.POINT3D: (LAT0, LON0, (0, 10, True)),
    }[kind]


def base_token(doc_id, tid):
    name, kind, flen, attr_ids = R.table_for(doc_id)[tid]
    attrs = [5 for a in attr_ids if R.ATTRIBUTES[a][1]]
    return (tid, base_value(kind, flen), attrs)


def uint_alphabet():
    vals = set()
    for k in range(5):
        for j in (0, 1, 2, 63, 64, 65, 126, 127):
            for dlt in (-1, 0, 1):
                vals.add(128 ** k * j + dlt)
    for k in range(33):
        for dlt in (-1, 0, 1):
            vals.add((1 << k) + dlt)
    vals |= {R.UINTVAR_MAX, R.UINTVAR_MAX - 1, R.UINTVAR_MAX - 127, 60, 300, 0x87A5}
    for n in range(4):
        vals.add(env.det_int(f"c15-u-{n}", 32))
    return sorted(v for v in vals if 0 <= v <= R.UINTVAR_MAX)


def float_ints(signed):
    top = R.SINTVAR_MAX if signed else R.UINTVAR_MAX
    vals = {0, 1, 2, 37, 62, 63, 64, 65, 100, 126, 127, 128, 129, 160, 255, 256, 8191, 8192, 8193, 16383, 16384, 16385,
            (1 << 21) - 1, 1 << 21, (1 << 28) - 1, 1 << 28, (1 << 31) - 1, top, top - 1}
    vals.add(env.det_int("c15-f", 31))
    return sorted(v for v in vals if 0 <= v <= top)


def opaque_alphabet():
    out = [b""]
    for n in (1, 4, 127, 128, 200):
        out += [b"\x00" * n, b"\xff" * n, env.det_bytes(f"c15-op-{n}", n)]
    return out


COORDS = [b"\x00\x00\x00\x00", b"\x00\x00\x00\x01", b"\x7f\xff\xff\xff", b"\x80\x00\x00\x00", b"\xff\xff\xff\xff"]


def infotime_alphabet():
    out = [IT0, R.enc_infotime(2000, 1, 1, 0, 0, 0), R.enc_infotime(2099, 12, 31, 23, 59, 59), R.enc_infotime(2024, 2, 29, 12, 34, 56),
           b"\x00" * 5, b"\xff" * 5, b"\x80\x00\x00\x00\x00", b"\x00\x00\x00\x00\x80", b"\x22\x23\x37\x39\x00"]
    out += [env.det_bytes(f"c15-it-{n}", 5) for n in range(3)]
    return out


_ALPHA = {}


def value_alphabet(doc_id, tid):
    """complete list of harness tokens (tid, value, attrs) for one token id (cached per family/token)"""
    key = (R.DOC_IDS[doc_id][2] if tid not in R.COMMON else "common", tid)
    if key not in _ALPHA:
        _ALPHA[key] = _value_alphabet(doc_id, tid)
    return _ALPHA[key]


def _value_alphabet(doc_id, tid):
    name, kind, flen, attr_ids = R.table_for(doc_id)[tid]
    carried = [a for a in attr_ids if R.ATTRIBUTES[a][1]]
    U = uint_alphabet()
    toks = []
    if kind == R.OPAQUE:
        if flen is None:
            vals = opaque_alphabet()
        elif flen == 0:
            vals = [b""]
        else:
            vals = [bytes([b]) * flen for b in range(256)]
        if carried:
            # one at a time: all attribute values with the base payload, all payloads with the base attribute value
            for a in U:
                toks.append((tid, vals[1] if len(vals) > 1 else vals[0], [a]))
            for v in vals:
                toks.append((tid, v, [5]))
        else:
            toks = [(tid, v, []) for v in vals]
    elif kind == R.UINTVAR:
        toks = [(tid, v, []) for v in U]
    elif kind == R.UFLOAT:
        toks = [(tid, (i, d), []) for i in float_ints(False) for d in range(128)]
    elif kind == R.SFLOAT:
        toks = [(tid, (i, d, neg), []) for i in float_ints(True) for d in range(128) for neg in (False, True)]  # incl. negative zero, octets 40 00
    elif kind == R.UINT8:
        toks = [(tid, v, []) for v in range(256)]
    elif kind == R.NONE:
        toks = [(tid, None, [])]
    elif kind == R.INFOTIME:
        toks = [(tid, v, []) for v in infotime_alphabet()]
    elif kind == R.CIRCLE2D:
        rad = [(i, d) for i in (0, 1, 127, 129, 300) for d in (0, 1, 64, 127)]
        toks = [(tid, (la, lo, r), []) for la in COORDS for lo in COORDS for r in rad]
    elif kind == R.POINT2D:
        toks = [(tid, (la, lo), []) for la in COORDS for lo in COORDS]
    elif kind == R.POINT3D:
        alt = [(i, d, neg) for i in (0, 1, 63, 65, 300) for d in (0, 1, 127) for neg in (False, True) if not (neg and i == 0 and d == 0)]
        toks = [(tid, (la, lo, a), []) for la in COORDS for lo in COORDS for a in alt]
    # de-duplicate, keep order
    seen = set()
    out = []
    for t in toks:
        k = repr(t)
        if k not in seen:
            seen.add(k)
            out.append(t)
    return out


BACKGROUND = {
    "request": [0x22, 0x34, 0x31, 0x50, 0x62, 0x56, 0x61, 0x51, 0x42, 0x53],
    "answer": [0x22, 0x34, 0x51, 0x6C, 0x56, 0x38, 0x65, 0x66, 0x70, 0x39],
    "common": [0x22, 0x23, 0x22, 0x23, 0x22, 0x23, 0x22, 0x23, 0x22, 0x23],
}


def cdt_for(doc_id):
    return None if R.DOC_IDS[doc_id][1] else BASE_CDT


# ---------------------------------------------------------------------------
# table cross-check (transcription vs library, once per run)
# ---------------------------------------------------------------------------
def crosscheck_tables(s):
    """differences that change what harness octets mean are violations; extensions are notes"""
    notes = {"library_tokens_not_in_transcription": [], "unimplemented_in_transcription_kind_changed": [], "library_document_ids_not_in_transcription": []}
    by_name = {m.name: m for m in MBXMLDocumentIdentifier}
    for m in MBXMLDocumentIdentifier:
        if m.name.startswith("LRRP") and m.value[0] not in R.DOC_IDS:
            notes["library_document_ids_not_in_transcription"].append(m.name)
    for doc_id, (name, ncdt, family) in sorted(R.DOC_IDS.items()):
        case = {"kind": "table", "document_id": doc_id}
        m = by_name.get(name)
        if m is None or m.value[0] != doc_id or bool(m.value[1]) != ncdt:
            s.violation("document_id_table_differs_from_transcription", {**case, "library": repr(m.value if m else None)},
                        "an LRRP document identifier has another id / NCDT flag than the transcribed LRRP table")
            s.case(nontrivial=False)
            continue
        try:
            cfg = LRRP.get_configuration(m)
            lib = cfg[MBXMLTokenType.ELEMENT_TOKEN]
            lib_attr = cfg[MBXMLTokenType.ATTRIBUTE_TOKEN]
        except Exception as e:
            s.violation("exception_get_configuration:" + exc_sig(e), case, repr(e))
            s.case(nontrivial=False)
            continue
        mine = R.table_for(doc_id)
        for tid, (tname, kind, flen, attr_ids) in sorted(mine.items()):
            t = lib.get(tid)
            if kind not in R.IMPLEMENTED_KINDS:
                if t is not None and t.token_type.name != kind:
                    notes["unimplemented_in_transcription_kind_changed"].append(f"{doc_id:#x}/{tid:#x}")
                continue
            ok = (
                t is not None
                and t.token_type.name == kind
                and (t.length or None) == (flen or None)
                and (t.length == 0) == (flen == 0)
                and [a for a in t.attributes if isinstance(a, int)] == attr_ids
                and len(t.attributes) == len(attr_ids)
            )
            if not ok:
                s.violation("element_token_table_differs_from_transcription",
                            {**case, "token": tid, "library": None if t is None else [t.token_type.name, t.length, [a if isinstance(a, int) else repr(a) for a in t.attributes]],
                             "transcription": [kind, flen, attr_ids]},
                            "an implemented element token has another value layout in the library than in the transcribed LRRP table: "
                            "canonical octets for it no longer mean the same token")
            for a in attr_ids:
                la = lib_attr.get(a)
                carries = R.ATTRIBUTES[a][1]
                if la is None or (la.value is None) != carries:
                    s.violation("attribute_token_table_differs_from_transcription", {**case, "token": tid, "attribute": a})
        for tid in sorted(lib):
            if tid not in mine:
                notes["library_tokens_not_in_transcription"].append(f"{doc_id:#x}/{tid:#x}")
        s.case(nontrivial=True, calls=1, outcome=family, sample=case if doc_id == 5 else None)
    s.extra["notes"] = {k: sorted(set(v)) for k, v in notes.items()}


# ---------------------------------------------------------------------------
# token lookup API (v)
# ---------------------------------------------------------------------------
LOOKUP_VALUES = {
    R.UINTVAR: [0, 60, 127, 300, R.UINTVAR_MAX],
    R.UFLOAT: [0.0, 0.5, 37.5, 300.25],
    R.SFLOAT: [0.0, 0.5, -0.5, -37.5, 300.25, -0.0078125],
    R.UINT8: [0, 7, 255],
    R.NONE: [None],
    R.INFOTIME: [IT0, b"\xff" * 5],
    R.CIRCLE2D: [(LAT0, LON0, 0.7734375), (COORDS[3], COORDS[4], 300.5)],
    R.POINT2D: [(LAT0, LON0), (COORDS[0], COORDS[4])],
    R.POINT3D: [(LAT0, LON0, -0.078125), (COORDS[2], COORDS[1], 10.25), (LAT0, LON0, 0.0)],
}


def lookup_cases():
    """(is_request, document id, lookup key, value, attributes dict) for every implemented token of both
    families: key by id and by name; every value-carrying attribute supplied (4 values), every implied
    attribute either left out or supplied with its implied value; attribute keys all by id or all by name"""
    cases = []
    # NCDT ids and their CDT twins (a document with a constant-table id always carries a CDT_LEN octet, also when assembled by hand)
    for is_request, doc_id in ((True, 0x05), (False, 0x07), (True, 0x04), (False, 0x06)):
        table = R.implemented_tokens(doc_id)
        for tid in sorted(table):
            name, kind, flen, attr_ids = table[tid]
            if kind == R.OPAQUE:
                vals = [b""] if flen == 0 else ([b"\xa5" * flen] if flen else [ID4, b"\x01", bytes(range(1, 101))])
            else:
                vals = LOOKUP_VALUES[kind]
            options = []
            for a in attr_ids:
                aname, carries, implied = R.ATTRIBUTES[a]
                options.append([(a, aname, v) for v in (0, 5, 127, 300)] if carries else [None, (a, aname, implied)])
            for key in (tid, name):
                for v in vals:
                    for combo in itertools.product(*options) if options else [()]:
                        chosen = [c for c in combo if c is not None]
                        forms = ("id", "name") if chosen else ("id",)
                        for form in forms:
                            attrs = {(c[0] if form == "id" else c[1]): c[2] for c in chosen}
                            cases.append((is_request, doc_id, key, v, attrs))
    return cases


def fits(kind, flen, value):
    """is `value` a value of this token kind (a by-name lookup may return another variant of the element)"""
    if kind == R.OPAQUE:
        return isinstance(value, bytes) and (flen is None or len(value) == flen)
    if kind in (R.UINTVAR, R.UINT8):
        return isinstance(value, int) and not isinstance(value, bool) and (kind == R.UINTVAR or value < 256)
    if kind == R.UFLOAT:
        return isinstance(value, float) and value >= 0
    if kind == R.SFLOAT:
        return isinstance(value, float)
    if kind == R.NONE:
        return value is None
    if kind == R.INFOTIME:
        return isinstance(value, bytes) and len(value) == 5
    if kind in (R.CIRCLE2D, R.POINT3D):
        return isinstance(value, tuple) and len(value) == 3
    if kind == R.POINT2D:
        return isinstance(value, tuple) and len(value) == 2
    return False


def lookup_stage1(case):
    """get_token + as_bytes -> ("token", tid, carried attribute values, octets) | (outcome, detail)"""
    is_request, doc_id, key, value, attrs = case
    member = [m for m in MBXMLDocumentIdentifier if m.value[0] == doc_id][0]
    try:
        doc = LRRP(document_id=member)
        given = dict(attrs)
        tok = doc.get_token(name=key, value=value, attributes=given, is_request=is_request)
        if given != attrs:
            return "lookup_consumed_the_callers_attributes_dict", f"{attrs!r} -> {given!r}"
    except ModuleNotFoundError:
        return "lookup_refused", ""
    except Exception as e:
        return "exception_lookup:" + exc_sig(e), repr(e)
    try:
        tid = tok.token_id
        entry = R.table_for(doc_id).get(tid)
        if entry is None:
            return "lookup_returned_token_outside_transcription", hex(tid)
        if entry[1] not in R.IMPLEMENTED_KINDS:
            return "lookup_returned_unimplemented_kind", hex(tid)
        if not fits(entry[1], entry[2], value):
            return "lookup_returned_other_variant_of_the_name", hex(tid)
        missing = [a for a in entry[3] if R.ATTRIBUTES[a][1] and a not in attrs and R.ATTRIBUTES[a][0] not in attrs]
        if missing:
            # a by-name lookup returned a variant whose value-carrying attribute the caller did not supply: the
            # token is incomplete (its octets lack the attribute value), not a document the tables allow
            return "lookup_returned_token_missing_value_attribute", hex(tid)
        want_attrs = [a.value for a in tok.attributes if isinstance(a, MBXMLToken)]
        doc.parts.append(tok)
        b = MBXML.as_bytes(doc)
    except Exception as e:
        return "exception_serialise:" + exc_sig(e), repr(e)
    return "token", tid, want_attrs, bytes(b)


def lookup_stage2(arg):
    """from_bytes + comparison + second as_bytes on the octets of stage 1"""
    doc_id, value, tid, want_attrs, b = arg
    try:
        back = MBXML.from_bytes(b)
    except Exception as e:
        return "exception_parse_own_bytes:" + exc_sig(e), f"{b.hex()} {e!r}"
    if len(back) != 1 or len(back[0].parts) != 1:
        return "parsed_structure_differs", f"{b.hex()} -> {[len(d.parts) for d in back]} parts"
    p = back[0].parts[0]
    if p.token_id != tid:
        return "token_id_differs", f"{b.hex()}: {p.token_id:#x} != {tid:#x}"
    name, kind, flen, attr_ids = R.table_for(doc_id)[tid]
    if kind != R.NONE and not (kind == R.OPAQUE and flen == 0):
        if norm(p.value) != norm(value):
            return "value_differs", f"{b.hex()}: {p.value!r} != {value!r}"
    got_attrs = [a.value for a in p.attributes if isinstance(a, MBXMLToken)]
    if got_attrs != want_attrs:
        return "attribute_values_differ", f"{b.hex()}: {got_attrs!r} != {want_attrs!r}"
    try:
        if MBXML.as_bytes(back[0]) != b:
            return "second_serialisation_differs", b.hex()
    except Exception as e:
        return "exception_serialise_again:" + exc_sig(e), repr(e)
    return "ok", hex(tid)


def lookup_same_process(case):
    r = lookup_stage1(case)
    if r[0] != "token":
        return r[0]
    return lookup_stage2((case[1], case[3], r[1], r[2], r[3]))[0]


def lookup_split(case):
    """stage 1 and stage 2 each in its own forked child of the (pristine) caller: what get_token does to
    interpreter-global tables (C19's subject) cannot influence the parse"""
    r = isolated(lookup_stage1, case)
    if r[0] != "token":
        return r[0], (r[1] if len(r) > 1 else "")
    return isolated(lookup_stage2, (case[1], case[3], r[1], r[2], r[3]))


def isolated(func, arg):
    """run func(arg) in a forked child of this (pristine) process"""
    r, w = os.pipe()
    pid = os.fork()
    if pid == 0:
        code = 0
        try:
            os.close(r)
            try:
                data = pickle.dumps(("ok", func(arg)))
            except BaseException as e:  # noqa
                data = pickle.dumps(("err", repr(e)))
            with os.fdopen(w, "wb") as f:
                f.write(data)
        finally:
            os._exit(code)
    os.close(w)
    with os.fdopen(r, "rb") as f:
        data = f.read()
    os.waitpid(pid, 0)
    if not data:
        return "child_died", ""
    k, v = pickle.loads(data)
    return v if k == "ok" else ("child_error", v)


def lookup_preds(case):
    is_request, doc_id, key, value, attrs = case
    tid = key if isinstance(key, int) else None
    p = []
    if attrs:
        for tid2, (name, kind, flen, attr_ids) in R.table_for(doc_id).items():
            if (tid2 == key or name == key) and kind == R.OPAQUE and flen == 0 and any(R.ATTRIBUTES[a][1] for a in attr_ids):
                p.append("zero_length_opaque_with_value_attribute")
                break
    return p


# ---------------------------------------------------------------------------
def run(only=None):
    rep = Report("C15")
    T = rep.thorough()
    nw = env.workers()
    rep.explanation = (
        "Bounded-exhaustive enumeration of canonical LRRP/MBXML buffers written by the harness's own writer; each is parsed and "
        "re-serialised by the real MBXML.from_bytes / as_bytes. state = one buffer (or one token-lookup request); transition = one "
        "real library call (one parse + one serialisation per document); every case is an implementation execution."
    )
    rep.assumptions = [
        "LRRP element / attribute token tables and document ids transcribed into mc/oracle/mbxml_ref.py (cross-checked against the "
        "library each run: a changed layout of a transcribed implemented token is reported, additional library tokens are only noted)",
        "'implemented' token = value kind handled by both read_document and write_part: OPAQUE_I, UINTVAR, UFLOATVAR, SFLOATVAR, UINT8, "
        "NO_VALUE, INFO_TIME, CIRCLE_2D, POINT_2D, POINT_3D (request-id 0x24 OPAQUE_T, circle-3d 0x54/0x55, point-3d 0x6A are not)",
        "the statement's '22 LRRP document ids' = enum values 0x00..0x15; the four Reserved ids have no token tables (not LRRP "
        "documents), the 18 LRRP_* ids are enumerated",
        "constant-table length does not include itself (library convention); cdt_len 1 = table inherited from the previous document, "
        "so a one-octet inline table is not expressible and not enumerated",
        "numbers that the C14 writers encode wrongly are verified on the primitive and attributed to C14",
    ]

    def want(name):
        return only is None or name in only

    # 0. tables
    if want("table_crosscheck"):
        s = rep.sub("table_crosscheck", "the 18 LRRP document ids: transcribed element/attribute layout vs LRRP.get_configuration")
        s.declared = len(R.DOC_IDS)
        crosscheck_tables(s)
        s.done()

    # 1. token sequences
    if want("token_sequences"):
        maxlen = 3 if T else 2
        s = rep.sub("token_sequences",
                    f"18 document ids x every sequence of length 0..{maxlen} over the id's implemented element tokens (base values; non-NCDT "
                    "ids with the example inline table); all sequences distinct")
        tasks = []
        decl = 0
        for doc_id in sorted(R.DOC_IDS):
            toks = sorted(R.implemented_tokens(doc_id))
            n = len(toks)
            decl += sum(n ** k for k in range(maxlen + 1))
            tasks.append((doc_id, None))
            if maxlen >= 1:
                for first in toks:
                    tasks.append((doc_id, first))

        def w(task):
            doc_id, first = task
            acc = Acc()
            toks = sorted(R.implemented_tokens(doc_id))
            cdt = cdt_for(doc_id)
            if first is None:
                check_buffer(acc, [(doc_id, [], cdt)], sample=(doc_id == 5))
                return acc
            ft = base_token(doc_id, first)
            check_buffer(acc, [(doc_id, [ft], cdt)])
            for k in range(1, maxlen):
                for rest in itertools.product(toks, repeat=k):
                    check_buffer(acc, [(doc_id, [ft] + [base_token(doc_id, t) for t in rest], cdt)],
                                 sample=(doc_id == 7 and first == 0x22 and rest == (0x51,)))
            return acc

        s.declared = decl
        for acc in par.pmap(w, tasks, nw):
            s.merge(acc)
        s.done()

    # 2. token values inside a 10-token background
    if want("token_values"):
        if T:
            ids = sorted(R.DOC_IDS)
            positions = ("middle", "ends")
        else:
            ids = [0x04, 0x05, 0x06, 0x07, 0x0A, 0x0B]
            positions = ("middle",)
        s = rep.sub("token_values",
                    f"{len(ids)} document ids x every implemented token x its complete value alphabet (opaque lengths 0,1,4,127,128,200; "
                    "all 256 octets for 1-octet fields; uintvar boundary set incl. 128*k, >= 128 result codes; u/s floats = integer alphabet x "
                    "all 128 one-septet fractions x sign; 5x5 coordinate corners x radius/altitude; info-time patterns) inside a fixed "
                    f"10-token background, position(s) {positions} (11 / 12 tokens per document)")
        tasks = []
        decl = 0
        for doc_id in ids:
            for tid in sorted(R.implemented_tokens(doc_id)):
                n = len(value_alphabet(doc_id, tid))
                for pos in positions:
                    for lo, hi in par.chunks(n, max(1, n // 400)):
                        tasks.append((doc_id, tid, pos, lo, hi))
                    decl += n

        def w(task):
            doc_id, tid, pos, lo, hi = task
            acc = Acc()
            bg = [base_token(doc_id, t) for t in BACKGROUND[R.DOC_IDS[doc_id][2]]]
            cdt = cdt_for(doc_id)
            for tok in value_alphabet(doc_id, tid)[lo:hi]:
                seq = bg[:5] + [tok] + bg[5:] if pos == "middle" else [tok] + bg + [tok]
                check_buffer(acc, [(doc_id, seq, cdt)], label=R.table_for(doc_id)[tid][1], sample=(lo == 0 and tid == 0x39 and doc_id == 7))
            return acc

        s.declared = decl
        for acc in par.pmap(w, tasks, nw):
            s.merge(acc)
        s.extra["attributed_to_C14"] = sum(v for k, v in s.outcomes.items() if isinstance(k, tuple) and k[1] == "attributed_to_C14")
        s.done()

    # 3. several documents per buffer
    reps = [
        (0x05, [], None),
        (0x04, [], b"\x01A"),
        (0x09, [(0x22, ID4, []), (0x34, None, []), (0x31, 60, [])], None),
        (0x07, [(0x22, ID4, []), (0x34, IT0, []), (0x51, (LAT0, LON0, (0, 99)), []), (0x6C, (0, 6), [])], None),
        (0x0C, [(0x22, ID4, []), (0x66, (LAT0, LON0), [])], BASE_CDT),
        (0x0B, [(0x22, b"\x01", [])], None),
        (0x11, [(0x22, ID4, []), (0x38, b"", [])], None),
        (0x14, [(0x61, 200, []), (0x56, (1, 1), []), (0x50, None, [])], None),
    ]
    if want("multi_document"):
        maxn = 4 if T else 3
        s = rep.sub("multi_document",
                    f"all ordered tuples of 1..{maxn} documents over 8 representative documents (empty NCDT, empty with inline table, request, "
                    "report, inline-table report, common-only, stop-answer, protocol request): every tuple distinct")
        tuples = [t for n in range(1, maxn + 1) for t in itertools.product(range(len(reps)), repeat=n)]
        s.declared = len(tuples)

        def w(task):
            acc = Acc()
            for t in tuples[task[0]:task[1]]:
                check_buffer(acc, [reps[i] for i in t], label=len(t), sample=(t == (2, 3)))
            return acc

        for acc in par.pmap(w, par.chunks(len(tuples), 64), nw):
            s.merge(acc)
        s.done()

    # 4. constant table variants
    tables = [b"", b"\x01A", BASE_CDT, env.det_bytes("c15-cdt-127", 127), env.det_bytes("c15-cdt-128", 128), env.det_bytes("c15-cdt-200", 200)]

    def body_for(doc_id, n):
        fam = R.DOC_IDS[doc_id][2]
        return [base_token(doc_id, t) for t in BACKGROUND[fam][:n]]

    if want("constant_tables"):
        s = rep.sub("constant_tables",
                    "8 non-NCDT ids x inline tables of 0, 2, 5, 127, 128, 200 octets x bodies of 0, 1, 3 tokens (single document); "
                    "[A inline][B inherited] for all 8x8 id pairs x 4 tables x 2 bodies; [A inline][B inherited][C inherited] for all 8^3 id "
                    "triples; [NCDT][A inline][B inherited] for all 8x8 pairs; the default table inherited: [NCDT][A inherited], [NCDT][A inherited][NCDT], [NCDT][A inherited][B inherited]")
        specs = []
        for a in NON_NCDT:
            for t in tables:
                for n in (0, 1, 3):
                    specs.append([(a, body_for(a, n), t)])
        inh_tables = [tables[1], tables[2], tables[3], tables[5]]
        for a in NON_NCDT:
            for b in NON_NCDT:
                for t in inh_tables:
                    for n in (0, 3):
                        specs.append([(a, body_for(a, n), t), (b, body_for(b, n), R.INHERIT)])
                specs.append([reps[2], (a, body_for(a, 1), BASE_CDT), (b, body_for(b, 3), R.INHERIT)])
                # the table inherited is the DEFAULT one: the inheriting document follows an NCDT document (which has no table of its own on the wire)
                specs.append([reps[2], (a, body_for(a, 2), R.INHERIT), (b, body_for(b, 1), R.INHERIT)])
            for n in (0, 1, 3):
                specs.append([reps[2], (a, body_for(a, n), R.INHERIT)])
                specs.append([reps[2], (a, body_for(a, n), R.INHERIT), reps[2]])
                for c in NON_NCDT:
                    specs.append([(a, body_for(a, 1), BASE_CDT), (b, body_for(b, 3), R.INHERIT), (c, body_for(c, 2), R.INHERIT)])
        s.declared = len(specs)

        def w(task):
            acc = Acc()
            for sp in specs[task[0]:task[1]]:
                lab = "inherit" if any(d[2] == R.INHERIT for d in sp) else "inline"
                check_buffer(acc, sp, label=lab, sample=(len(sp) == 2 and sp[0][0] == 4 and sp[1][0] == 6))
            return acc

        for acc in par.pmap(w, par.chunks(len(specs), 64), nw):
            s.merge(acc)
        s.extra["attributed_to_C14"] = sum(v for k, v in s.outcomes.items() if isinstance(k, tuple) and k[1] == "attributed_to_C14")
        s.done()

    # 4b. inherited table through MBXML.read_document (independent of how from_bytes delimits documents)
    if want("inherited_table_read_document"):
        s = rep.sub("inherited_table_read_document",
                    "document B with cdt_len 1 handed to MBXML.read_document(doctype, B's octets, index of its body, previous_doc = parsed "
                    "document A with an inline table): all 8x8 (A, B) id pairs x 4 tables x 2 bodies")
        specs = [(a, b, t, n) for a in NON_NCDT for b in NON_NCDT for t in (tables[1], tables[2], tables[3], tables[5]) for n in (0, 3)]
        s.declared = len(specs)
        by_id = {m.value[0]: m for m in MBXMLDocumentIdentifier}
        for (a, b, t, n) in specs:
            case = {"kind": "read_document", "a": a, "b": b, "table": t, "tokens": n}
            spec_b = (b, body_for(b, n), R.INHERIT)
            try:
                xa = R.enc_document(a, body_for(a, 1), t)
                xb = R.enc_document(*spec_b)
                prev = MBXML.from_bytes(xa)[0]
                _, i = R.dec_uintvar(xb, 0)
                _, i = R.dec_uintvar(xb, i)
                got = MBXML.read_document(doctype=by_id[b], data=xb, idx=i, previous_doc=prev)
                diffs = compare_doc(got, spec_b, t)
                outcome = "ok"
                if diffs:
                    s.violation("inherit_marker_document_misparsed", {**case, "hex": xb.hex(), "detail": diffs[:3]},
                                "a document whose cdt_len is 1 (table inherited) does not parse into the written tokens")
                    outcome = "parts"
                elif got.constants_table != t:
                    s.violation("inherited_table_not_taken_from_previous_document", {**case, "hex": xb.hex()})
                    outcome = "table"
                else:
                    out = MBXML.as_bytes(got)
                    if out != xb:
                        outcome = "bytes"
                        s.violation("inherited_table_document_reserialised_differently", {**case, "hex": xb.hex(), "got": out.hex()},
                                    "a document that inherited its table is not written back with the inherit marker")
            except Exception as e:
                outcome = "exception"
                s.violation("inherit_marker_document_misparsed", {**case, "detail": repr(e)},
                            "a document whose cdt_len is 1 (table inherited) does not parse into the written tokens")
            s.case(nontrivial=True, calls=3, outcome=outcome, sample=case if (a, b, n) == (4, 6, 3) and t == BASE_CDT else None)
        s.done()

    # 5. token lookup API
    if want("token_lookup_api"):
        cases = lookup_cases()
        s = rep.sub("token_lookup_api",
                    "request (id 0x05) and report (id 0x07) families: every implemented token looked up by id and by name x value alphabet x "
                    "every complete attribute assignment (value-carrying attributes supplied with 0/5/127/300, implied attributes left out or "
                    "supplied with the implied value; keys by id or by name); get_token+as_bytes in one forked child of a pristine process, "
                    "from_bytes+comparison in another; the same again with both stages in one process and in one long-lived process "
                    "(what get_token leaves behind in interpreter-global tables is C19's subject: differences are counted, not reported)")
        s.declared = len(cases)

        def w(task):
            acc = Acc()
            res = []
            for c in cases[task[0]:task[1]]:
                outcome, detail = lookup_split(c)
                res.append(outcome)
                if outcome != "ok" and not outcome.startswith("lookup_re"):
                    preds = lookup_preds(c)
                    acc.violation(outcome + ("[" + "+".join(preds) + "]" if preds else ""),
                                  {"kind": "lookup", "is_request": c[0], "document_id": c[1], "key": c[2], "value": c[3], "attributes": [[k, v] for k, v in c[4].items()], "detail": detail},
                                  "a token obtained from get_token, serialised, does not parse back into the same token id / value / attribute values")
                acc.case(nontrivial=True, calls=4, outcome=outcome.split(":")[0],
                         sample={"kind": "lookup", "key": c[2], "attributes": [[k, v] for k, v in c[4].items()], "outcome": outcome} if c[2] == 0x39 else None)
            return acc, res

        iso = []
        for acc, res in par.pmap(w, par.chunks(len(cases), 64), nw):
            s.merge(acc)
            iso += res

        def same_process_each(task):
            return [isolated(lookup_same_process, c) for c in cases[task[0]:task[1]]]

        sp = [o for chunk in par.pmap(same_process_each, par.chunks(len(cases), 64), nw) for o in chunk]
        s.extra["outcome_differs_when_lookup_and_parse_share_a_process(C19)"] = sum(1 for a, b in zip(iso, sp) if a != b)

        def longlived(_):
            return [lookup_same_process(c) for c in cases]

        ll = isolated(longlived, None)
        if isinstance(ll, list) and len(ll) == len(iso):
            s.extra["outcome_differs_in_one_long_lived_process(C19)"] = sum(1 for a, b in zip(iso, ll) if a != b)
        else:
            s.extra["outcome_differs_in_one_long_lived_process(C19)"] = f"long-lived run failed: {ll!r}"[:200]
        s.extra["tokens_obtained"] = sum(1 for o in iso if not o.startswith("lookup_re"))
        if not any(o == "ok" for o in iso):
            rep.internal_error("token_lookup_api: no lookup produced a token that round-trips (vacuous)")
        s.done()

    # 6. the lookup API as the first thing a process does with the library
    if want("lookup_api_first_in_a_new_interpreter"):
        import subprocess as _sp
        import sys as _sys
        import json as _json
        cases6 = [c for c in lookup_cases() if isinstance(c[2], int) and all(isinstance(k, int) for k in c[4])]
        s = rep.sub("lookup_api_first_in_a_new_interpreter",
                    "every implemented token of both families (by id, attributes by id) assembled through get_token and serialised in brand-new "
                    "interpreters whose first use of the library is that lookup, in two orders (requests first / reports first): same octets "
                    "as in this process, and the octets parse back (stage 2) here")
        here = [lookup_stage1(c) for c in cases6]
        code = ("import sys\nsys.path.insert(0, %r)\nfrom mc import env\nimport checks.c15_mbxml as c\nimport json\n"
                "cases = [x for x in c.lookup_cases() if isinstance(x[2], int) and all(isinstance(k, int) for k in x[4])]\n"
                "order = sorted(range(len(cases)), key=lambda i: (cases[i][0] != %s, i))\n"
                "out = {}\n"
                "for i in order:\n"
                "    r = c.lookup_stage1(cases[i])\n"
                "    out[i] = [r[0], r[3].hex() if r[0] == 'token' else str(r[1])[:120]]\n"
                "print('RESULT:' + json.dumps(out))\n")
        for first in (True, False):
            r = _sp.run([_sys.executable] + (["-O"] if _sys.flags.optimize else []) + ["-B", "-c", code % (env.VERIF, first)],
                        capture_output=True, text=True, cwd=env.VERIF)
            got = None
            for line in r.stdout.splitlines():
                if line.startswith("RESULT:"):
                    got = _json.loads(line[7:])
            if got is None:
                rep.internal_error(f"new interpreter (requests_first={first}) gave no result: {r.stderr[-300:]}")
                continue
            for i, c in enumerate(cases6):
                h_ = here[i]
                want_ = [h_[0], h_[3].hex() if h_[0] == "token" else str(h_[1])[:120]]
                case = {"kind": "lookup", "is_request": c[0], "document_id": c[1], "key": c[2], "attributes": [[k, v] for k, v in c[4].items()], "requests_first": first}
                if got.get(str(i)) != want_ and not (want_[0] != "token" and got.get(str(i), [None])[0] == want_[0]):
                    s.violation("lookup_result_differs_when_it_is_the_first_use_of_the_library_in_a_process", {**case, "here": want_, "there": got.get(str(i))},
                                "a token assembled through the lookup API serialises differently (or fails) in a new interpreter that has not parsed anything yet")
                elif h_[0] == "token":
                    o2 = lookup_stage2((c[1], c[3], h_[1], h_[2], h_[3]))[0]
                    if o2 != "ok":
                        s.violation("first_use_octets_do_not_parse_back:" + o2, case)
                s.case(nontrivial=True, calls=2, outcome=h_[0].split(":")[0], sample=case if len(s.samples) < 1 else None)
        s.done()

    rep.bounds = {
        "sequence_length": "0..3 tokens exhaustively (thorough; quick 0..2), 11/12-token documents for the value sweeps",
        "documents_per_buffer": "1..4 (thorough; quick 1..3)",
        "values": "boundary alphabets, complete for 1-octet fields and for the one-septet fraction; integer parts of floats from a 30-value alphabet",
        "not_covered": "documents of 4..12 arbitrary tokens (only the fixed background), ARRP ids (no tables in the library), tokens whose kind the "
                       "library does not implement, non-canonical encodings, malformed input (termination is only checked on well-formed input)",
    }
    return rep.finish()


def _revive(o):
    if isinstance(o, str) and o.startswith("hex:"):
        return bytes.fromhex(o[4:])
    if isinstance(o, list):
        return tuple(_revive(x) for x in o)
    return o


def replay(doc):
    bad = 0
    for c in doc.get("cases", []):
        if c.get("kind") == "buffer":
            docs = []
            for d in c["docs"]:
                doc_id, tokens, cdt = d
                toks = [(t[0], _revive(t[1]), list(t[2])) for t in tokens]
                docs.append((doc_id, toks, _revive(cdt)))
            x, kind, detail = run_buffer(docs)
            print(f"buffer {x.hex()}: {kind} {detail}")
            bad += kind != "ok" and not c14_attributable(docs)
        elif c.get("kind") == "lookup":
            case = (c["is_request"], c["document_id"], c["key"], _revive(c["value"]), {k: v for k, v in c["attributes"]})
            outcome, detail = lookup_split(case)
            print(f"lookup {case[2]!r} {case[4]!r}: {outcome} {detail}")
            bad += outcome != "ok" and not outcome.startswith("lookup_re")
        else:
            print("cannot replay", c)
    return 1 if bad else 0

"""C16 -- Motorola TMS and ARS messages: length framing and fields over a round trip.

Every message is built from fields with the library's own constructors, serialised with
as_bytes(), and then
  (1) the two leading octets must equal the number of octets that follow,
  (2) from_bytes() must return an object whose named fields equal the ones used to build it,
  (3) that object must serialise to the identical octets,
  (4) the harness's own decoder of the wire layout (transcribed from the class docstrings:
      first header bits, address LV, optional header octets with the 5+2 bit sequence-number
      split and the encoding in the low 5 bits of the second octet; ARS LV fields, second
      headers, CSBK trailer 10 80) must read the same fields out of the octets.
The space is the full product of the per-field alphabets for each PDU type (complete for
sequence numbers 0..127, refresh times 1..127, failure reasons, capabilities, events, all
header flag combinations; boundary alphabets for addresses, texts and identifiers).
"""
from mc import env  # noqa: F401
from mc import par
from mc.report import Report, Acc, exc_sig
from mc.hist import scramble, observe

import itertools

from okdmr.dmrlib.motorola.text_messaging_service import (
    TextMessagingService,
    TMSPDUType,
    TMSEncoding,
    TMSDeviceCapability,
    AvailabilitySecondHeader,
    FirstHeader as TMSFirstHeader,
)
from okdmr.dmrlib.motorola.automatic_registration_service import (
    AutomaticRegistrationService,
    ARSPDUType,
    RegistrationEvent,
    RegistrationRequestHeader,
    ResponseSecondHeader,
    FailureReason,
    Encoding as ARSEncoding,
    FirstHeader as ARSFirstHeader,
)

# wire constants of the reference decoder (transcribed, not imported)
TMS_TYPES = {"SERVICE_AVAILABILITY": (1, 0b0000), "TMS_ACKNOWLEDGEMENT": (1, 0b1111), "SIMPLE_TEXT_MESSAGE": (0, 0b0000)}
TMS_UCS2_LE = 0x04
ARS_TYPES = {
    "DEVICE_REGISTRATION_REQUEST": 0b0000,
    "DEVICE_DEREGISTATION_NOTICE": 0b0001,
    "STATUS_QUERY_REQUEST": 0b0100,
    "USER_REGISTRATION_REQUEST": 0b0101,
    "USER_DEREGISTRATION_REQUEST": 0b0110,
    "USER_REGISTRATION_RESPONSE": 0b0111,
    "ARS_DEVICE_OR_QUERY_RESPONSE": 0b1111,
}
ARS_EVENTS = {"DONT_CARE": 0, "INITIAL": 1, "REFRESH": 2}
ARS_FAILURES = {"DEVICE_NOT_AUTHORIZED": 0x00, "USER_ID_NOT_VALID": 0x01, "USER_VALIDATION_TIMEOUT": 0x02, "TRANSMISSION_FAILURE": 0xFF}
CSBK_END = b"\x10\x80"


# ---------------------------------------------------------------------------
# TMS
# ---------------------------------------------------------------------------
def tms_wire_decode(b):
    """harness decoder of a TMS PDU -> dict (raises on truncated input)"""
    n = int.from_bytes(b[0:2], "big")
    h = b[2]
    out = {
        "length": n,
        "more": bool(h & 0x80), "ack": bool(h & 0x40), "reserved": bool(h & 0x20), "control": bool(h & 0x10), "type": h & 0x0F,
    }
    alen = b[3]
    i = 4 + alen
    out["address"] = bytes(b[4:i])
    out["sn"] = None
    out["encoding"] = None
    out["cap"] = None
    out["message"] = None
    kind = (int(out["control"]), out["type"])
    if kind == TMS_TYPES["SERVICE_AVAILABILITY"]:
        if out["more"]:
            out["cap"] = b[i] & 0b11
            i += 1
    else:
        if out["more"]:
            h1 = b[i]
            i += 1
            sn = h1 & 0x1F
            if h1 & 0x80:
                h2 = b[i]
                i += 1
                sn |= h2 & 0x60
                out["encoding"] = h2 & 0x1F
            out["sn"] = sn
        if kind == TMS_TYPES["SIMPLE_TEXT_MESSAGE"]:
            out["message"] = bytes(b[i:n + 2])
            i = n + 2
    out["consumed"] = i
    return out


def tms_build(c):
    pdu = TMSPDUType[c["pdu"]]
    if c["form"] == "enum":
        fh = TMSFirstHeader(pdu_type=pdu, is_acknowledged=c["ack"], is_reserved=c["reserved"])
    else:  # header from the raw (control flag, 4-bit type) pair
        fh = TMSFirstHeader(is_acknowledged=int(c["ack"]), is_reserved=int(c["reserved"]), is_control_message=bool(pdu.value[0]), pdu_type=pdu.value[1])
    kw = dict(first_header=fh, address=c["address"])
    if c["pdu"] == "SERVICE_AVAILABILITY":
        kw["availability_header"] = None if c["cap"] is None else AvailabilitySecondHeader(capability=TMSDeviceCapability(c["cap"]))
    elif c["pdu"] == "TMS_ACKNOWLEDGEMENT":
        kw["sequence_number"] = c["sn"]
    else:
        kw["sequence_number"] = c["sn"]
        kw["encoding"] = TMSEncoding.UCS2_LE if c["encoding"] else None
        kw["message"] = c["text"].encode("utf-16-le")
    return TextMessagingService(**kw)


def check_tms(acc, c, sample=False):
    calls = 0
    outcome = "ok"
    try:
        calls += 1
        b = tms_build(c).as_bytes()
    except Exception as e:
        acc.violation("exception_tms_as_bytes:" + exc_sig(e), c, repr(e))
        acc.case(calls=calls, outcome="exception")
        return
    cc = {**c, "octets": bytes(b).hex() if len(b) < 80 else bytes(b[:80]).hex() + "..."}
    want_sn = c.get("sn")
    want_enc = (TMS_UCS2_LE if c.get("encoding") else None) if c["pdu"] == "SIMPLE_TEXT_MESSAGE" else None
    want_msg = c["text"].encode("utf-16-le") if c["pdu"] == "SIMPLE_TEXT_MESSAGE" else None
    # (1) length prefix
    if int.from_bytes(b[:2], "big") != len(b) - 2:
        acc.violation("tms_length_prefix_wrong", cc, f"leading length {int.from_bytes(b[:2], 'big')} != {len(b) - 2} octets that follow")
        outcome = "length"
    # (2) parse back
    try:
        # history probe: a first parse whose result the caller then rewrites in place must not influence the next parse of the
        # same bytes (parse results cached / shared by the library)
        try:
            scramble(TextMessagingService.from_bytes(b))
        except Exception:  # noqa: BLE001
            pass
        calls += 1
        p = TextMessagingService.from_bytes(b)
    except Exception as e:
        acc.violation("exception_tms_from_bytes:" + exc_sig(e), cc, repr(e))
        acc.case(calls=calls, outcome="exception")
        return
    if p is None:
        acc.violation("tms_from_bytes_returns_none", cc, "own serialisation is not recognised")
        acc.case(calls=calls, outcome="none")
        return
    sn_lost = False
    try:
        diffs = []
        if p.header.pdu_type.name != c["pdu"]:
            diffs.append("pdu_type")
        if bool(p.header.is_acknowledged) != c["ack"]:
            diffs.append("is_acknowledged")
        if bool(p.header.is_control_message) != bool(TMS_TYPES[c["pdu"]][0]):
            diffs.append("is_control_message")
        if c["pdu"] != "SIMPLE_TEXT_MESSAGE" and bool(p.header.is_reserved) != c["reserved"]:
            # text messages: the serialiser normalises the reserved bit to 1, not compared
            diffs.append("is_reserved")
        if p.address != c["address"]:
            diffs.append("address")
        if c["pdu"] == "SERVICE_AVAILABILITY":
            got = None if p.availability_header is None else p.availability_header.capability.value
            if got != c["cap"]:
                diffs.append("capability")
        else:
            if p.sequence_number != want_sn:
                if c["pdu"] == "TMS_ACKNOWLEDGEMENT" and want_sn == 0 and p.sequence_number is None:
                    sn_lost = True
                else:
                    diffs.append("sequence_number")
        if c["pdu"] == "SIMPLE_TEXT_MESSAGE":
            got = None if p.encoding is None else p.encoding.value
            if got != want_enc:
                diffs.append("encoding")
            if p.message != want_msg:
                diffs.append("message")
        if sn_lost:
            acc.violation("tms_ack_sequence_number_0_lost", cc,
                          "acknowledgement of sequence number 0 is serialised without the optional header and parses back with sequence_number None")
            outcome = "sn0"
        if diffs:
            acc.violation("tms_fields_differ_after_round_trip[" + "+".join(diffs) + "]", cc, "from_bytes(as_bytes()) has other field values")
            outcome = "fields"
        # (3) same octets again
        calls += 1
        b2 = p.as_bytes()
        if b2 != b:
            acc.violation("tms_reserialised_octets_differ", {**cc, "again": bytes(b2[:80]).hex()})
            outcome = "bytes"
        else:
            # looking at the parsed PDU (repr, str, ==, len, hash) between two serialisations must not change it
            observe(p, light=True)
            if p.as_bytes() != b:
                acc.violation("tms_reserialised_octets_differ_after_the_pdu_was_looked_at", cc)
                outcome = "bytes"
    except Exception as e:
        acc.violation("exception_tms_compare:" + exc_sig(e), cc, repr(e))
        outcome = "exception"
    # (4) harness decoder
    try:
        w = tms_wire_decode(b)
        wd = []
        if (int(w["control"]), w["type"]) != TMS_TYPES[c["pdu"]]:
            wd.append("type")
        if w["ack"] != c["ack"]:
            wd.append("ack")
        if c["pdu"] != "SIMPLE_TEXT_MESSAGE" and w["reserved"] != c["reserved"]:
            wd.append("reserved")
        if w["address"] != c["address"]:
            wd.append("address")
        if w["cap"] != (c.get("cap") if c["pdu"] == "SERVICE_AVAILABILITY" else None):
            wd.append("capability")
        exp_sn = None if sn_lost else want_sn
        if w["sn"] != exp_sn:
            wd.append("sequence_number")
        if c["pdu"] == "SIMPLE_TEXT_MESSAGE":
            if (w["encoding"] or None) != want_enc:
                wd.append("encoding")
            if w["message"] != want_msg:
                wd.append("message")
        if w["consumed"] != len(b):
            wd.append("trailing_octets")
        if wd:
            acc.violation("tms_wire_layout_differs_from_reference[" + "+".join(wd) + "]", {**cc, "decoded": {k: v for k, v in w.items() if k != "message"}},
                          "the documented wire layout, decoded by the harness, does not carry the fields the message was built from")
            outcome = "wire"
    except Exception as e:
        acc.violation("tms_wire_layout_not_decodable:" + type(e).__name__, cc, repr(e))
        outcome = "wire"
    acc.case(nontrivial=True, calls=calls, outcome=(c["pdu"], len(b) - 4 - len(c["address"]) - (len(want_msg) if want_msg else 0), outcome),
             sample=cc if sample else None)


# ---------------------------------------------------------------------------
# ARS
# ---------------------------------------------------------------------------
def ars_wire_decode(b, kind):
    n = int.from_bytes(b[0:2], "big")
    h = b[2]
    out = {"length": n, "more": bool(h & 0x80), "ack": bool(h & 0x40), "priority": bool(h & 0x20), "control": bool(h & 0x10), "type": h & 0x0F}
    i = 3
    if kind == "registration":
        out["event"] = out["encoding"] = None
        if out["more"]:
            out["event"] = (b[i] >> 5) & 0b11
            out["encoding"] = b[i] & 0x1F
            i += 1
        vals = []
        for _ in range(3):
            ln = b[i]
            vals.append(bytes(b[i + 1:i + 1 + ln]))
            if len(vals[-1]) != ln:
                raise ValueError("LV field truncated")
            i += 1 + ln
        out["ids"] = vals
    elif kind == "response":
        out["second"] = None
        if out["more"]:
            out["second"] = b[i]
            i += 1
    out["csbk"] = bytes(b[i:]) == CSBK_END
    out["tail"] = bytes(b[i:])
    return out


def ars_build(c):
    fh = ARSFirstHeader(
        has_more_headers=c["more"], is_acknowledged=c["ack"], is_priority=c["priority"], is_control_message=c["control"],
        pdu_type=ARSPDUType[c["pdu"]] if c["form"] == "enum" else ARS_TYPES[c["pdu"]],
    )
    kw = dict(first_header=fh, is_csbk_ars=c["csbk"])
    if c["kind"] == "ars_registration":
        kw["registration_request_header"] = None if c["event"] is None else RegistrationRequestHeader(event=RegistrationEvent[c["event"]], encoding=ARSEncoding.UTF8)
        kw["device_identifier"], kw["user_identifier"], kw["password"] = c["ids"]
    elif c["kind"] == "ars_response":
        rsh = None
        if c["failure"] is not None:
            rsh = ResponseSecondHeader(failure_reason=FailureReason[c["failure"]])
        elif c["refresh"] is not None:
            rsh = ResponseSecondHeader(refresh_time=c["refresh"])
        if rsh is not None:
            # the second header is bound to its first header in the fluent style, by a call used as a statement, or after the PDU was built
            how = c.get("ctx", "fluent")
            if how == "fluent":
                rsh = rsh.context(fh)
            elif how == "statement":
                rsh.context(fh)
            kw["response_second_header"] = rsh
            if how == "after":
                pdu_ = AutomaticRegistrationService(**kw)
                pdu_.response_second_header.context(pdu_.header if hasattr(pdu_, "header") else fh)
                return pdu_
    return AutomaticRegistrationService(**kw)


def check_ars(acc, c, sample=False):
    calls = 0
    outcome = "ok"
    implemented = c["kind"] != "ars_unimplemented"
    try:
        calls += 1
        b = ars_build(c).as_bytes()
    except ValueError as e:
        if implemented:
            acc.violation("exception_ars_as_bytes:" + exc_sig(e), c, repr(e))
        acc.case(calls=calls, outcome="not_implemented:ValueError" if not implemented else "exception")
        return
    except Exception as e:
        acc.violation("exception_ars_as_bytes:" + exc_sig(e), c, repr(e))
        acc.case(calls=calls, outcome="exception")
        return
    cc = {**c, "octets": bytes(b).hex() if len(b) < 80 else bytes(b[:80]).hex() + "..."}
    if int.from_bytes(b[:2], "big") != len(b) - 2:
        acc.violation("ars_length_prefix_wrong", cc, f"leading length {int.from_bytes(b[:2], 'big')} != {len(b) - 2} octets that follow")
        outcome = "length"
    try:
        # history probe: a first parse whose result the caller then rewrites in place must not influence the next parse of the
        # same bytes (parse results cached / shared by the library)
        try:
            scramble(AutomaticRegistrationService.from_bytes(b))
        except Exception:  # noqa: BLE001
            pass
        calls += 1
        p = AutomaticRegistrationService.from_bytes(b)
    except Exception as e:
        acc.violation("exception_ars_from_bytes:" + exc_sig(e), cc, repr(e))
        acc.case(calls=calls, outcome="exception")
        return
    if p is None:
        acc.violation("ars_from_bytes_returns_none", cc)
        acc.case(calls=calls, outcome="none")
        return
    try:
        diffs = []
        h = p.header
        if h.pdu_type.name != c["pdu"]:
            diffs.append("pdu_type")
        for name, key in (("has_more_headers", "more"), ("is_acknowledged", "ack"), ("is_priority", "priority"), ("is_control_message", "control")):
            if bool(getattr(h, name)) != bool(c[key]):
                diffs.append(name)
        if bool(p.is_csbk_ars) != c["csbk"]:
            diffs.append("is_csbk_ars")
        if c["kind"] == "ars_registration":
            r = p.registration_request_header
            if (None if r is None else r.event.name) != c["event"]:
                diffs.append("event")
            if r is not None and r.encoding.value != 0:
                diffs.append("encoding")
            if [p.device_identifier, p.user_identifier, p.password] != list(c["ids"]):
                diffs.append("identifiers")
        elif c["kind"] == "ars_response":
            r = p.response_second_header
            if c["failure"] is None and c["refresh"] is None:
                if r is not None:
                    diffs.append("second_header_appeared")
            elif r is None:
                diffs.append("second_header_lost")
            elif c["failure"] is not None and (r.failure_reason is None or r.failure_reason.name != c["failure"]):
                diffs.append("failure_reason")
            elif c["refresh"] is not None and r.refresh_time != c["refresh"]:
                diffs.append("refresh_time")
        if diffs:
            acc.violation("ars_fields_differ_after_round_trip[" + "+".join(diffs) + "]", cc, "from_bytes(as_bytes()) has other field values")
            outcome = "fields"
        calls += 1
        b2 = p.as_bytes()
        if b2 != b:
            acc.violation("ars_reserialised_octets_differ", {**cc, "again": bytes(b2[:80]).hex()})
            outcome = "bytes"
        else:
            observe(p, light=True)
            if p.as_bytes() != b:
                acc.violation("ars_reserialised_octets_differ_after_the_pdu_was_looked_at", cc)
                outcome = "bytes"
    except Exception as e:
        acc.violation("exception_ars_compare:" + exc_sig(e), cc, repr(e))
        outcome = "exception"
    if implemented:
        try:
            kind = {"ars_registration": "registration", "ars_response": "response"}.get(c["kind"], "plain")
            w = ars_wire_decode(b, kind)
            wd = []
            if w["type"] != ARS_TYPES[c["pdu"]]:
                wd.append("type")
            for key in ("more", "ack", "priority", "control", "csbk"):
                if w[key] != bool(c[key]):
                    wd.append(key)
            if w["tail"] not in (b"", CSBK_END):
                wd.append("trailing_octets")
            if kind == "registration":
                if w["event"] != (None if c["event"] is None else ARS_EVENTS[c["event"]]):
                    wd.append("event")
                if w["ids"] != [s.encode("utf-8") for s in c["ids"]]:
                    wd.append("identifiers")
            elif kind == "response":
                exp = ARS_FAILURES[c["failure"]] if c["failure"] is not None else c["refresh"]
                if w["second"] != exp:
                    wd.append("second_header")
            if wd:
                acc.violation("ars_wire_layout_differs_from_reference[" + "+".join(wd) + "]", {**cc, "decoded": w},
                              "the documented wire layout, decoded by the harness, does not carry the fields the message was built from")
                outcome = "wire"
        except Exception as e:
            acc.violation("ars_wire_layout_not_decodable:" + type(e).__name__, cc, repr(e))
            outcome = "wire"
    acc.case(nontrivial=True, calls=calls, outcome=(c["pdu"], c["more"], c["csbk"], outcome), sample=cc if sample else None)


# ---------------------------------------------------------------------------
# alphabets
# ---------------------------------------------------------------------------
def addresses(T):
    lens = range(256) if T else (0, 1, 3, 255)
    out = []
    for n in lens:
        out.append(env.det_bytes(f"c16-addr-{n}", n) if n not in (1, 3) else (b"\x01" if n == 1 else b"abc"))
    return out


NONASCII = "ž€é中￿\u0001"  # all inside the BMP (UCS-2), incl. U+FFFF and a control character


def text_of(n):
    """n UCS-2 characters, ASCII and non-ASCII mixed"""
    base = "ahoj " + NONASCII + "Z\u0000"
    return (base * (n // len(base) + 1))[:n]


def texts(T):
    out = [text_of(n) for n in ((0, 1, 2, 7, 200) if not T else (0, 1, 2, 3, 7, 31, 32, 127, 128, 199, 200))]
    # every class of *first* character (the octets right after the optional header): low byte with the top bit set, high byte with
    # the top bit set, NUL, 0x7F / 0x80 / 0xFF boundaries, a lone character and the same followed by ASCII
    # ... and the characters a "tolerant" reader likes to drop: a byte-order mark (U+FEFF = octets FF FE, and its mirror U+FFFE), white space,
    # line ends - as first and as last character (they are characters of the text like any other)
    for first in ("\u00e9", "\u0080", "\u00ff", "\u65e5", "\u8080", "\uff80", "\u007f", "\u0100", "\u0000", "\ufeff", "\ufffe", " ", "\r", "\n"):
        out.append(first)
        out.append(first + "abc")
    for last in ("\u0000", " ", "\r\n", "\ufeff", "\u0000\u0000"):
        out.append("abc" + last)
    return out


def identifiers(T):
    ids = ["", "1", "abc", "ž", "€" * 85, "x" * 255]
    if T:
        ids += ["\U0001F600" * 63, "\x10", "a\x00b", "9" * 9, "y" * 128, "y" * 127]
    return ids


FLAGS3 = list(itertools.product((False, True), repeat=3))  # ack, priority, control


# ---------------------------------------------------------------------------
def run(only=None):
    rep = Report("C16")
    T = rep.thorough()
    nw = env.workers()
    rep.explanation = (
        "Full product of per-field alphabets for every TMS and ARS PDU type, each message built from fields with the library's "
        "constructors. state = one message; transition = one real library call (as_bytes, from_bytes, as_bytes again); every case is "
        "an implementation execution."
    )
    rep.assumptions = [
        "wire layouts for the harness decoder are transcribed from the class docstrings / comments of text_messaging_service.py and "
        "automatic_registration_service.py and agree with the captured messages of test_tms.py / test_ars.py",
        "domain: TMS acknowledgements carry no text, hence no encoding (an encoding given to an acknowledgement is written but not read "
        "back - outside the statement, counted as observation); TMS text messages always have a sequence number; TMSEncoding.UNDEFINED == None",
        "domain: ARS has_more_headers is set iff a second header object is supplied; ResponseSecondHeader is bound to its first header with "
        "the public .context() (without it a refresh-time header cannot be serialised - observation); identifiers are str (\"\" not None); "
        "USER_DEREGISTRATION_REQUEST / USER_REGISTRATION_RESPONSE raise the explicit 'not implemented' ValueError (recorded, not a violation)",
        "the TMS reserved bit is compared for control PDUs only (the serialiser sets it for text messages)",
    ]

    def want(name):
        return only is None or name in only

    addrs = addresses(T)
    forms = ("enum", "raw")

    # ---- TMS ----
    if want("tms_service_availability"):
        s = rep.sub("tms_service_availability", f"header form (2) x acknowledged x reserved x {len(addrs)} addresses x capability (absent + all 4)")
        cases = [dict(kind="tms", pdu="SERVICE_AVAILABILITY", form=f, ack=a, reserved=r, address=ad, cap=cap)
                 for f in forms for a in (False, True) for r in (False, True) for ad in addrs for cap in (None, 0, 1, 2, 3)]
        s.declared = len(cases)
        for n, c in enumerate(cases):
            check_tms(s, c, sample=(n == 7))
        s.done()

    if want("tms_acknowledgement"):
        s = rep.sub("tms_acknowledgement",
                    f"header form (2) x acknowledged x reserved x {len(addrs)} addresses x sequence number (absent + all 0..127)")
        cases = [dict(kind="tms", pdu="TMS_ACKNOWLEDGEMENT", form=f, ack=a, reserved=r, address=ad, sn=sn)
                 for f in forms for a in (False, True) for r in (False, True) for ad in addrs for sn in [None] + list(range(128))]
        s.declared = len(cases)

        def w(task):
            acc = Acc()
            for c in cases[task[0]:task[1]]:
                check_tms(acc, c, sample=(c["sn"] == 53 and c["address"] == b""))
            return acc

        for acc in par.pmap(w, par.chunks(len(cases), 64), nw):
            s.merge(acc)
        # observation outside the statement: an encoding given to an acknowledgement
        try:
            m = TextMessagingService(first_header=TMSFirstHeader(pdu_type=TMSPDUType.TMS_ACKNOWLEDGEMENT), sequence_number=5, encoding=TMSEncoding.UCS2_LE)
            s.extra["observation_ack_with_encoding"] = {"octets": m.as_bytes().hex(), "encoding_read_back": repr(TextMessagingService.from_bytes(m.as_bytes()).encoding)}
        except Exception as e:
            s.extra["observation_ack_with_encoding"] = repr(e)
        s.done()

    if want("tms_text_message"):
        txts = texts(T)
        s = rep.sub("tms_text_message",
                    f"header form (2) x acknowledged x reserved x {len(addrs)} addresses x all sequence numbers 0..127 x encoding (none, UCS2-LE) x "
                    f"{len(txts)} texts of {[len(t) for t in txts]} UCS-2 characters (ASCII + non-ASCII BMP incl. U+0000, U+FFFF)"
                    + ("; plus every text length 0..200 x sequence numbers 0, 31, 32, 127 x encoding x 2 addresses" if T else ""))
        combos = [(f, a, r) for f in forms for a in (False, True) for r in (False, True)]
        tasks = [(cmb, ai) for cmb in combos for ai in range(len(addrs))]
        s.declared = len(tasks) * 128 * 2 * len(txts)

        def w(task):
            (f, a, r), ai = task
            acc = Acc()
            for sn in range(128):
                for enc in (False, True):
                    for t in txts:
                        check_tms(acc, dict(kind="tms", pdu="SIMPLE_TEXT_MESSAGE", form=f, ack=a, reserved=r, address=addrs[ai], sn=sn, encoding=enc, text=t),
                                  sample=(sn == 85 and t == "a" and ai == 1 and enc and f == "enum" and not a and not r))
            return acc

        for acc in par.pmap(w, tasks, nw):
            s.merge(acc)
        if T:
            extra = [dict(kind="tms", pdu="SIMPLE_TEXT_MESSAGE", form="enum", ack=False, reserved=False, address=ad, sn=sn, encoding=enc, text=text_of(n))
                     for n in range(201) for sn in (0, 31, 32, 127) for enc in (False, True) for ad in (b"", b"abc")]
            s.declared += len(extra)

            def w2(task):
                acc = Acc()
                for c in extra[task[0]:task[1]]:
                    check_tms(acc, c)
                return acc

            for acc in par.pmap(w2, par.chunks(len(extra), 64), nw):
                s.merge(acc)
        s.done()


    if want("tms_shared_header_object_histories"):
        # histories of two serialisations that share objects: the first header's flags must describe *this* serialisation whatever the
        # header object (or the PDU object) was used for before.  Oracle: the octets of the second PDU built from fresh objects.
        s = rep.sub("tms_shared_header_object_histories",
                    "header form (2) x acknowledged x reserved x 2 addresses x all ordered pairs of optional-part values (acknowledgement: "
                    "sequence number absent/0/5/31/32/127; availability: capability absent/0..3; text: 4 sequence numbers x encoding): "
                    "(a) one FirstHeader object used for PDU A then PDU B, (b) PDU A edited in place into B, (c) a header the caller "
                    "created with has_more_headers=True, (d) a serialisation that raised (sequence number 200) before B")

        def fresh_octets(c):
            return bytes(tms_build(c).as_bytes())

        def header_for(c, more=False):
            pdu = TMSPDUType[c["pdu"]]
            if c["form"] == "enum":
                return TMSFirstHeader(pdu_type=pdu, is_acknowledged=c["ack"], is_reserved=c["reserved"], has_more_headers=more)
            return TMSFirstHeader(is_acknowledged=int(c["ack"]), is_reserved=int(c["reserved"]), is_control_message=bool(pdu.value[0]), pdu_type=pdu.value[1],
                                  has_more_headers=more)

        def kwargs_for(c):
            kw = dict(address=c["address"])
            if c["pdu"] == "SERVICE_AVAILABILITY":
                kw["availability_header"] = None if c["cap"] is None else AvailabilitySecondHeader(capability=TMSDeviceCapability(c["cap"]))
            else:
                kw["sequence_number"] = c["sn"]
                if c["pdu"] == "SIMPLE_TEXT_MESSAGE":
                    kw["encoding"] = TMSEncoding.UCS2_LE if c["encoding"] else None
                    kw["message"] = c["text"].encode("utf-16-le")
            return kw

        variants = {
            "TMS_ACKNOWLEDGEMENT": [dict(sn=v) for v in (None, 0, 5, 31, 32, 127)],
            "SERVICE_AVAILABILITY": [dict(cap=v) for v in (None, 0, 1, 2, 3)],
            "SIMPLE_TEXT_MESSAGE": [dict(sn=v, encoding=e, text="ahoj") for v in (0, 31, 32, 127) for e in (False, True)],
        }
        for pdu_name, vs in variants.items():
            for f in forms:
                for a in (False, True):
                    for r in (False, True):
                        for ad in (b"", b"\x01\x02\x03"):
                            base = dict(kind="tms", pdu=pdu_name, form=f, ack=a, reserved=r, address=ad)
                            for va, vb in itertools.permutations(vs, 2):
                                ca, cb = {**base, **va}, {**base, **vb}
                                case = {"first": {k: (v.hex() if isinstance(v, bytes) else v) for k, v in ca.items()},
                                        "second": {k: (v.hex() if isinstance(v, bytes) else v) for k, v in cb.items()}}
                                try:
                                    want_b = fresh_octets(cb)
                                    # (a) shared header object
                                    fh = header_for(ca)
                                    TextMessagingService(first_header=fh, **kwargs_for(ca)).as_bytes()
                                    got = bytes(TextMessagingService(first_header=fh, **kwargs_for(cb)).as_bytes())
                                    if got != want_b:
                                        s.violation("tms_octets_depend_on_what_the_header_object_was_used_for_before", {**case, "got": got.hex(), "want": want_b.hex()},
                                                    "a PDU built on a FirstHeader object that served another PDU before serialises differently from the same PDU on a fresh header")
                                    # (b) the PDU object edited in place
                                    pa = TextMessagingService(first_header=header_for(ca), **kwargs_for(ca))
                                    pa.as_bytes()
                                    for k_, v_ in kwargs_for(cb).items():
                                        setattr(pa, k_, v_)
                                    got = bytes(pa.as_bytes())
                                    if got != want_b:
                                        s.violation("tms_octets_stale_after_pdu_edited_in_place", {**case, "got": got.hex(), "want": want_b.hex()})
                                    # (c) the caller's own idea of has_more_headers does not leak into the wire
                                    got = bytes(TextMessagingService(first_header=header_for(cb, more=True), **kwargs_for(cb)).as_bytes())
                                    if got != want_b:
                                        s.violation("tms_octets_depend_on_callers_has_more_headers_flag", {**case, "got": got.hex(), "want": want_b.hex()})
                                    # (d) a failed serialisation before
                                    if pdu_name != "SERVICE_AVAILABILITY":
                                        fh = header_for(cb)
                                        pe = TextMessagingService(first_header=fh, **{**kwargs_for(cb), "sequence_number": 200})
                                        try:
                                            pe.as_bytes()
                                        except Exception:  # noqa: BLE001  (200 is outside the 7-bit range: any refusal is fine)
                                            pass
                                        got = bytes(TextMessagingService(first_header=fh, **kwargs_for(cb)).as_bytes())
                                        if got != want_b:
                                            s.violation("tms_octets_differ_after_an_earlier_serialisation_raised", {**case, "got": got.hex(), "want": want_b.hex()})
                                    # and the octets parse back
                                    back = TextMessagingService.from_bytes(want_b)
                                    if bytes(back.as_bytes()) != want_b:
                                        s.violation("tms_reserialised_octets_differ", case)
                                except Exception as e:  # noqa: BLE001
                                    s.violation("exception_tms_shared_objects:" + exc_sig(e), case, repr(e))
                                s.case(nontrivial=True, calls=9, outcome=pdu_name, sample=case if len(s.samples) < 1 else None)
        s.done()

    # ---- ARS ----
    if want("ars_registration"):
        ids = identifiers(T)
        s = rep.sub("ars_registration",
                    f"device / user registration x header form (2) x (acknowledged, priority, control) all 8 x CSBK trailer (2) x second header "
                    f"(absent, 3 events) x device id x user id x password over {len(ids)} identifiers each "
                    f"(UTF-8 lengths {sorted(set(len(i.encode()) for i in ids))}, multi-byte characters)"
                    + ("; plus every device-identifier length 0..255" if T else ""))
        heads = [(pdu, f, fl, csbk, ev) for pdu in ("DEVICE_REGISTRATION_REQUEST", "USER_REGISTRATION_REQUEST") for f in forms for fl in FLAGS3
                 for csbk in (False, True) for ev in (None, "DONT_CARE", "INITIAL", "REFRESH")]
        s.declared = len(heads) * len(ids) ** 3

        def w(task):
            pdu, f, (a, pr, ct), csbk, ev = task
            acc = Acc()
            for trip in itertools.product(ids, repeat=3):
                check_ars(acc, dict(kind="ars_registration", pdu=pdu, form=f, more=ev is not None, ack=a, priority=pr, control=ct, csbk=csbk, event=ev, ids=list(trip)),
                          sample=(trip == ("abc", "1", "") and ev == "INITIAL" and csbk and f == "enum" and a and pr and ct and pdu.startswith("DEVICE")))
            return acc

        for acc in par.pmap(w, heads, nw):
            s.merge(acc)
        if T:
            extra = [dict(kind="ars_registration", pdu="DEVICE_REGISTRATION_REQUEST", form="enum", more=True, ack=True, priority=True, control=True, csbk=csbk,
                          event="INITIAL", ids=["d" * n, "u", ""]) for n in range(256) for csbk in (False, True)]
            s.declared += len(extra)
            for c in extra:
                check_ars(s, c)
        # observation outside the statement: identifiers left at their default None are written as zero-length and read back as ""
        try:
            m = AutomaticRegistrationService(first_header=ARSFirstHeader(pdu_type=ARSPDUType.DEVICE_REGISTRATION_REQUEST), device_identifier="11")
            q = AutomaticRegistrationService.from_bytes(m.as_bytes())
            s.extra["observation_identifier_none_reads_back_as"] = repr([q.device_identifier, q.user_identifier, q.password])
        except Exception as e:
            s.extra["observation_identifier_none_reads_back_as"] = repr(e)
        s.done()

    if want("ars_response"):
        s = rep.sub("ars_response",
                    "acknowledgement (ARS_DEVICE_OR_QUERY_RESPONSE) x header form (2) x (acknowledged, priority, control) all 8 x CSBK trailer (2) x "
                    "second header: absent | every failure reason (acknowledged=1, the failure form) | every refresh time 1..127 (acknowledged=0)")
        cases = []
        for f in forms:
            for (a, pr, ct) in FLAGS3:
                for csbk in (False, True):
                    base = dict(kind="ars_response", pdu="ARS_DEVICE_OR_QUERY_RESPONSE", form=f, ack=a, priority=pr, control=ct, csbk=csbk)
                    cases.append({**base, "more": False, "failure": None, "refresh": None})
                    if a:
                        for fr in ARS_FAILURES:
                            cases.append({**base, "more": True, "failure": fr, "refresh": None})
                            cases.append({**base, "more": True, "failure": fr, "refresh": None, "ctx": "statement"})
                    else:
                        for rt in range(1, 128):
                            cases.append({**base, "more": True, "failure": None, "refresh": rt})
                        for rt in (1, 5, 64, 127):
                            for how in ("statement", "after"):
                                cases.append({**base, "more": True, "failure": None, "refresh": rt, "ctx": how})
        s.declared = len(cases)
        for n, c in enumerate(cases):
            check_ars(s, c, sample=(c["refresh"] == 1 and c["priority"] and c["control"] and not c["csbk"] and c["form"] == "enum"))
        # observation outside the statement: second header never bound to its first header
        try:
            fh = ARSFirstHeader(has_more_headers=True, pdu_type=ARSPDUType.ARS_DEVICE_OR_QUERY_RESPONSE)
            AutomaticRegistrationService(first_header=fh, response_second_header=ResponseSecondHeader(refresh_time=5)).as_bytes()
            s.extra["observation_refresh_header_without_context"] = "serialises"
        except Exception as e:
            s.extra["observation_refresh_header_without_context"] = repr(e)
        s.done()

    if want("ars_query_deregistration"):
        s = rep.sub("ars_query_deregistration", "status query and device de-registration x header form (2) x (acknowledged, priority, control) all 8 x CSBK trailer (2)")
        cases = [dict(kind="ars_plain", pdu=pdu, form=f, more=False, ack=a, priority=pr, control=ct, csbk=csbk)
                 for pdu in ("STATUS_QUERY_REQUEST", "DEVICE_DEREGISTATION_NOTICE") for f in forms for (a, pr, ct) in FLAGS3 for csbk in (False, True)]
        s.declared = len(cases)
        for n, c in enumerate(cases):
            check_ars(s, c, sample=(n == 3))
        s.done()

    if want("ars_unimplemented_types"):
        s = rep.sub("ars_unimplemented_types",
                    "user de-registration request and user registration response x flags x CSBK: the library announces them as not implemented "
                    "(ValueError) - recorded as domain restriction; if they serialise they must satisfy the same oracle")
        cases = [dict(kind="ars_unimplemented", pdu=pdu, form="enum", more=False, ack=a, priority=pr, control=ct, csbk=csbk)
                 for pdu in ("USER_DEREGISTRATION_REQUEST", "USER_REGISTRATION_RESPONSE") for (a, pr, ct) in FLAGS3 for csbk in (False, True)]
        s.declared = len(cases)
        for c in cases:
            check_ars(s, c)
        s.extra["domain_restriction"] = {str(k): v for k, v in s.outcomes.items()}
        s.done()

    rep.bounds = {
        "sequence_numbers": "all 0..127", "refresh_times": "all 1..127", "flags": "all combinations",
        "addresses": "all lengths 0..255 (thorough) / 0, 1, 3, 255 (quick), one content per length",
        "texts": "lengths 0..200 (all lengths in thorough for 4 sequence numbers), one content per length",
        "identifiers": "boundary alphabet, full cube over the three identifier fields",
        "not_covered": "little-endian `endian` argument; address/identifier contents beyond one per length; messages longer than 65535 octets; "
                       "parsing of foreign (non-self-produced) octets",
    }
    return rep.finish()


def replay(doc):
    acc = Acc()
    for c in doc.get("cases", []):
        c = dict(c)
        c.pop("octets", None)
        c.pop("decoded", None)
        c.pop("again", None)
        if isinstance(c.get("address"), str) and c["address"].startswith("hex:"):
            c["address"] = bytes.fromhex(c["address"][4:])
        if c.get("kind") == "tms":
            check_tms(acc, c)
        elif str(c.get("kind", "")).startswith("ars"):
            check_ars(acc, c)
        else:
            print("cannot replay", c)
    for sig, (cnt, cases, what) in acc.viol.items():
        print(f"still fails: {sig} x{cnt} {what}\n   {str(cases[0])[:400]}")
    if not acc.viol:
        print(f"replayed {acc.n} case(s): no violation")
    return 1 if acc.viol else 0

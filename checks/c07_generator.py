"""C07 -- a generated data transmission is received back as the same payload, checks ok.

Complete enumeration of a bounded configuration space (payload length x rate x confirmed x preamble
count x colour code x fill) through the real pipeline
    TransmissionGenerator.generate_full_data_transmission -> Burst.as_bytes -> Burst.from_bytes ->
    Terminal.process_incoming_burst (recording observer)
with the fragmentation arithmetic, pad count, CRC-32 and preamble count-down recomputed independently
in the harness (ETSI TS 102 361-1 clause 8.2.0 / table 8.1, B.3.9).
"""
from mc import env
from mc import par
from mc.report import Report, Acc, exc_sig
from mc.oracle import gf2

import contextlib
import io

from okdmr.dmrlib.etsi.layer2.burst import Burst
from okdmr.dmrlib.etsi.layer2.elements.burst_types import BurstTypes as _BT
from okdmr.dmrlib.etsi.layer2.elements.data_packet_formats import DataPacketFormats
from okdmr.dmrlib.etsi.layer2.elements.full_message_flag import FullMessageFlag
from okdmr.dmrlib.etsi.layer2.elements.resynchronize_flag import ResynchronizeFlag
from okdmr.dmrlib.etsi.layer2.elements.sap_identifier import SAPIdentifier
from okdmr.dmrlib.etsi.layer2.elements.csbk_opcodes import CsbkOpcodes
from okdmr.dmrlib.etsi.layer2.pdu.csbk import CSBK
from okdmr.dmrlib.etsi.layer2.pdu.data_header import DataHeader
from okdmr.dmrlib.etsi.layer2.pdu.rate12_data import Rate12Data
from okdmr.dmrlib.etsi.layer2.pdu.rate34_data import Rate34Data
from okdmr.dmrlib.etsi.layer2.pdu.rate1_data import Rate1Data
from okdmr.dmrlib.transmission.terminal import Terminal
from okdmr.dmrlib.transmission.transmission import Transmission
from okdmr.dmrlib.transmission.transmission_generator import TransmissionGenerator
from okdmr.dmrlib.transmission.transmission_observer_interface import TransmissionObserverInterface
from okdmr.dmrlib.transmission.transmission_types import TransmissionTypes

SEAMS = env.Seams()

RATES = {"r12": Rate12Data, "r34": Rate34Data, "r1": Rate1Data}
# ETSI TS 102 361-1 table 8.1: octets per data block (block, last block) -- harness transcription
OCTETS = {
    ("r1", True): (22, 18), ("r1", False): (24, 20),
    ("r12", True): (10, 6), ("r12", False): (12, 8),
    ("r34", True): (16, 12), ("r34", False): (18, 14),
}
CRC32_POLY = 0x104C11DB7


def ref_blocks_and_pad(rate, confirmed, length):
    opb, opl = OCTETS[(rate, confirmed)]
    n = 1
    while (n - 1) * opb + opl < length:
        n += 1
    return n, (n - 1) * opb + opl - length


def ref_crc32(data: bytes) -> int:
    """B.3.9 as the library documents it: octet pairs swapped, MSB first, plain remainder"""
    b = bytearray(data)
    for i in range(0, len(b) - 1, 2):
        b[i], b[i + 1] = b[i + 1], b[i]
    bits = "".join(format(x, "08b") for x in b)
    return gf2.crc_remainder(bits, CRC32_POLY)


def fill_bytes(kind, n):
    if kind == "counter":
        return bytes((i * 7 + 1) & 0xFF for i in range(n))
    if kind == "zero":
        return bytes(n)
    if kind == "ff":
        return b"\xff" * n
    return env.det_bytes("c07-" + kind, n)


from okdmr.dmrlib.utils.bytes_interface import BytesInterface  # noqa: E402


class _Payload(BytesInterface):
    def __init__(self, b):
        self.b = b

    def as_bytes(self, endian="big"):
        return self.b

    @staticmethod
    def from_bytes(data, endian="big"):
        return _Payload(data)


class Rec(TransmissionObserverInterface):
    def __init__(self):
        self.events = []

    def transmission_started(self, transmission_type):
        self.events.append(("started", transmission_type, None, None))

    def data_transmission_ended(self, transmission_header, blocks):
        self.events.append(("data_ended", None, transmission_header, list(blocks)))

    def voice_transmission_ended(self, voice_header, blocks):
        self.events.append(("voice_ended", None, voice_header, list(blocks)))


class ListRec(list, TransmissionObserverInterface):
    """an observer that *is* its event list (empty -- hence falsy -- until the first notification)"""

    @property
    def events(self):
        return self

    def transmission_started(self, transmission_type):
        self.append(("started", transmission_type, None, None))

    def data_transmission_ended(self, transmission_header, blocks):
        self.append(("data_ended", None, transmission_header, list(blocks)))

    def voice_transmission_ended(self, voice_header, blocks):
        self.append(("voice_ended", None, voice_header, list(blocks)))


class SinkRec(TransmissionObserverInterface):
    """an observer that writes into a list somebody else holds; nobody but the receiver holds the observer object itself"""

    def __init__(self, sink):
        self.sink = sink

    def transmission_started(self, transmission_type):
        self.sink.append(("started", transmission_type, None, None))

    def data_transmission_ended(self, transmission_header, blocks):
        self.sink.append(("data_ended", None, transmission_header, list(blocks)))

    def voice_transmission_ended(self, voice_header, blocks):
        self.sink.append(("voice_ended", None, voice_header, list(blocks)))


class FailingObserver(TransmissionObserverInterface):
    """a co-observer registered earlier that fails in every callback: the others must still be told"""

    def transmission_started(self, transmission_type):
        raise UnicodeDecodeError("utf-8", b"\xff", 0, 1, "observer failure")

    def data_transmission_ended(self, transmission_header, blocks):
        raise RuntimeError("observer failure")

    def voice_transmission_ended(self, voice_header, blocks):
        raise RuntimeError("observer failure")


class UnhashableFailingObserver(FailingObserver):
    """value equality, hence no hash (what every @dataclass observer is)"""

    def __eq__(self, other):
        return isinstance(other, UnhashableFailingObserver)

    __hash__ = None


class _Events:
    def __init__(self, sink):
        self.events = sink


def one_config(acc, cfg, shared=None):
    """shared: (terminal, recorder) to re-use instead of fresh ones"""
    rate, confirmed, length, k, cc, fill = cfg[:6]
    sapname = cfg[6] if len(cfg) > 6 else "ShortData"
    mode = cfg[7] if len(cfg) > 7 else "one_by_one"
    is_group, dst, src = cfg[8] if len(cfg) > 8 else (False, 2305678, 2301234)
    case = {"rate": rate, "confirmed": confirmed, "length": length, "preambles": k, "colour_code": cc, "fill": fill, "sap": sapname, "mode": mode}
    if len(cfg) > 8:
        case["header_addressing"] = {"is_group": is_group, "destination": dst, "source": src}
        case["cfg"] = [list(x) if isinstance(x, tuple) else x for x in cfg]
    payload = fill_bytes(fill, length)
    n_ref, pad_ref = ref_blocks_and_pad(rate, confirmed, length)
    if n_ref > 127 or pad_ref > 31:
        acc.case(nontrivial=False, outcome="not_representable")
        return
    cls = RATES[rate]
    calls = 0
    try:
        data_bursts, pad = TransmissionGenerator.generate_data_bursts(packet_type=cls, userdata=payload, colour_code=cc, is_confirmed=confirmed)
        if pad != pad_ref or len(data_bursts) != n_ref:
            acc.violation("fragmentation_arithmetic", {**case, "blocks": len(data_bursts), "pad": pad, "ref_blocks": n_ref, "ref_pad": pad_ref},
                          "number of blocks / pad octets differ from table 8.1 arithmetic")
        hdr = DataHeader(
            dpf=DataPacketFormats.DataPacketConfirmed if confirmed else DataPacketFormats.DataPacketUnconfirmed,
            is_group=is_group, is_response_requested=confirmed, pad_octet_count=pad, sap_identifier=SAPIdentifier[sapname],
            llid_destination=dst, llid_source=src, full_message_flag=FullMessageFlag.FirstTryToCompletePacket,
            blocks_to_follow=len(data_bursts), resynchronize_flag=ResynchronizeFlag.DoNotSync, send_sequence_number=0, fragment_sequence_number=8,
        )
        userdata = payload
        if (length + k) % 5 == 0:
            # the generator also accepts an object that serialises itself (BytesInterface)
            userdata = _Payload(payload)
        bursts = TransmissionGenerator.generate_full_data_transmission(packet_type=cls, userdata=userdata, data_header=hdr, csbk_count=k, colour_code=cc)
        raw = [b.as_bytes() for b in bursts]
        calls += 2 + len(raw)
    except Exception as e:  # noqa: BLE001
        acc.violation("exception_generating:" + exc_sig(e), case, repr(e))
        acc.case()
        return
    n = len(data_bursts)
    if len(raw) != k + 1 + n:
        acc.violation("wrong_number_of_bursts", {**case, "bursts": len(raw), "expected": k + 1 + n})
    if any(len(r) != 33 for r in raw):
        acc.violation("burst_not_33_bytes", case)
    if shared is None:
        rec = Rec()
        SEAMS.tok = 0
        term = Terminal(dmrid=1, observers=[rec])
    else:
        term, rec = shared
        rec.events = []
    final_tx = None
    try:
        with contextlib.redirect_stdout(io.StringIO()):
            if mode == "observer_held_only_by_the_receiver_after_a_failing_one":
                import gc
                sink = []
                final_tx = Transmission(FailingObserver())
                final_tx.add_observer(UnhashableFailingObserver())
                final_tx.add_observer(SinkRec(sink))
                gc.collect()
                rec = _Events(sink)
                for r in raw:
                    final_tx.process_packet(Burst.from_bytes(r))
                    calls += 2
            elif mode == "transmission_object_with_list_like_observer":
                # the receiving logic used directly (as the library's own tools do), with an observer object that is empty when handed over
                rec = ListRec()
                final_tx = Transmission(rec)
                for r in raw:
                    final_tx.process_packet(Burst.from_bytes(r))
                    calls += 2
            elif mode == "one_by_one":
                for r in raw:
                    term.process_incoming_burst(Burst.from_bytes(r), 1)
                    calls += 2
            elif mode == "reused_receive_buffer":
                # a recv_into()-style reader: every burst arrives in the same bytearray, is parsed at once and queued; the buffer
                # holds other octets by the time the queue is drained (a parsed burst must own its bits)
                buf = bytearray(33)
                parsed_all = []
                for r in raw:
                    buf[:] = r
                    parsed_all.append(Burst.from_bytes(buf))
                buf[:] = b"\xa5" * 33
                for pb in parsed_all:
                    term.process_incoming_burst(pb, 1)
                calls += 2 * len(raw)
            else:  # the whole recording is parsed first, then fed (parsed bursts must not share decoder state)
                parsed_all = [Burst.from_bytes(r) for r in raw]
                for pb in parsed_all:
                    term.process_incoming_burst(pb, 1)
                calls += 2 * len(raw)
    except Exception as e:  # noqa: BLE001
        acc.violation("exception_receiving:" + exc_sig(e), case, repr(e))
        acc.case(calls=calls)
        return
    kinds = [e[0] for e in rec.events]
    if kinds != ["started", "data_ended"] or rec.events[0][1] != TransmissionTypes.DataTransmission:
        acc.violation("not_exactly_one_started_and_one_data_ended", {**case, "events": kinds},
                      "receiver did not deliver exactly one 'started' and one 'data ended'")
        acc.case(calls=calls, outcome=tuple(kinds))
        return
    _, _, got_hdr, blocks = rec.events[1]
    if not isinstance(got_hdr, DataHeader) or got_hdr.as_bits() != hdr.as_bits():
        acc.violation("handed_over_header_differs", case)
    csbks = [b for b in blocks if isinstance(b, CSBK)]
    hdrs = [b for b in blocks if isinstance(b, DataHeader)]
    datas = [b for b in blocks if isinstance(b, cls)]
    if len(blocks) != k + 1 + n or len(csbks) != k or len(hdrs) != 1 or len(datas) != n:
        acc.violation("handed_over_blocks_count", {**case, "blocks": [type(b).__name__ for b in blocks][:40]})
    # preamble count-down: blocks-to-follow of the i-th of k preambles == bursts that follow it
    want_btf = [n + 1 + (k - 1 - i) for i in range(k)]
    got_btf = [c.blocks_to_follow for c in csbks]
    if got_btf != want_btf or any(c.csbko != CsbkOpcodes.PreambleCSBK for c in csbks):
        acc.violation("preamble_countdown", {**case, "got": got_btf, "want": want_btf}, "preamble CSBKs do not count down to header + data blocks")
    user = b"".join(b.data for b in datas)
    if len(user) != length + pad_ref or user[:length] != payload:
        acc.violation("payload_not_recovered", {**case, "received_octets": len(user), "expected_octets": length + pad_ref},
                      "concatenated block data is not payload + announced pad octets")
    if got_hdr is not None and getattr(got_hdr, "pad_octet_count", None) != pad_ref:
        acc.violation("header_pad_octet_count", {**case, "announced": getattr(got_hdr, "pad_octet_count", None), "ref": pad_ref})
    if datas:
        last = datas[-1]
        crc_onair = last.crc32.to_bytes(4, "big")
        got_crc = int.from_bytes(crc_onair, "little")
        want_crc = ref_crc32(user)
        if got_crc != want_crc:
            acc.violation("trailing_crc32_mismatch", {**case, "got": hex(got_crc), "want": hex(want_crc)}, "CRC-32 in the last block does not match the received data")
        if not last.is_last_block() or any(d.is_last_block() for d in datas[:-1]):
            acc.violation("last_block_typing", case)
        if confirmed:
            bad = [i for i, d in enumerate(datas) if not d.crc9_ok]
            if bad:
                where = "last" if bad == [len(datas) - 1] else ("non_last" if (len(datas) - 1) not in bad else "both")
                acc.violation("confirmed_block_crc9_invalid_" + where, {**case, "blocks": bad[:10], "of": len(datas)},
                              "a confirmed block the generator emitted reports an invalid CRC-9 at the library's own receiver")
            if any(not d.is_confirmed() for d in datas):
                acc.violation("confirmed_block_typing", case)
    ts = final_tx if final_tx is not None else term.timeslots[1].transmission
    if ts.type != TransmissionTypes.Idle:
        acc.violation("tracker_not_idle_afterwards", case)
    acc.case(nontrivial=True, calls=calls, outcome=(rate, confirmed, n), sample=case if length in (0, 37) and k == 1 else None)


def worker(cfgs):
    acc = Acc()
    for cfg in cfgs:
        try:
            one_config(acc, cfg)
        except Exception as e:  # noqa: BLE001  (checker-side failure must not hide a verdict)
            acc.violation("exception_in_pipeline:" + exc_sig(e), {"cfg": list(cfg)}, repr(e))
            acc.case()
    return acc


def reuse_pool():
    """configurations for the back-to-back runs: every rate and mode, lengths at and around block boundaries, with and without
    preambles, two feeding modes, two service access points"""
    pool = []
    for ri, (r, c) in enumerate([(r, c) for r in ("r12", "r34", "r1") for c in (False, True)]):
        opb, opl = OCTETS[(r, c)]
        pool.append((r, c, 0, 0, 1, "counter", "ShortData", "one_by_one"))
        pool.append((r, c, opl + opb + 1, 2, 1, "seed", "ShortData", "parse_all_then_feed" if ri % 2 else "reused_receive_buffer"))
        pool.append((r, c, 3 * opb + opl, 1, 15, "ff", "UDP_IP_compression" if ri % 2 else "ShortData", "one_by_one"))
    return pool


def worker_pairs(pairs):
    acc = Acc()
    for a, b in pairs:
        try:
            rec = Rec()
            SEAMS.tok = 0
            term = Terminal(dmrid=1, observers=[rec])
            first = Acc()
            one_config(first, a, shared=(term, rec))
            second = Acc()
            one_config(second, b, shared=(term, rec))
            for sig, v in second.viol.items():
                acc.violation("second_transmission_on_the_same_terminal:" + sig, {"first": list(a), "second": list(b), "detail": (v[1] or [None])[0]},
                              "a transmission received on a terminal that has already received another one: " + (v[2] or ""))
            acc.case(nontrivial=True, calls=first.calls + second.calls, outcome=(a[0], b[0], a[1], b[1]), sample={"first": list(a), "second": list(b)} if len(acc.samples) < 1 else None)
        except Exception as e:  # noqa: BLE001
            acc.violation("exception_in_pipeline:" + exc_sig(e), {"first": list(a), "second": list(b)}, repr(e))
            acc.case()
    return acc


def prehistories():
    """(name, [33-byte bursts]) - bursts on the air before our transmission that are not part of it"""
    from mc import bursts as B
    from okdmr.dmrlib.etsi.layer2.elements.data_types import DataTypes
    from bitarray import bitarray

    vh = B.data_burst_bytes(B.flc_group(), DataTypes.VoiceLCHeader)
    vt = B.data_burst_bytes(B.flc_group(terminator=True), DataTypes.TerminatorWithLC)
    vs = (B.voice_sync_bits(bitarray("10" * 108)).tobytes(), "voice")
    stray = {}
    for r in ("r12", "r34", "r1"):
        db, _ = TransmissionGenerator.generate_data_bursts(packet_type=RATES[r], userdata=fill_bytes("seed", 40), colour_code=1, is_confirmed=False)
        stray[r] = [b.as_bytes() for b in db]
    yield "lone_voice_terminator", [vt]
    yield "two_voice_terminators", [vt, vt]
    yield "voice_header_then_terminator", [vh, vt]
    yield "voice_call", [vh, vs, vt]
    yield "headerless_rate12_blocks", stray["r12"][:2]
    yield "headerless_rate34_block", stray["r34"][:1]
    yield "headerless_rate1_blocks_then_terminator", stray["r1"][:2] + [vt]
    yield "terminator_then_headerless_block", [vt, stray["r12"][0]]
    yield "voice_call_then_headerless_blocks", [vh, vs, vt] + stray["r34"][:2]


def worker_prehistory(tasks):
    acc = Acc()
    pres = dict(prehistories())
    for pn, cfg in tasks:
        try:
            rec = Rec()
            SEAMS.tok = 0
            term = Terminal(dmrid=1, observers=[rec])
            try:
                with contextlib.redirect_stdout(io.StringIO()):
                    for raw in pres[pn]:
                        if isinstance(raw, tuple):  # a voice burst: the caller says so (vocoder frames carry no slot type)
                            term.process_incoming_burst(Burst.from_bytes(raw[0], burst_type=_BT.Vocoder), 1)
                        else:
                            term.process_incoming_burst(Burst.from_bytes(raw), 1)
            except Exception as e:  # noqa: BLE001  (C08's subject; here it only means the prehistory could not be played)
                acc.case(nontrivial=False, outcome="prehistory_raises")
                continue
            opened = sum(1 for e in rec.events if e[0] == "started")
            closed = sum(1 for e in rec.events if e[0] in ("data_ended", "voice_ended"))
            if opened != closed:
                acc.case(nontrivial=False, outcome="prehistory_leaves_a_transmission_open")
                continue
            second = Acc()
            one_config(second, cfg, shared=(term, rec))
            for sig, v in second.viol.items():
                acc.violation("transmission_after_stray_bursts_on_the_same_terminal:" + sig, {"prehistory": pn, "cfg": list(cfg), "detail": (v[1] or [None])[0]},
                              "a generated transmission received by a terminal that heard bursts of no transmission before: " + (v[2] or ""))
            acc.case(nontrivial=True, calls=second.calls + len(pres[pn]), outcome=(pn, cfg[0], cfg[1]), sample={"prehistory": pn, "cfg": list(cfg)} if len(acc.samples) < 1 else None)
        except Exception as e:  # noqa: BLE001
            acc.violation("exception_in_pipeline:" + exc_sig(e), {"prehistory": pn, "cfg": list(cfg)}, repr(e))
            acc.case()
    return acc


def boundary_lengths(max_len):
    out = set([0, 1, 2])
    for (rate, conf), (opb, opl) in OCTETS.items():
        for nb in range(1, 9):
            edge = (nb - 1) * opb + opl
            for d in (-1, 0, 1):
                if 0 <= edge + d <= max_len:
                    out.add(edge + d)
    return sorted(out)


def build_space(thorough):
    cfgs = []
    seen = set()

    def add(c):
        if c not in seen:
            seen.add(c)
            cfgs.append(c)

    max_len = 1500 if thorough else 100
    rc = [(r, c) for r in ("r12", "r34", "r1") for c in (False, True)]
    # (a) every payload length, every rate, both confirmation modes, one preamble, counter fill; the three feeding modes rotate with the length
    modes = ("one_by_one", "parse_all_then_feed", "reused_receive_buffer")
    for ri, (r, c) in enumerate(rc):
        for length in range(0, 41 if not thorough else 121):
            add((r, c, length, 1 + (length % 2), 1, "counter", "ShortData", "transmission_object_with_list_like_observer"))
            add((r, c, length, length % 3, 1, "counter", "ShortData", "observer_held_only_by_the_receiver_after_a_failing_one"))
        for length in range(0, max_len + 1):
            add((r, c, length, 1, 1, "counter", "ShortData", modes[(length + ri) % 3]))
        for length in range(0, 41 if not thorough else 121):
            add((r, c, length, 1, 1, "counter", "ShortData", modes[(length + ri + 1) % 3]))
            add((r, c, length, 1, 1, "counter", "ShortData", modes[(length + ri + 2) % 3]))
    # (a2) every service access point the header can announce x short payloads (receiver-side decoding keyed on the SAP)
    for r, c in rc:
        for sap in ("UDT", "TCP_IP_compression", "UDP_IP_compression", "IP_PacketData", "ARP", "Proprietary", "ShortData"):
            for length in (range(0, 13) if not thorough else range(0, 41)):
                add((r, c, length, (length % 3), 1, "counter" if length % 2 else "zero", sap, "one_by_one"))
    bl = boundary_lengths(70 if not thorough else 200)
    # (b) preamble counts x block-boundary lengths
    for r, c in rc:
        for length in bl:
            for k in (range(0, 17) if thorough else (0, 2, 3, 16)):
                add((r, c, length, k, 1, "counter"))
    # (c) colour codes and fills on the boundary lengths
    for r, c in rc:
        for length in bl:
            for cc in (range(16) if thorough else (0, 15)):
                add((r, c, length, 1, cc, "counter"))
            for fill in ("zero", "ff", "seed"):
                add((r, c, length, 1, 1, fill))
    # (d) extremes: the largest representable transmissions (127 / 126 data blocks) with several preamble counts, so that
    #     counters near their field limits (7-bit blocks-to-follow, 8-bit preamble count-down) are reached in every tier
    for r, c in rc:
        opb, opl = OCTETS[(r, c)]
        for n in (127, 126):
            length = (n - 1) * opb + opl
            for k in ((0, 1, 2, 16) if not thorough else range(0, 17)):
                add((r, c, length, k, 1, "counter"))
            add((r, c, length - 1, 1, 1, "seed"))
    return cfgs, max_len


def run(only=None):
    rep = Report("C07")
    env.import_all_okdmr()
    SEAMS.install()
    cfgs, max_len = build_space(rep.thorough())
    rep.explanation = (
        "Every configuration of the stated finite space is pushed through the real generator, serialised to bytes, parsed and fed "
        "to a real Terminal with a recording observer (a single-path explicit-state run per configuration; state = one configuration, "
        "transition = one real library call). Oracle arithmetic (blocks, pad, CRC-32, count-down) is recomputed in the harness."
    )
    rep.assumptions = [
        "table 8.1 octets-per-block transcribed in the harness; CRC-32 per B.3.9 (pair swap, MSB first, plain remainder, stored little-endian on air)",
        "configurations needing more than 127 blocks (7-bit blocks-to-follow) or more than 31 pad octets are not representable in the header and are skipped (counted as trivial)",
        "header fields other than pad count / blocks-to-follow / response-requested are fixed",
    ]
    s = rep.sub("generate_transmit_receive", rule=f"all payload lengths 0..{max_len} x 3 rates x confirmed/unconfirmed (1 preamble) + block-boundary lengths x preamble counts "
                                                  "x colour codes x fills; non-trivial: every representable configuration (distinct by construction)")
    s.declared = len(cfgs)
    # interleave so that chunks have similar cost
    chunks = [cfgs[i::256] for i in range(256)]
    for acc in par.pmap(worker, [c for c in chunks if c]):
        s.merge(acc)
    s.done()
    # state carried by the receiving objects from one transmission to the next
    pool = reuse_pool()
    pairs = [(a, b) for a in pool for b in pool]
    s = rep.sub("two_transmissions_back_to_back_on_one_terminal",
                f"all {len(pool)}^2 ordered pairs over {len(pool)} configurations (every rate and mode, block-boundary lengths, 0..2 preambles, three feeding modes) "
                "received one after the other by the same Terminal object: the second transmission meets every obligation of the statement as if it were the first")
    s.declared = len(pairs)
    for acc in par.pmap(worker_pairs, par.split_list(pairs, 64)):
        s.merge(acc)
    s.done()
    # header fields the generator copies nowhere else: addressing (group / individual, the two link-layer ids)
    addr = [(g, d, a) for g in (False, True) for d, a in ((2305678, 2301234), (1, 0xFFFFFE), (0xFFFFFF, 1), (5, 5), (0xFFFFFE, 0x800000))]  # 24-bit ids; 0 (the null address) is left out
    acfgs = []
    for r, c in [(r, c) for r in ("r12", "r34", "r1") for c in (False, True)]:
        opb, opl = OCTETS[(r, c)]
        for length in (0, opl + opb):
            for k in (0, 1, 3):
                for ad in addr:
                    acfgs.append((r, c, length, k, 1, "counter", "ShortData", "one_by_one", ad))
    s = rep.sub("header_addressing_variants",
                f"{len(acfgs)} configurations: every rate and mode x 2 lengths x 0/1/3 preambles x group / individual header x 5 (destination, source) pairs incl. the "
                "extremes: the same obligations (one started, one data ended, header handed over unchanged, payload, CRC-32, count-down)")
    s.declared = len(acfgs)
    for acc in par.pmap(worker, par.split_list(acfgs, 64)):
        s.merge(acc)
    s.done()
    # stray bursts before the transmission, on the same terminal
    pres = list(prehistories())
    scfgs = reuse_pool()
    s = rep.sub("after_stray_bursts_on_the_same_terminal",
                f"{len(pres)} prehistories of bursts that belong to no transmission of ours (a lone voice terminator, a voice header + terminator, data blocks whose header was "
                f"never heard, a whole earlier voice call, mixtures) x {len(scfgs)} configurations on one Terminal: whenever the prehistory left no transmission open "
                "(as many 'ended' as 'started' notifications), the generated transmission that follows meets every obligation as if it were the first")
    tasks = [(pn, cfg) for pn, _ in pres for cfg in scfgs]
    s.declared = len(tasks)
    for acc in par.pmap(worker_prehistory, par.split_list(tasks, 64)):
        s.merge(acc)
    s.done()
    rep.bounds = {"max_payload_length": max_len, "configurations": len(cfgs), "back_to_back_pairs": len(pairs), "addressing_variants": len(acfgs), "prehistory_runs": len(tasks)}
    return rep.finish()


def replay(doc):
    env.import_all_okdmr()
    SEAMS.install()
    bad = 0
    for c in doc.get("cases", []):
        if "prehistory" in c:
            acc = worker_prehistory([(c["prehistory"], tuple(tuple(x) if isinstance(x, list) else x for x in c["cfg"]))])
            print("  after", c["prehistory"], c["cfg"], "->", {k: v[0] for k, v in acc.viol.items()} or "ok")
            bad += len(acc.viol)
            continue
        if "cfg" in c:
            cfg = tuple(tuple(x) if isinstance(x, list) else x for x in c["cfg"])
        else:
            cfg = (c["rate"], c["confirmed"], c["length"], c["preambles"], c["colour_code"], c["fill"], c.get("sap", "ShortData"), c.get("mode", "one_by_one"))
        acc = Acc()
        one_config(acc, cfg)
        print("  ", cfg, "->", {k: v[0] for k, v in acc.viol.items()} or "ok")
        bad += len(acc.viol)
    print("replay:", "still fails" if bad else "does not reproduce")
    return 1 if bad else 0

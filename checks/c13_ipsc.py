"""C13 -- Hytera IP Site Connect frames: both decoders agree and the frame re-encodes.

Technique: complete enumeration of bounded spaces of 72-byte frames *built by the harness from a
field vector* according to the byte layout of ip_site_connect_protocol.ksy (okdmr.kaitai package,
independent of the library under test), decoded by the two library paths
    Burst.from_hytera_ipsc(frame_bytes)                              (hand-written offsets)
    Burst.from_hytera_ipsc(IpSiteConnectProtocol.from_bytes(frame))  (generic parser object)
and serialised again with HyteraIPSC.as_ipsc_bytes().

Layout used by the reference builder (offset: field):
  0-1 source port (free) | 2-3 0x5A5A | 4 sequence | 5-7 reserved | 8 packet type | 9-15 reserved |
  16-17 timeslot (0x1111/0x2222) | 18-19 slot type (nibble repeated 4x) | 20-21 colour code (cc*0x11 twice) |
  22-23 frame type | 24-25 reserved | 26-59 payload: the 33 burst bytes with every 16-bit word byte-swapped,
  byte 58 = filler, byte 59 = burst byte 32 | 60-61 reserved | 62 call type | 63 0x00, 64-66 destination id
  little-endian | 67 0x00, 68-70 source id little-endian | 71 reserved.
The builder is validated on the 46 frames captured in the repository tests (parse with the reference
walker, rebuild, compare; field values compared with the kaitai parser's).

Domain: the wake-up call types 0x02 / 0x0C are enumerated only together with the wake-up slot type (a wake-up
call announced around a DMR burst gives contradictory indications: the library raises the same error on both
paths, the payload does not "parse as the indicated kind"); the filler byte 58 is enumerated over {00,01,ef,ff}.

Payloads "parse as the indicated burst kind": captured 33-byte bursts per slot type, their voice bits
replaced by seeded bits (voice), and their colour code rewritten by the harness (slot type Golay(20,8) /
EMB QR(16,7) codewords from mc.oracle.gf2) so that header and payload colour agree. Preconditions are
asserted on the payloads (library parse gives the indicated data type) and count as checker errors.

Oracle: same class, payload bits (full_bits and as_bits), timeslot, sequence number, frame colour
code, source / destination ids on both paths, equal to the field vector; as_ipsc_bytes() == frame on both.
"""
from mc import env  # noqa: F401  (must be first)
from mc import par, spaces
from mc.report import Report, Acc, exc_sig
from mc.hist import scramble, observe as _observe
import contextlib
import io
_DEVNULL = io.StringIO()
from mc.oracle import gf2

import itertools

from okdmr.kaitai.hytera.ip_site_connect_protocol import IpSiteConnectProtocol
from okdmr.dmrlib.etsi.layer2.burst import Burst
from okdmr.dmrlib.etsi.layer2.elements.burst_types import BurstTypes
from okdmr.dmrlib.hytera.hytera_ipsc import HyteraIPSC

# ---------------------------------------------------------------------------------------------
# captured frames (okdmr/tests/dmrlib/**: test_burst.py, test_hytera_ipsc.py, test_transmission.py ...)
# ---------------------------------------------------------------------------------------------
CAPTURED = [
    "5a5a5a5a0000000042000501020000002222eeee555533334000bd0000008000150000000800fd00230038003b0038003b00b41200447eb7ffffef0844400000fd0800003b382300",
    "5a5a5a5a0000000042000501020000002222dddd555500004000000000000000000000000000020002000000000000000000000000000000b2dd503250380c00000014000000ff01",
    "5a5a5a5a0300000041000501020000002222999911110000100038d424a26d410436c0dda2f46165307000904607a54d4715ff8e3685dd23255501e3000001000900000022072800",
    "5a5a5a5a8f00000043000501020000002222222255550000409c5e06ca0ac804e823d04aa04b9d1457ff5dd7dff52001600d7039003cc12d031c003cca0a01006f0000003c382300",
    "5a5a5a5a0000000042000501020000002222eeee11111111402800000000000000000000090028000700220068291110c8291110282a1110801d0067080901000900000022072800",
    "5a5a5a5aff00000041000501020000002222bbbb1111000040548adb76e648040a81cad1c5ba0176635063f37200816df708c868af68a235db99008e76e601000900000022072800",
    "5a5a5a5a0001000041000501020000002222cccc111100004006b83a07c49456750ece2681f6413100100000250e1c20ff8689eb34e57f442cc500f607c401000900000022072800",
    "5a5a5a5afb0000004100050102000000222277771111000040569bec50c139eee49d9eeae5fba716fd55f77d735f89eb6e689fea30a64bc52248002e50c101000900000022072800",
    "5a5a5a5ad40100004100050102000000222211111111000040f08047a3158e16287641f422596dc457ff5dd7def548310023e03c002e5124042a00fba315000075d40300a9352600",
    "5a5a5a5ad6010000410005010200000022227777111100004013e8b9528173612a00b96b81e86752fd55f77d715f00736b2ae8b9528173612a00006b5281000075d40300a9352600",
    "5a5a5a5add0100004100050102000000222288881111000040449eec52e0d60074d5ec1de09e01521032220111d9d5d61d749eec52e0d60174d5001d52e0000075d40300a9352600",
    "5a5a5a5adc0100004100050102000000222277771111000040568efd52e0d60075c5fd0de08e0752fd55f77d705fd5d61d759eec52e0d60174d5001d52e0000075d40300a9352600",
    "5a5a5a5adb01000041000501020000002222cccc111100004006dc8c16e4574cb8c4dfddc3ae417600100000260ec5f60d75aedf76c3f64675c5000d16e4000075d40300a9352600",
    "5a5a5a5ad22b00004100050102000000222244445555000040950a391d32802bb93b9221c163bd1557ff5dd7d5f52d5c5211f0218729d34aaa06006d1d3200003b38230063382300",
    "5a5a5a5a872a00004100050102000000222244445555000040910f39d932282ba139b224016ebd1557ff5dd7d5f5105c9a1132208b2d1b43aa0c006bd93200003b38230063382300",
    "5a5a5a5a862a00004100050102000000222266665555000040b02f25b5e2b622e2f2d276e5320d9657ff5dd7dcf51fe3a1ef2f2202032df2207200e2b5e20000633823003b382300",
    "5a5a5a5a852a00004100050102000000222244445555000040903b3141203d2865701a3761f6bd1557ff5dd7d5f5185cde1de0314f24db13ba15002141200000633823003b382300",
    "5a5a5a5a02e0000001000501020000002222222211110000405c7b168990007cb99b434101430d847f5dfd777d756b9de0513022c7ca1f0194140000630201000900000022072800",
    "5a5a5a5a570300004100050102000000222233335555000040f5c545f705e8bd0c26080850b4fd9457ff5dd7dcf5e6ae3877796501781fbb1a330046f7050000fc372300fe372300",
    "5a5a5a5a50030000410005010200000022224444555500004091613a89349c25697b03a66368bd5557ff5dd7d5f5785db87af534662b1d4a3794000989340000fc372300fe372300",
    "5a5a5a5a0d05000041000501020000002222777755550000401382a900c0a043ce88a4ee83f82770fd55f77d775fca2cc4aec5e043821a3162c2004200c001006f000000fc372300",
    "5a5a5a5a0e05000041000501020000002222888855550000405039d447807d326646b3e88005352530200230f4885a4c48c824a101825937a85a006a478001006f000000fc372300",
    "5a5a5a5a0f05000041000501020000002222999955550000407775dc07c518074810ef0ee74405069a600850a2164238080c2882e8cc5c3764f200ce07c501006f000000fc372300",
    "5a5a5a5a1005000041000501020000002222aaaa555500004033738fc8529055805a9cca706335cc0160a010a5c64bb4ca804aaf12a2d4c4c4f500aac85201006f000000fc372300",
    "5a5a5a5a1105000041000501020000002222bbbb55550000402194aa9ed656db622cc12234cff55331432be89bd127e946e221e84027e4ed622e00629ed601006f000000fc372300",
    "5a5a5a5a1205000041000501020000002222cccc55550000405303c82326d1ed005fce062125a512c10964d1cb3f5b4dea0a24ce12205dbb2a4800ea232601006f000000fc372300",
    "5a5a5a5a0000000042000501010000001111eeee555511114028000000000000000000006f0023003700fa00342a2c10942a2c10f42a2c10835600f0360801006f000000fa372300",
    "5a5a5a5a0000000042000501010000001111eeee5555eeee40000500000000005000000046000000410000004100000000000024000000000000b543000001006f000000fa372300",
    "5a5a5a5a0000000042000501010000001111dddd555500004000000000000000000000000100020002000100000000000000000000000000ffffef082a00000000000000fb372300",
    "5a5a5a5a0000000042000501020000002222dddd555500004000000000000000000000000100020002000100000000000000000000000000ffffef082a00000000000000fb372300",
    "5a5a5a5a0000000042000501010000001111dddd555500004000000000000000000000000100020002000100000000000000000000000000ffffef082a0000000000000000000000",
    "5a5a5a5a0000000042000501020000002222dddd555500004000000000000000000000000100020002000100000000000000000000000000ffffef0891d1000000000000fa372300",
    "5a5a5a5a660000004100050101000000111111111111000040b951018849a00b381b4016806c6dc457ff5dd7def5993218016020a005412310390033884901000900000022072800",
    "5a5a5a5a670000004100050101000000111111111111000040b951018849a00b381b4016806c6dc457ff5dd7def5993218016020a005412310390033884901000900000022072800",
    "5a5a5a5a690000004100050101000000111100001111000040905b1219a4cc30a1d92317220a0d8457ff5dd7ddf53f9dc071c040a5085f0b1d1c001919a401000900000022072800",
    "5a5a5a5a0000000042000501010000001111eeee11111111400000001000400000000000090028000700220000000000000000000000000030305032503801000900000022072800",
    "5a5a5a5a2003000041000501020000002222777755550000807325ef402209df1b7f9caf6575e774fd55f77d795f9f41364a68ca604641ec96a400b3402201006f000000fa372300",
    "5a5a5a5a610400004100050102000000222211115555000040b970078009fc078821205220655d5457ff5dd7d8f57854d004d03e003e012a036500f3800901006f000000fc372300",
    "5a5a5a5a6204000041000501020000002222777755550000401a4abacd1c74706c3af98a7a2957affd55f77d735f8e1e002cd30912a74156e68600c0cd1c01006f000000fc372300",
    "5a5a5a5a63040000410005010200000022228888555500004031369242a379718a59ca2ad74055daa020f030f3f889fe8a6c99d641c55111ae3b000a42a301006f000000fc372300",
    "5a5a5a5a64040000410005010200000022229999555500004003ce9167a6a153e49cf648c7997505a06060a0a0667e356eca60c823c0d0234000008267a601006f000000fc372300",
    "5a5a5a5a6504000041000501020000002222aaaa555500004007858e30e61d73a2dfce6481d4557591607042a5c60e53cea2968c11c71833e4df004430e601006f000000fc372300",
    "5a5a5a5a6604000041000501020000002222bbbb55550000401568bb16c47955c40abc8ce05e15362341b35290312a9400c829076d9b5157e290008416c401006f000000fc372300",
    "5a5a5a5a6704000041000501020000002222cccc55550000401325b026a21c13ca5ee10cc5467522c10964d1c13fde50a2ae37b024a23c33ee59000826a201006f000000fc372300",
    "5a5a5a5ab00400004300050102000000222222225555000040b91f0754094c07f021505280659d5457ff5dd7dff56c01e807b03940320122037c00c0540901006f000000fc372300",
    "5a5a5a5a0c01000041000501020000002222cccc1111000040430dfd63c51649510c98c3c4101132001000002c0e732111ad6ca004a3317cf40400c063c501000900000022072800",
]
# a rate 1/2 data burst (33 bytes) from the MMDVM capture in test_burst.py (no IPSC capture carries one)
RATE12_BURST = "117b3090722540f9233581a285ed5d7f77fd75709464602846c3022109c3050079"

# ---------------------------------------------------------------------------------------------
# reference layout
# ---------------------------------------------------------------------------------------------
SLOT_NAMES = {
    0x0: "PrivacyIndicator",
    0x1: "VoiceLCHeader",
    0x2: "TerminatorWithLC",
    0x3: "CSBK",
    0x4: "DataHeader",
    0x5: "Rate12Data",
    0x6: "Rate34Data",
    0x7: "VoiceFrameA",
    0x8: "VoiceFrameB",
    0x9: "VoiceFrameC",
    0xA: "VoiceFrameD",
    0xB: "VoiceFrameE",
    0xC: "VoiceFrameF",
    0xD: "Wakeup",
    0xE: "VoiceOrDataSync",
}
# IPSC slot type nibble -> ETSI data type carried in the burst's own slot type (TS 102 361-1 table 6.1)
SLOT_TO_DT = {0x0: 0, 0x1: 1, 0x2: 2, 0x3: 3, 0x4: 6, 0x5: 7, 0x6: 8}
DT_NAMES = {0: "PIHeader", 1: "VoiceLCHeader", 2: "TerminatorWithLC", 3: "CSBK", 6: "DataHeader", 7: "Rate12Data", 8: "Rate34Data"}
PACKET_TYPES = [0x41, 0x42, 0x43, 0x01]
FRAME_TYPES = [0x0000, 0x1111, 0x3333, 0x6666, 0xBBBB, 0xEEEE]
CALL_TYPES = [0x00, 0x01, 0x02, 0x0C]
WAKEUP_CALLS = (0x02, 0x0C)

SEGMENTS = [
    ("first_header", 0, 2),
    ("fixed_header", 2, 4),
    ("sequence", 4, 5),
    ("reserved_3", 5, 8),
    ("packet_type", 8, 9),
    ("reserved_7a", 9, 16),
    ("timeslot", 16, 18),
    ("slot_type", 18, 20),
    ("colour_code", 20, 22),
    ("frame_type", 22, 24),
    ("reserved_2a", 24, 26),
    ("payload", 26, 58),
    ("payload_filler_byte", 58, 59),
    ("payload_last_byte", 59, 60),
    ("reserved_2b", 60, 62),
    ("call_type", 62, 63),
    ("destination_id", 63, 67),
    ("source_id", 67, 71),
    ("reserved_1", 71, 72),
]


def swap_words(burst33: bytes, filler: int) -> bytes:
    w = bytearray(34)
    for k in range(16):
        w[2 * k] = burst33[2 * k + 1]
        w[2 * k + 1] = burst33[2 * k]
    w[32] = filler
    w[33] = burst33[32]
    return bytes(w)


def unswap_words(wire34: bytes):
    b = bytearray(33)
    for k in range(16):
        b[2 * k] = wire34[2 * k + 1]
        b[2 * k + 1] = wire34[2 * k]
    b[32] = wire34[33]
    return bytes(b), wire34[32]


def build_frame(fv) -> bytes:
    return (
        bytes.fromhex(fv["first_header"])
        + b"\x5a\x5a"
        + bytes([fv["sequence"]])
        + bytes.fromhex(fv["reserved_3"])
        + bytes([fv["packet_type"]])
        + bytes.fromhex(fv["reserved_7a"])
        + bytes([0x11 * fv["timeslot"]] * 2)
        + bytes([0x11 * fv["slot"]] * 2)
        + bytes([0x11 * fv["cc"]] * 2)
        + fv["frame_type"].to_bytes(2, "big")
        + bytes.fromhex(fv["reserved_2a"])
        + swap_words(bytes.fromhex(fv["burst"]), fv["filler"])
        + bytes.fromhex(fv["reserved_2b"])
        + bytes([fv["call_type"]])
        + b"\x00"
        + fv["dst"].to_bytes(3, "little")
        + b"\x00"
        + fv["src"].to_bytes(3, "little")
        + bytes.fromhex(fv["reserved_1"])
    )


def walk_frame(fr: bytes):
    """inverse of build_frame; None if the frame is outside the well-formed domain"""
    if len(fr) != 72 or fr[2:4] != b"ZZ":
        return None
    if fr[16] != fr[17] or fr[16] not in (0x11, 0x22):
        return None
    if fr[18] != fr[19] or (fr[18] >> 4) != (fr[18] & 15) or (fr[18] >> 4) not in SLOT_NAMES:
        return None
    if fr[20] != fr[21] or (fr[20] >> 4) != (fr[20] & 15):
        return None
    if fr[63] != 0 or fr[67] != 0:
        return None
    burst, filler = unswap_words(fr[26:60])
    return {
        "first_header": fr[0:2].hex(),
        "sequence": fr[4],
        "reserved_3": fr[5:8].hex(),
        "packet_type": fr[8],
        "reserved_7a": fr[9:16].hex(),
        "timeslot": fr[16] >> 4,
        "slot": fr[18] >> 4,
        "cc": fr[20] & 15,
        "frame_type": int.from_bytes(fr[22:24], "big"),
        "reserved_2a": fr[24:26].hex(),
        "burst": burst.hex(),
        "filler": filler,
        "reserved_2b": fr[60:62].hex(),
        "call_type": fr[62],
        "dst": int.from_bytes(fr[64:67], "little"),
        "src": int.from_bytes(fr[68:71], "little"),
        "reserved_1": fr[71:72].hex(),
    }


# ---------------------------------------------------------------------------------------------
# payload generator (harness side): colour code rewriting, seeded voice bits
# ---------------------------------------------------------------------------------------------
def bits_of(b: bytes) -> str:
    return "".join(format(x, "08b") for x in b)


def bytes_of(bits: str) -> bytes:
    return int(bits, 2).to_bytes(len(bits) // 8, "big")


def golay_slot_type(cc: int, dt: int) -> str:
    n, k, d, g, ext = gf2.CODES["golay_20_8_7"]
    return format(gf2.encode_systematic((cc << 4) | dt, n, k, g, ext), "020b")


def qr_emb(cc: int, pi: int, lcss: int) -> str:
    n, k, d, g, ext = gf2.CODES["qr_16_7_6"]
    return format(gf2.encode_systematic((cc << 3) | (pi << 2) | lcss, n, k, g, ext), "016b")


# TS 102 361-1 table 9.2 (48-bit SYNC patterns)
DATA_SYNCS = ("dff57d75df5d", "d5d7f77fd757", "f7fdd5ddfd55", "d7557f5ff7f5")  # BS / MS sourced data, TDMA direct slot 1 / 2 data
VOICE_SYNCS = ("755fd7df75f7", "7f7d5dd57dfd", "5d577f7757ff", "7dffd5f55d5f")  # BS / MS sourced voice, TDMA direct slot 1 / 2 voice


def classify_burst(burst33: bytes):
    """('data', cc, dt) | ('voice_sync',) | ('voice_emb', cc, pi, lcss) | ('other',) from the reference's point of view"""
    bits = bits_of(burst33)
    centre = bytes_of(bits[108:156]).hex()
    if centre in DATA_SYNCS:
        st = bits[98:108] + bits[156:166]
        v = int(st[:8], 2)
        if golay_slot_type(v >> 4, v & 15) == st:
            return ("data", v >> 4, v & 15)
        return ("other",)
    if centre in VOICE_SYNCS:
        return ("voice_sync",)
    emb = bits[108:116] + bits[148:156]
    v = int(emb[:7], 2)
    if qr_emb(v >> 3, (v >> 2) & 1, v & 3) == emb:
        return ("voice_emb", v >> 3, (v >> 2) & 1, v & 3)
    return ("other",)


def with_cc(burst33: bytes, cc: int) -> bytes:
    bits = bits_of(burst33)
    c = classify_burst(burst33)
    if c[0] == "data":
        st = golay_slot_type(cc, c[2])
        bits = bits[:98] + st[:10] + bits[108:156] + st[10:] + bits[166:]
    elif c[0] == "voice_emb":
        e = qr_emb(cc, c[2], c[3])
        bits = bits[:108] + e[:8] + bits[116:148] + e[8:] + bits[156:]
    return bytes_of(bits)


def with_voice_bits(burst33: bytes, label: str) -> bytes:
    """replace the 216 vocoder bits (and for EMB bursts the 32 embedded-signalling bits) by seeded bits"""
    bits = bits_of(burst33)
    v = env.det_bits("c13.voice." + label, 216)
    e = env.det_bits("c13.embsig." + label, 32)
    c = classify_burst(burst33)
    mid = bits[108:156]
    if c[0] == "voice_emb":
        mid = mid[:8] + e + mid[40:]
    return bytes_of(v[:108] + mid + v[108:])


class Payloads:
    """(slot nibble, label, 33-byte burst hex, has_colour) list; built once in the parent"""

    def __init__(self, rep, thorough):
        self.items = []
        per_slot = {}
        for hx in CAPTURED:
            fv = walk_frame(bytes.fromhex(hx))
            burst = bytes.fromhex(fv["burst"])
            c = classify_burst(burst)
            slot = fv["slot"]
            if slot in SLOT_TO_DT:
                # file under the kind the *burst* says (one capture announces a PI header as 0x2222)
                if c[0] != "data":
                    continue
                slot = {v: k for k, v in SLOT_TO_DT.items()}.get(c[2])
                if slot is None:
                    continue
            elif 0x7 <= slot <= 0xC:
                if (slot == 0x7) != (c[0] == "voice_sync") or c[0] not in ("voice_sync", "voice_emb"):
                    continue
            per_slot.setdefault(slot, [])
            if fv["burst"] not in per_slot[slot]:
                per_slot[slot].append(fv["burst"])
        per_slot.setdefault(0x5, []).append(RATE12_BURST)
        keep = 4 if thorough else 2
        for slot in sorted(SLOT_NAMES):
            lst = per_slot.get(slot, [])
            if not lst:
                rep.internal_error(f"no payload for slot type {SLOT_NAMES[slot]}")
                continue
            for i, b in enumerate(lst[:keep]):
                self.items.append((slot, f"captured{i}", b))
            if 0x7 <= slot <= 0xC:
                for j in range(2 if thorough else 1):
                    self.items.append((slot, f"seeded{j}", with_voice_bits(bytes.fromhex(lst[0]), f"{slot}.{j}").hex()))
            if slot in (0xD, 0xE):
                for j in range(2 if thorough else 1):
                    self.items.append((slot, f"seeded{j}", env.det_bytes(f"c13.raw.{slot}.{j}", 33).hex()))

    def precondition(self, rep):
        """the library must parse each (cc-rewritten) payload as the indicated kind -- otherwise the harness is wrong"""
        n = 0
        for slot, label, hx in self.items:
            for cc in (0, 5, 15):
                b = with_cc(bytes.fromhex(hx), cc)
                n += 1
                try:
                    if slot in SLOT_TO_DT:
                        bu = Burst.from_bytes(b, burst_type=BurstTypes.DataAndControl)
                        if bu.data_type.name != DT_NAMES[SLOT_TO_DT[slot]] or bu.colour_code != cc or not bu.slot_type.fec_parity_ok:
                            rep.internal_error(f"payload {SLOT_NAMES[slot]}/{label} cc={cc} does not parse as indicated: {bu.data_type} cc={bu.colour_code}")
                        if bu.data is None:
                            rep.internal_error(f"payload {SLOT_NAMES[slot]}/{label}: no data PDU")
                    elif 0x8 <= slot <= 0xC:
                        bu = Burst.from_bytes(b, burst_type=BurstTypes.Vocoder)
                        if not bu.has_emb or bu.colour_code != cc or not bu.emb.emb_parity_ok:
                            rep.internal_error(f"payload {SLOT_NAMES[slot]}/{label} cc={cc}: EMB does not parse as built")
                    elif slot == 0x7:
                        bu = Burst.from_bytes(b, burst_type=BurstTypes.Vocoder)
                        if not bu.is_voice_superframe_start:
                            rep.internal_error(f"payload {SLOT_NAMES[slot]}/{label}: no voice sync")
                except Exception as e:
                    rep.internal_error(f"payload {SLOT_NAMES[slot]}/{label} cc={cc} raises {e!r}")
        return n


# ---------------------------------------------------------------------------------------------
# the oracle on one frame
# ---------------------------------------------------------------------------------------------
def observe(arg):
    """decode by one path; returns dict of public observables or {'exception': sig}"""
    try:
        # history probe: a first parse whose result the caller then rewrites in place must not influence the next parse of the
        # same bytes (parse results cached / shared by the library)
        try:
            scramble(Burst.from_hytera_ipsc(arg))
        except Exception:  # noqa: BLE001
            pass
        b = Burst.from_hytera_ipsc(arg)
    except Exception as e:
        return {"exception": exc_sig(e), "repr": repr(e)}, None
    o = {"class": type(b).__name__}
    try:
        o["full_bits"] = b.full_bits.to01()
    except Exception as e:
        o["full_bits"] = "exception:" + exc_sig(e)
    try:
        o["as_bits"] = b.as_bits().to01()
    except Exception as e:
        o["as_bits"] = "exception:" + exc_sig(e)
    o["timeslot"] = b.timeslot
    o["sequence_no"] = b.sequence_no
    try:
        o["burst_colour_code"] = b.colour_code
    except ValueError:
        o["burst_colour_code"] = None  # documented: no EMB and no slot type in this burst
    except Exception as e:
        o["burst_colour_code"] = "exception:" + exc_sig(e)
    o["source_radio_id"] = b.source_radio_id
    try:
        o["target_radio_id"] = b.target_radio_id
    except Exception as e:
        o["target_radio_id"] = "exception:" + exc_sig(e)
    h = b.hytera_ipsc
    o["frame_colour_code"] = getattr(h, "color_code", None)
    o["frame_destination_id"] = getattr(h, "destination_radio_id", None)
    return o, b


COMPARED = ["class", "full_bits", "as_bits", "timeslot", "sequence_no", "burst_colour_code", "source_radio_id", "target_radio_id", "frame_colour_code", "frame_destination_id"]


def check_frame(acc, fv, frame, payload_cc, sample=False, captured=False):
    """frame: bytes built from fv. payload_cc: colour code inside the payload or None"""
    case = {"fv": fv, "frame": frame.hex()}
    calls = 0
    try:
        k = IpSiteConnectProtocol.from_bytes(frame)
    except Exception as e:  # the generic parser is not the library under test: a frame it rejects is outside the domain
        acc.violation("harness:generic_parser_rejects_frame:" + type(e).__name__, case, repr(e))
        acc.case(nontrivial=False, calls=0, outcome="kaitai_rejects")
        return
    o_raw, b_raw = observe(frame)
    o_kai, b_kai = observe(k)
    calls += 2
    want = {
        "timeslot": fv["timeslot"],
        "sequence_no": fv["sequence"],
        "frame_colour_code": fv["cc"],
        "frame_destination_id": fv["dst"],
        "source_radio_id": fv["src"],
        "full_bits": bits_of(bytes.fromhex(fv["burst"])),
    }
    if fv["dst"] != 0:
        # destination 0 is the library's documented "unknown, guess from CSBK / data header" sentinel of Burst.target_radio_id
        want["target_radio_id"] = fv["dst"]
    if payload_cc is not None and fv["call_type"] not in WAKEUP_CALLS and fv["slot"] not in (0xD, 0xE):
        want["burst_colour_code"] = payload_cc
    if fv["call_type"] in WAKEUP_CALLS and fv["slot"] != 0xD:
        # a wake-up call announced around a voice / sync payload: the statement only asks that both paths build the same class
        pass
    elif not captured or fv["call_type"] not in WAKEUP_CALLS or fv["slot"] == 0xD:
        want["class"] = {0xE: "HyteraIPSCSync", 0xD: "HyteraIPSCWakeup"}.get(fv["slot"], "Burst")
    flagged = set()
    for path, o in (("raw_bytes_path", o_raw), ("generic_parser_path", o_kai)):
        if "exception" in o:
            acc.violation(f"{path}:decode_exception:{o['exception']}", case, o["repr"])
            continue
        for name, w in want.items():
            if o.get(name) != w or type(o.get(name)) is not type(w):
                got = o.get(name)
                flagged.add(name)
                acc.violation(
                    f"{path}:{name}_differs_from_frame",
                    {**case, "want": w if name != "full_bits" else "(payload bits)", "got": got if name != "full_bits" else "(other bits)"},
                    f"{name}: frame encodes {w!r:.80}, decoded {got!r:.80}",
                )
    if "exception" not in o_raw and "exception" not in o_kai:
        for name in COMPARED:
            # a value that one path decodes differently from the frame is reported above, once
            if name not in flagged and o_raw.get(name) != o_kai.get(name):
                acc.violation(f"paths_disagree:{name}", {**case, "raw": str(o_raw.get(name))[:80], "generic": str(o_kai.get(name))[:80]}, f"{name}: raw-bytes path {o_raw.get(name)!r:.80} vs generic-parser path {o_kai.get(name)!r:.80}")
    # re-serialisation
    for path, b in (("raw_bytes_path", b_raw), ("generic_parser_path", b_kai)):
        if b is None:
            continue
        try:
            out = b.hytera_ipsc.as_ipsc_bytes()
            calls += 1
        except Exception as e:
            acc.violation(f"{path}:reserialise_exception:{exc_sig(e)}", case, repr(e))
            continue
        if out == frame:
            # looking at the decoded burst (repr, str, ==, len, hash) between two serialisations must not change it
            try:
                with contextlib.redirect_stdout(_DEVNULL):
                    _observe(b, light=True)
                    _observe(b.hytera_ipsc, light=True)
                if b.hytera_ipsc.as_ipsc_bytes() != frame:
                    acc.violation(f"{path}:reserialised_frame_differs_after_the_burst_was_looked_at", case)
            except Exception as e:  # noqa: BLE001
                acc.violation(f"{path}:exception_after_looking_at_burst:{exc_sig(e)}", case, repr(e))
            continue
        if not isinstance(out, bytes) or len(out) != 72:
            acc.violation(f"{path}:reserialised_length_not_72", {**case, "got": out.hex() if isinstance(out, bytes) else repr(out)}, f"{len(out) if hasattr(out, '__len__') else '?'} bytes")
            continue
        for name, lo, hi in SEGMENTS:
            if out[lo:hi] != frame[lo:hi]:
                acc.violation(f"{path}:reserialised_{name}_differs", {**case, "got": out.hex()}, f"{name}: {frame[lo:hi].hex()} -> {out[lo:hi].hex()}")
    oc = o_kai.get("class") if "exception" not in o_kai else "exception"
    if fv["dst"] == 0 and o_kai.get("target_radio_id") not in (0, None):
        oc = f"{oc}+target_guessed_from_payload"  # documented sentinel behaviour of Burst.target_radio_id (see assumptions)
    acc.case(nontrivial=True, calls=calls, outcome=(SLOT_NAMES[fv["slot"]], oc), sample={"fv": fv, "frame": frame.hex()} if sample else None)


# ---------------------------------------------------------------------------------------------
# spaces
# ---------------------------------------------------------------------------------------------
STATE = {}


def payload_for(pidx, cc):
    slot, label, hx = STATE["payloads"][pidx]
    b = with_cc(bytes.fromhex(hx), cc)
    c = classify_burst(b)
    pcc = c[1] if c[0] in ("data", "voice_emb") and (slot in SLOT_TO_DT or 0x8 <= slot <= 0xC) else None
    return slot, b, pcc


def make_fv(d):
    """d: abstract field vector with 'kind' = (payload index, call type) -> concrete field vector (+ payload colour)"""
    pidx, call = STATE["kinds"][d["kind"]]
    slot, burst, pcc = payload_for(pidx, d["cc"])
    fv = {k: v for k, v in d.items() if k != "kind"}
    fv["call_type"] = call
    fv["slot"] = slot
    fv["burst"] = burst.hex()
    return fv, pcc


def w_frames(task):
    key, lo, hi = task
    sp = STATE[key]
    acc = Acc()
    for i in range(lo, hi):
        d = sp.at(i)
        fv, pcc = make_fv(d)
        check_frame(acc, fv, build_frame(fv), pcc, sample=(i == 0))
    return acc


class ProductSpace:
    def __init__(self, fields, names, base):
        self.names = list(names)
        self.alph = [fields[n] for n in self.names]
        self.base = dict(base)
        self.size = spaces.product_size(self.alph)

    def __len__(self):
        return self.size

    def at(self, i):
        d = dict(self.base)
        for n, a in zip(reversed(self.names), reversed(self.alph)):
            i, r = divmod(i, len(a))
            d[n] = a[r]
        return d


class ListSpace:
    def __init__(self, items):
        self.items = items

    def __len__(self):
        return len(self.items)

    def at(self, i):
        return self.items[i]


def uniq(seq):
    seen = set()
    out = []
    for v in seq:
        if v not in seen:
            seen.add(v)
            out.append(v)
    return out


def kind_pairs(payloads):
    """(payload index, call type): the wake-up call types 0x02 / 0x0C only together with the wake-up slot type --
    a frame announcing a wake-up call around a DMR burst gives contradictory indications (outside the domain)"""
    out = []
    for i, (slot, label, hx) in enumerate(payloads):
        for c in CALL_TYPES:
            if c in WAKEUP_CALLS and slot != 0xD and not (0x7 <= slot <= 0xC or slot == 0xE):
                continue  # (around voice / sync payloads, which carry no data SYNC pattern, the wake-up call types are well defined)
            out.append((i, c))
    return out


def field_alphabets(thorough, n_kinds):
    ids = (
        uniq(spaces.field_alphabet(24) + [111, 2308090, 0x010203, env.det_int("c13.id", 24)])
        if thorough
        else uniq([111, 2308090, 0, 1, 2, 0x7FFFFF, 0x800000, 0xFFFFFF, 0xFFFFFE, 0xFF, 0xFF00, 0xFF0000, 0x010203, env.det_int("c13.id", 24)])
    )

    def res(default, n):
        ctr = bytes(range(1, n + 1)).hex()
        return uniq([default, "00" * n, "ff" * n, ctr, env.det_bytes(f"c13.res.{default}", n).hex()])

    return {
        "kind": list(range(n_kinds)),
        "cc": list(range(16)),
        "timeslot": [1, 2],
        "packet_type": PACKET_TYPES,
        "frame_type": FRAME_TYPES,
        "sequence": list(range(256)) if thorough else [0, 1, 127, 128, 255],
        "dst": ids,
        "src": ids,
        "first_header": res("5a5a", 2),
        "reserved_3": res("000000", 3),
        "reserved_7a": res("00050101000000", 7),
        "reserved_2a": res("4000", 2),
        "reserved_2b": res("e208", 2),
        "reserved_1": res("00", 1),
        # byte 58: the 34th payload byte that the 33-byte burst does not use (captures show 0x00, 0x01, 0x50, 0xb5, 0xef)
        "filler": [0x00, 0x01, 0xEF, 0xFF],
    }


def bases(kinds, payloads):
    csbk = next(i for i, (p, c) in enumerate(kinds) if payloads[p][0] == 0x3 and c == 0x00)
    voice = next(i for i, (p, c) in enumerate(kinds) if payloads[p][0] == 0x9 and c == 0x01)
    b0 = {
        "kind": csbk, "cc": 5, "timeslot": 2, "packet_type": 0x41, "frame_type": 0x0000, "sequence": 0x57,
        "dst": 2308092, "src": 2308094, "first_header": "5a5a", "reserved_3": "030000", "reserved_7a": "00050102000000",
        "reserved_2a": "4000", "reserved_2b": "f705", "reserved_1": "00", "filler": 0,
    }  # fmt: skip
    b1 = {
        "kind": voice, "cc": 1, "timeslot": 1, "packet_type": 0x42, "frame_type": 0xBBBB, "sequence": 0xFF,
        "dst": 9, "src": 2623266, "first_header": "c350", "reserved_3": "ffffff", "reserved_7a": "ffffffffffffff",
        "reserved_2a": "1000", "reserved_2b": "0000", "reserved_1": "ff", "filler": 0,
    }  # fmt: skip
    return [b0, b1]


def selftest_captures(rep):
    """reference builder/walker reproduce every captured frame and agree with the generic parser;
    every captured frame must also decode identically on both paths and re-encode (same oracle)"""
    s = rep.sub(
        "captured_frames",
        "the 46 IPSC frames captured in the repository tests: reference walker -> field vector -> reference builder reproduces the frame "
        "(validates the layout); then the same two-path / re-encode oracle as for built frames",
    )
    s.declared = len(CAPTURED)
    for i, hx in enumerate(CAPTURED):
        fr = bytes.fromhex(hx)
        fv = walk_frame(fr)
        if fv is None or build_frame(fv) != fr:
            rep.internal_error(f"reference builder does not reproduce captured frame {i}")
            continue
        k = IpSiteConnectProtocol.from_bytes(fr)
        if (k.color_code, k.source_radio_id, k.destination_radio_id, k.sequence_number) != (fv["cc"], fv["src"], fv["dst"], fv["sequence"]):
            rep.internal_error(f"reference walker and generic parser disagree on captured frame {i}")
        c = classify_burst(bytes.fromhex(fv["burst"]))
        pcc = c[1] if c[0] in ("data", "voice_emb") and fv["slot"] not in (0xD, 0xE) else None
        check_frame(s, fv, fr, pcc, sample=(i == 0), captured=True)
    s.done()


def run(only=None):
    rep = Report("C13")
    t = rep.thorough()
    rep.explanation = (
        "Complete enumeration of bounded spaces of 72-byte IPSC frames built by the harness from field vectors; every frame is decoded by both "
        "library paths and re-encoded. state = one frame; transition = one real library call (two decodes incl. burst parsing, two serialisations); "
        "every case is an implementation execution (traces_validated = cases)."
    )
    rep.assumptions = [
        "frame layout transcribed from okdmr/kaitai/hytera/ip_site_connect_protocol.ksy (separate package) and validated on the 46 captured frames of the repository tests",
        "IpSiteConnectProtocol (generic parser, okdmr.kaitai) is outside the library under test; frames it rejects are outside the domain",
        "well-formed frame: bytes 2-3 = 0x5A5A, timeslot/slot type/colour/frame type with the repeated-nibble encoding of the defined values, low byte of both u32 id fields = 0 (24-bit ids); "
        "the 34th payload byte (offset 58, unused by the 33-byte burst) is part of the 'arbitrary 34-byte payload' and is enumerated over {00,01,ef,ff}",
        "payload colour code rewritten by the harness with Golay(20,8)/QR(16,7) from mc.oracle.gf2; preconditions (payload parses as the indicated kind) are asserted with the library and count as checker errors",
        "Burst.target_radio_id with frame destination 0 is the library's documented 'guess from payload' sentinel: required to agree between the paths, not to equal 0",
        "burst-level colour_code raising ValueError for bursts without EMB / slot type (voice A, sync, wakeup) is the documented behaviour; must be the same on both paths",
    ]
    P = Payloads(rep, t)
    STATE["payloads"] = P.items
    STATE["kinds"] = kind_pairs(P.items)
    npre = P.precondition(rep)
    A = field_alphabets(t, len(STATE["kinds"]))
    B = bases(STATE["kinds"], P.items)
    nw = env.workers()

    if not only or "captured_frames" in only:
        selftest_captures(rep)

    if not only or "built_frames" in only:
        # space 1: full product of the dimensions that select code paths
        names = ["kind", "cc", "timeslot"] + (["packet_type", "frame_type"] if t else [])
        sp = ProductSpace(A, names, B[0])
        STATE["product"] = sp
        # space 2: every pair of fields over two bases, minus the vectors of space 1 (no frame twice)
        rest = [n for n in A if n not in names]
        items = [d for d in spaces.one_at_a_time_and_pairs(A, B) if not all(d[n] == B[0][n] for n in rest)]
        STATE["pairs"] = ListSpace(items)
        s = rep.sub(
            "built_frames",
            f"(a) full product of ((slot type, payload) x admissible call type) [{len(STATE['kinds'])}] x colour code 16 x timeslot 2"
            + (" x packet type 4 x frame type 6" if t else "")
            + ", other fields at base 0; (b) two base frames (CSBK ts2 / voice C ts1), every one-field and two-field variation over the alphabets of all 15 fields "
            "(sequence, packet/frame type, colour, timeslot, kind, ids, 6 reserved segments, filler byte), vectors of (a) excluded; non-trivial: every frame (distinct field vectors)",
        )
        s.declared = len(sp) + len(items)
        s.extra["space_sizes"] = {"product": len(sp), "pairs": len(items)}
        s.extra["alphabet_sizes"] = {k: len(v) for k, v in A.items()}
        s.extra["payloads"] = [f"{SLOT_NAMES[a]}/{b}" for a, b, _ in P.items]
        s.extra["payload_preconditions_checked"] = npre
        tasks = [("product", lo, hi) for lo, hi in par.chunks(len(sp), 256)] + [("pairs", lo, hi) for lo, hi in par.chunks(len(items), 256)]
        for acc in par.pmap(w_frames, tasks, nw):
            s.merge(acc)
        s.done()
        rep.log(f"built_frames: {s.n} frames ({len(sp)} product + {len(items)} pairs), {len(s.viol)} violation signatures, {s.wall}s")


    if not only or "history_with_ill_formed_frames" in only:
        # histories of length 2 whose first frame is outside the domain (undefined type values, contradictory repeated bytes, cut or
        # over-long frames): whatever the library does with it, the well-formed frames decoded afterwards give what they gave before
        from mc import hist
        s = rep.sub("history_with_ill_formed_frames",
                    "2 decoder paths x ill-formed variants of 2 captured frames (undefined packet / slot / frame / call type, timeslot and colour "
                    "words with unequal halves, wrong magic, non-zero id low bytes, 0/10/71/73-byte frames) followed by 8 captured well-formed "
                    "frames through both paths: same observables and the same re-encoded 72 bytes as before the ill-formed frame")
        caps = [bytes.fromhex(h) for h in CAPTURED]
        by_type = {}
        for fr in caps:
            by_type.setdefault((fr[8], fr[16]), fr)
        probe_frames = list(by_type.values())[:8]

        def both(fr):
            out = []
            for path in (lambda: fr, lambda: IpSiteConnectProtocol.from_bytes(fr)):
                o, b = observe(path())
                out.append((tuple(sorted((k, repr(v)) for k, v in o.items() if k != "repr")), b.hytera_ipsc.as_ipsc_bytes().hex() if b is not None else None))
            return tuple(out)

        probes = [(f"frame_{i}_type_{fr[8]:02x}", (lambda fr=fr: both(fr))) for i, fr in enumerate(probe_frames)]

        def variants():
            for bi, base in enumerate((caps[0], caps[2])):
                def put(off, val, base=base):
                    return base[:off] + val + base[off + len(val):]
                for v in (0x00, 0x40, 0x44, 0x45, 0xFF):
                    yield f"base{bi}_packet_type_{v:02x}", put(8, bytes([v]))
                for v in (b"\x00\x00", b"\xff\xff", b"\x12\x34", b"\x11\x22"):
                    yield f"base{bi}_slot_type_{v.hex()}", put(18, v)
                    yield f"base{bi}_frame_type_{v.hex()}", put(22, v)
                    yield f"base{bi}_timeslot_{v.hex()}", put(16, v)
                    yield f"base{bi}_colour_{v.hex()}", put(20, v)
                for v in (0x03, 0x07, 0xFF):
                    yield f"base{bi}_call_type_{v:02x}", put(62, bytes([v]))
                yield f"base{bi}_magic", put(2, b"\xa5\xa5")
                yield f"base{bi}_id_low_bytes", put(63, b"\x7f") [:67] + b"\x7f" + base[68:]
                for n in (0, 10, 71):
                    yield f"base{bi}_cut_to_{n}", base[:n]
                yield f"base{bi}_73_bytes", base + b"\x00"

        bad_args = [(lab, (lambda fr=fr: fr)) for lab, fr in variants()]
        funcs = {
            "from_hytera_ipsc(bytes)": lambda fr: Burst.from_hytera_ipsc(fr).hytera_ipsc.as_ipsc_bytes(),
            "from_hytera_ipsc(parser object)": lambda fr: Burst.from_hytera_ipsc(IpSiteConnectProtocol.from_bytes(fr)).hytera_ipsc.as_ipsc_bytes(),
        }
        with contextlib.redirect_stdout(io.StringIO()):
            hist.poisoned_histories(s, funcs, bad_args, probes, nchildren=2)
        s.done()

    if not only or "parser_objects_made_other_ways" in only:
        # the generic parser object can be made in other legitimate ways than from_bytes(frame): from a stream positioned inside a
        # longer capture buffer, and it may outlive its stream
        from kaitaistruct import KaitaiStream as _KS
        import io as _io2
        s = rep.sub("parser_objects_made_other_ways",
                    "every captured frame F: parser object made (a) from a stream positioned at offset 72 of predecessor||F, (b) at offset 8 "
                    "behind a record header, (c) by from_bytes and used after its stream was closed: Burst.from_hytera_ipsc gives the "
                    "same observables and the same re-encoded 72 bytes as for the raw bytes of F")
        caps = [bytes.fromhex(h) for h in CAPTURED]
        for i, fr in enumerate(caps):
            o_raw, b_raw = observe(fr)
            ref = (tuple(sorted((k, repr(v)) for k, v in o_raw.items() if k != "repr")), b_raw.hytera_ipsc.as_ipsc_bytes() if b_raw is not None else None)

            def made(how, fr=fr, i=i):
                if how == "offset_72_of_two_frames":
                    st = _KS(_io2.BytesIO(caps[i - 1] + fr))
                    st.seek(72)
                    return IpSiteConnectProtocol(st)
                if how == "offset_8_behind_a_record_header":
                    st = _KS(_io2.BytesIO(b"\x00\x01\x02\x03\x04\x05\x06\x07" + fr + b"\xff" * 5))
                    st.seek(8)
                    return IpSiteConnectProtocol(st)
                obj = IpSiteConnectProtocol.from_bytes(fr)
                obj._io.close()
                return obj

            for how in ("offset_72_of_two_frames", "offset_8_behind_a_record_header", "from_bytes_then_stream_closed"):
                case = {"frame": fr.hex(), "parser_object": how}
                try:
                    o_k, b_k = observe(made(how))
                    got = (tuple(sorted((k, repr(v)) for k, v in o_k.items() if k != "repr")), b_k.hytera_ipsc.as_ipsc_bytes() if b_k is not None else None)
                    if got != ref:
                        s.violation(f"parser_object_made_another_way_decodes_differently:{how}", case,
                                    "a parser object for the same 72 bytes, made another legitimate way, gives another burst than the raw bytes")
                except Exception as e:  # noqa: BLE001
                    s.violation(f"exception_parser_object:{how}:" + exc_sig(e), case, repr(e))
                s.case(nontrivial=True, calls=3, outcome=how, sample=case if len(s.samples) < 1 else None)
        s.declared = 3 * len(caps)
        s.done()

    rep.bounds = {
        "sequence": "all 256" if t else "0,1,127,128,255",
        "types": "4 packet types, 6 frame types, 4 call types (wake-up call types only with the wake-up slot type), 15 slot types, 2 timeslots, 16 colour codes",
        "ids": "24-bit boundary / walking-bit alphabet",
        "reserved": "default, zeros, ones, counter, seeded per segment",
        "payloads": f"{len(P.items)} (slot type, payload) pairs: captured bursts of every kind + seeded voice / sync / wakeup payloads",
        "combination": "full product of kind x colour x timeslot (thorough: x packet x frame type); every other field pairwise over two bases",
        "not_covered": "ill-formed frames (undefined type values, unequal repeated bytes, non-zero id low byte, wake-up call type around a DMR burst); payloads whose info bits are not from a capture (data kinds); "
        "sync / wake-up payloads that imitate a DMR data burst (the library raises the same error on both paths: by the statement's own wording such a payload does not parse as the indicated kind)",
    }
    return rep.finish()


def replay(doc):
    bad = 0
    for case in doc.get("cases", []):
        fv = case["fv"]
        fr = build_frame(fv)
        acc = Acc()
        c = classify_burst(bytes.fromhex(fv["burst"]))
        pcc = c[1] if c[0] in ("data", "voice_emb") and fv["slot"] not in (0xD, 0xE) else None
        check_frame(acc, fv, fr, pcc)
        print(fr.hex(), "->", "OK" if not acc.viol else sorted(acc.viol))
        bad += bool(acc.viol)
    return 1 if bad else 0

"""C17 -- HSTRP/RRS datagram handler: acknowledge exactly once, never answer an ack, registry follows history.

  * single_handler_bfs : explicit-state BFS over a real RRSDatagramProtocol (recording transport) for all
                         datagram sequences over a 22-class alphabet from 6 initial states, reference model in lock-step
  * closed_two_handlers: two real handlers wired back to back through an in-flight multiset; all injection choices
                         (budget-bounded) x all delivery orders; every run must go quiet (acks are never answered)
  * maintenance_task_schedules: the same handler with its periodic_maintenance() coroutine running as a stock asyncio.Task on a
                         virtual event loop; the explorer owns the ready queue, the timer heap and the clock: all orders of datagrams,
                         loop callbacks and timer expiries to a depth (schedules, not only datagram sequences)
  * closed_two_handlers_with_maintenance_tasks: two handlers and their two maintenance tasks on one virtual loop, back to back
                         (checks/c17_sched.py): all orders of deliveries, loop callbacks, timer expiries, one injection
  * tla_model_conformance: a TLA+ model of the discipline (models/Hstrp.tla) checked by TLC; every model transition replayed against
                         two real handlers (checks/c17_tla.py): the model is bound to the code transition by transition
  * malformed_depth1   : every prefix truncation and every single-bit corruption of every alphabet datagram delivered
                         in each of 4 reachable states: never raises, never answers garbage with a payload
"""
from mc import env
from mc import explore, par
from mc.report import Report, Acc, exc_sig
from mc.canon import canon

import copy

from okdmr.dmrlib.protocols.hytera.rrs_datagram_protocol import RRSDatagramProtocol
from okdmr.dmrlib.hytera.pdu.hstrp import HSTRP
from okdmr.dmrlib.hytera.pdu.radio_registration_service import RRSRadioState

SEAMS = env.Seams()

# ------------------------------------------------------------------------------------------------
# harness-side HSTRP / HDAP writer and parser (independent of the library)
# ------------------------------------------------------------------------------------------------
T_OPT, T_REJECT, T_CLOSE, T_CONNECT, T_HB, T_ACK = 0x20, 0x10, 0x08, 0x04, 0x02, 0x01
OPTS = bytes.fromhex("83040001869f040102")  # DeviceID(4) + ChannelID(1), as in captured traffic
IP_A = bytes([10, 0, 0, 100])
IP_B = bytes([10, 0, 1, 44])


def hdap(service, opcode, payload, reliable=False, little=False):
    checked = bytes(opcode) + len(payload).to_bytes(2, "little" if little else "big") + payload
    csum = ((sum(checked) & 0xFF) ^ 0xFF) + 0x33 & 0xFF
    return bytes([service | (0x80 if reliable else 0)]) + checked + bytes([csum, 0x03])


def rrs(op, ip):
    return hdap(0x11, [0x00, op], ip)


def hstrp(tbits, sn, options=b"", payload=b"", version=0):
    return b"2B" + bytes([version, tbits]) + sn.to_bytes(2, "big") + options + payload


RCP_CALL = bytes.fromhex("024108050000d20400000e03")  # captured RCP call request (HDAP, little-endian length)

TMP_BADTEXT = bytes.fromhex("0900a1000f000000010a0000020a00000100d8415103")
DG = {
    "CONNECT": hstrp(T_CONNECT, 0),
    "CLOSE": hstrp(T_CLOSE, 0),
    "HEARTBEAT": hstrp(T_HB, 0),
    "CONNECT_ACK": hstrp(T_CONNECT | T_ACK, 0),
    "CLOSE_ACK": hstrp(T_CLOSE | T_ACK, 0),
    "ACK": hstrp(T_ACK, 5),
    "ACK_OPT": hstrp(T_OPT | T_ACK, 5, OPTS),
    "REJECT": hstrp(T_REJECT, 7),
    "REG_A": hstrp(T_OPT, 1, OPTS, rrs(0x03, IP_A)),
    "REG_B": hstrp(T_OPT, 2, OPTS, rrs(0x03, IP_B)),
    "OFF_A": hstrp(T_OPT, 3, OPTS, rrs(0x01, IP_A)),
    "OFF_B": hstrp(T_OPT, 4, OPTS, rrs(0x01, IP_B)),
    "STATUS_A": hstrp(T_OPT, 9, OPTS, rrs(0x02, IP_A)),
    "RCP_NOOPT": hstrp(0x00, 1, b"", RCP_CALL),
    "RCP_OPT": hstrp(T_OPT, 0x1234, OPTS, RCP_CALL),
    "REG_A_SNFFFF": hstrp(T_OPT, 0xFFFF, OPTS, rrs(0x03, IP_A)),
    "CONNECT_SN": hstrp(T_CONNECT, 0x0102),
    "TRUNC5": hstrp(T_OPT, 1, OPTS, rrs(0x03, IP_A))[:5],
    "TRUNC_PAYLOAD": hstrp(T_OPT, 1, OPTS, rrs(0x03, IP_A))[:-6],
    "BADMAGIC": b"3B" + hstrp(T_CONNECT, 0)[2:],
    "UNKOPT": hstrp(T_OPT, 1, bytes([0x0A, 0x01, 0x00]), rrs(0x03, IP_A)),
    "UNKSVC": hstrp(T_OPT, 1, OPTS, hdap(0x7F, [0, 1], b"\x00")),
    # services the HDAP layer names but does not implement (TP 0x12, DDS 0x14) and a zero service byte: not decodable, not answered
    # every option type of the HSTRP option table: Realtime (length 0) first / alone, XPT site / index / channel type
    "REG_A_RTP": hstrp(T_OPT, 11, bytes.fromhex("810083040001869f040102"), rrs(0x03, IP_A)),
    "OFF_A_RTP_ONLY": hstrp(T_OPT, 12, bytes.fromhex("0100"), rrs(0x01, IP_A)),
    "REG_B_XPT": hstrp(T_OPT, 13, bytes.fromhex("83040001869f850101860102070100"), rrs(0x03, IP_B)),
    "CONNECT_RTP": hstrp(T_CONNECT | T_OPT, 0, bytes.fromhex("0100")),
    "SVC_TP": hstrp(T_OPT, 1, OPTS, hdap(0x12, [0, 1], b"\x00\x01")),
    "SVC_DDS": hstrp(0x00, 2, b"", hdap(0x14, [0, 1], b"\x00")),
    "SVC_ZERO": hstrp(T_OPT, 1, OPTS, b"\x00" + hdap(0x11, [0, 3], IP_A)[1:]),
    # a text message whose text octets are no valid UTF-16 (lone surrogate, odd length): as data and inside a REJECT (the handler logs
    # what it rejects / what was rejected)
    # an option chain that names one option type twice (DeviceID, ChannelID, DeviceID) / (ChannelID, ChannelID)
    "REG_A_DUPOPT": hstrp(T_OPT, 14, bytes.fromhex("83040001869f84010203040001869f"), rrs(0x03, IP_A)),
    "OFF_B_DUPOPT": hstrp(T_OPT, 15, bytes.fromhex("840102040103"), rrs(0x01, IP_B)),
    "TMP_BADTEXT": hstrp(0x00, 3, b"", TMP_BADTEXT),
    "REJECT_TMP_BADTEXT": hstrp(T_REJECT, 3, b"", TMP_BADTEXT),
}
ACK_BEARING = {"CONNECT_ACK", "CLOSE_ACK", "ACK", "ACK_OPT"}
DATA = {"REG_A", "REG_B", "OFF_A", "OFF_B", "STATUS_A", "RCP_NOOPT", "RCP_OPT", "REG_A_SNFFFF", "REG_A_RTP", "OFF_A_RTP_ONLY", "REG_B_XPT", "TMP_BADTEXT", "REG_A_DUPOPT", "OFF_B_DUPOPT"}
MALFORMED = {"TRUNC5", "TRUNC_PAYLOAD", "BADMAGIC", "UNKOPT", "UNKSVC", "SVC_TP", "SVC_DDS", "SVC_ZERO"}
REG_IP = {"REG_A_DUPOPT": IP_A, "REG_A": IP_A, "REG_B": IP_B, "REG_A_SNFFFF": IP_A, "REG_A_RTP": IP_A, "REG_B_XPT": IP_B}
OFF_IP = {"OFF_B_DUPOPT": IP_B, "OFF_A": IP_A, "OFF_B": IP_B, "OFF_A_RTP_ONLY": IP_A}


def ip_str(b):
    return ".".join(str(x) for x in b)


def parse_out(d):
    """harness parser of a datagram the handler sent: returns dict(type, sn, rest) or None"""
    if len(d) < 6 or d[:2] != b"2B":
        return None
    return {"type": d[3], "sn": int.from_bytes(d[4:6], "big"), "rest": d[6:], "version": d[2]}


def split_options(rest):
    """strict TLV walk; returns (options_bytes, remainder) or None when the chain is broken"""
    i = 0
    while True:
        if i + 2 > len(rest):
            return None
        more = rest[i] & 0x80
        ln = rest[i + 1]
        i += 2 + ln
        if i > len(rest):
            return None
        if not more:
            return rest[:i], rest[i:]


def is_ack_for(out, req_bytes):
    """`out` acknowledges `req`: ack bit set, same sequence number, no payload (only the request's option chain)"""
    p = parse_out(out)
    q = parse_out(req_bytes)
    if p is None or not (p["type"] & T_ACK) or p["sn"] != q["sn"]:
        return False
    if q["type"] & T_OPT:
        so = split_options(q["rest"])
        opts = so[0] if so else b""
        return p["rest"] in (b"", opts)
    return p["rest"] == b""


def is_rrs_success_answer(out, ip):
    p = parse_out(out)
    if p is None or p["type"] & (T_ACK | T_REJECT | T_CLOSE | T_CONNECT | T_HB):
        return False
    want_tail = rrs_answer_frame(ip)
    # the 9-byte answer payload: ip, result 0, 4-byte renew time (value not constrained by the property)
    tail = p["rest"][-len(want_tail):]
    if len(tail) != len(want_tail) or tail[0] & 0x7F != 0x11 or tail[1:3] != b"\x00\x80" or tail[3:5] != b"\x00\x09":
        return False
    if tail[5:9] != ip or tail[9] != 0x00 or tail[-1] != 0x03:
        return False
    checked = tail[1:-2]
    return tail[-2] == (((sum(checked) & 0xFF) ^ 0xFF) + 0x33) & 0xFF


def rrs_answer_frame(ip):
    return hdap(0x11, [0x00, 0x80], ip + b"\x00" + (300).to_bytes(4, "big"))


def rrs_effect(d):
    """(radio ip, 'Online'|'Offline') implied by a well-formed data datagram carrying an RRS registration / going-offline, else None"""
    p = parse_out(d)
    if p is None or p["type"] & (T_REJECT | T_CLOSE | T_CONNECT | T_HB):
        return None
    rest = p["rest"]
    if p["type"] & T_OPT:
        so = split_options(rest)
        if so is None:
            return None
        rest = so[1]
    if len(rest) == 11 and rest[0] & 0x7F == 0x11 and rest[1] == 0 and rest[3:5] == b"\x00\x04" and rest[-1] == 0x03:
        if rest[2] == 0x03:
            return ip_str(rest[5:9]), "Online"
        if rest[2] == 0x01:
            return ip_str(rest[5:9]), "Offline"
    return None


class RecTransport:
    def __init__(self):
        self.sent = []

    def sendto(self, data, addr=None):
        self.sent.append((bytes(data), addr))

    def is_closing(self):
        return False

    def close(self):
        pass

    def get_extra_info(self, *a, **k):
        return None


from asyncio import DatagramTransport  # noqa: E402


class RecDatagramTransport(DatagramTransport):
    """connection_made asserts isinstance(transport, BaseTransport)"""

    def __init__(self):
        super().__init__()
        self.sent = []

    def sendto(self, data, addr=None):
        self.sent.append((bytes(data), addr))

    def is_closing(self):
        return False

    def close(self):
        pass


PEER = ("192.0.2.10", 30001)
PEER2 = ("192.0.2.77", 30001)
# complete structural state of the real handler is part of every key; the transport only holds the last step's output
IMPL_SKIP = frozenset({"transport", "_io", "_parent", "_root"})


def registry_view(impl):
    return tuple(sorted((k, v.name if hasattr(v, "name") else repr(v)) for k, v in impl.registry.items()))


# ------------------------------------------------------------------------------------------------
# 1. single handler
# ------------------------------------------------------------------------------------------------
class Single(explore.System):
    INITS = [(sn, c, act) for sn in (0, 0xFFFD, 0xFFFE) for c in (False, True) for act in (False, True)]
    KINDS = list(DG)

    def __init__(self, init):
        sn, connected = init[0], init[1]
        active = init[2] if len(init) > 2 else False
        self.impl = RRSDatagramProtocol(port=30001, be_active_peer=active)
        self.tr = RecDatagramTransport()
        self.impl.connection_made(self.tr)
        self.impl.sn = sn
        self.impl.hstrp_connected = connected
        self.m_connected = connected
        self.m_registry = {}
        self.obs = None
        self.pending = []
        if registry_view(self.impl):
            # "after any history the registry holds ... the state implied by that radio's messages": a handler that has
            # not received anything holds nothing (state leaking in from other handler instances)
            self.pending.append(("fresh_handler_registry_not_empty", {"registry": registry_view(self.impl)}))
            self.impl.registry.clear() if hasattr(self.impl.registry, "clear") else None

    SECOND_PEER_KINDS = ["CONNECT", "CLOSE", "HEARTBEAT", "REG_A", "OFF_A", "CLOSE_ACK"]

    def events(self):
        return list(self.KINDS) + [k + "@2" for k in self.SECOND_PEER_KINDS] + ["ENDPOINT_REPLACED"]

    def step(self, kind):
        if kind == "ENDPOINT_REPLACED":
            # the handler object is given to a new datagram endpoint while the old one is still open: asyncio calls
            # connection_made(new) and, once the old endpoint has closed, connection_lost(None).  Not a datagram: nothing is sent, the
            # link counts as closed (documented in connection_lost), and every later datagram is answered through the new endpoint.
            viol = list(self.pending)
            self.pending = []
            new_tr = RecDatagramTransport()
            try:
                self.impl.connection_made(new_tr)
                self.impl.connection_lost(None)
            except Exception as e:  # noqa: BLE001
                viol.append(("exception:" + exc_sig(e), {"event": kind, "exc": repr(e)}))
            if self.tr.sent and False:
                pass
            self.tr = new_tr
            self.m_connected = self.impl.hstrp_connected  # (statement silent: follow the implementation)
            self.obs = (kind, (), None, None)
            return viol
        peer = PEER
        if kind.endswith("@2"):
            kind = kind[:-2]
            peer = PEER2  # the same message classes from another source address: link state and registry are the handler's, not the peer's
        self.cur_peer = peer
        data = DG[kind]
        viol = list(self.pending)
        self.pending = []
        self.tr.sent = []
        reg_before = registry_view(self.impl)
        conn_before = self.impl.hstrp_connected
        raised = None
        ret = None
        try:
            ret = self.impl.datagram_received(data, peer)
        except Exception as e:  # noqa: BLE001
            raised = e
        sent = list(self.tr.sent)
        case = {"event": kind, "from": list(peer), "datagram": data.hex(), "connected_before": conn_before, "sent": [o.hex() for o, _ in sent]}
        if raised is not None:
            viol.append(("exception:" + exc_sig(raised), {**case, "exc": repr(raised)}))
            self.obs = (kind, "raised", type(raised).__name__)
            return viol
        if not (isinstance(ret, tuple) and len(ret) == 2 and isinstance(ret[0], bool) and (ret[1] is None or isinstance(ret[1], HSTRP))):
            viol.append(("return_value_shape", {**case, "ret": repr(ret)}))
        for _, a in sent:
            if a != peer:
                viol.append(("answer_sent_to_other_address", case))
                break
        outs = [o for o, _ in sent]
        n_acks = sum(1 for o in outs if (parse_out(o) or {}).get("type", 0) & T_ACK)
        t = parse_out(data)["type"] if kind not in MALFORMED and parse_out(data) else None
        if kind in MALFORMED:
            if outs:
                viol.append(("malformed_datagram_answered", case))
            if registry_view(self.impl) != reg_before or self.impl.hstrp_connected != conn_before:
                viol.append(("malformed_datagram_changed_state", case))
        elif kind in ACK_BEARING:
            if outs:
                viol.append(("acknowledgement_answered", case))
            # "last connect/close seen": a datagram with the connect (close) bit is a connect (close) seen, also when it is the peer's
            # confirmation of our own connect (close) -- that is how the side that opened the connection ever becomes connected
            if kind == "CONNECT_ACK":
                self.m_connected = True
            elif kind == "CLOSE_ACK":
                self.m_connected = False
        elif kind in ("CONNECT", "CONNECT_SN", "CLOSE", "CONNECT_RTP"):
            if len(outs) != 1 or not is_ack_for(outs[0], data):
                viol.append(("connect_close_not_acknowledged_exactly_once", case))
            self.m_connected = kind != "CLOSE"
        elif kind == "HEARTBEAT":
            want = 1 if self.m_connected else 0
            hb = [o for o in outs if (parse_out(o) or {}).get("type") == T_HB]
            if len(outs) != want or len(hb) != want:
                viol.append(("heartbeat_echo_%s" % ("missing_while_connected" if want else "while_disconnected"), case))
        elif kind in DATA:
            acks = [o for o in outs if is_ack_for(o, data)]
            if len(acks) != 1 or n_acks != 1:
                viol.append(("data_not_acknowledged_exactly_once", {**case, "acks": len(acks)}))
            others = [o for o in outs if not is_ack_for(o, data)]
            if kind in REG_IP:
                ip = REG_IP[kind]
                self.m_registry[ip_str(ip)] = "Online"
                if len(others) != 1 or not is_rrs_success_answer(others[0], ip):
                    viol.append(("registration_not_answered_by_one_success_answer", case))
            else:
                if kind in OFF_IP:
                    self.m_registry[ip_str(OFF_IP[kind])] = "Offline"
                if others:
                    viol.append(("unexpected_extra_datagram", case))
        elif kind in ("REJECT", "REJECT_TMP_BADTEXT"):
            if len(outs) > 1:
                viol.append(("reject_answered_more_than_once", case))
        if self.impl.hstrp_connected != self.m_connected:
            viol.append(("connected_flag_differs_from_history", {**case, "flag": self.impl.hstrp_connected, "model": self.m_connected}))
            self.m_connected = self.impl.hstrp_connected
        if dict(registry_view(self.impl)) != self.m_registry:
            viol.append(("registry_differs_from_history", {**case, "registry": registry_view(self.impl), "model": self.m_registry}))
            self.m_registry = dict(registry_view(self.impl))
        if not (0 <= self.impl.sn <= 0xFFFF):
            viol.append(("own_sequence_number_out_of_16_bits", {**case, "sn": self.impl.sn}))
        self.obs = (kind, tuple((parse_out(o) or {}).get("type") for o in outs), ret[0] if isinstance(ret, tuple) else None, ret[1] is None if isinstance(ret, tuple) else None)
        return viol

    def key(self):
        return (self.impl.hstrp_connected, self.impl.sn, registry_view(self.impl), self.m_connected, tuple(sorted(self.m_registry.items())),
                repr(canon(self.impl, skip=IMPL_SKIP)), self.impl.transport is self.tr)


# ------------------------------------------------------------------------------------------------
# 1b. the handler with its periodic_maintenance() coroutine running as a real asyncio Task on a virtual event loop
# ------------------------------------------------------------------------------------------------
from mc.vloop import VLoop  # noqa: E402

CLOCK0 = 1_700_000_000.0


class Maint(Single):
    """Schedules, not only datagram sequences: `periodic_maintenance()` is what an application runs next to the endpoint
    (tools/hrnp_client.py does).  It is started as a stock asyncio.Task on a VLoop whose ready queue and timer heap the explorer pops by
    hand, so between any two loop callbacks a datagram (or an endpoint replacement) may arrive - exactly the places where the real loop
    could deliver one.  The clock the library reads (datetime.now) is the loop's virtual clock.  Events:

      <datagram class>    one datagram_received call, Single's oracle unchanged (answers are the call's synchronous sends)
      LOOP_STEP           the loop runs its next ready callback (a task step, a timer's set_result, ...)
      TIMER               time passes until the earliest timer is due; due timers become ready (nothing runs yet)
      IDLE_70S / _400S    a long silence: the loop runs (callbacks and timers) until 70 s / 400 s of virtual time have passed -
                          longer than T_HEARTBEAT * T_NUMBEAT (60 s) and than the renew time of a registration (300 s)

    Whatever the loop does on its own must leave the statement's observables alone: the connected flag still is 'last connect/close
    seen', the registry still holds what each radio's last message implies, the own sequence number fits 16 bits, and nothing the loop
    sends is an acknowledgement (every message has been answered once already, in the call that handled it)."""

    INITS = [(0, False, False), (0, True, False), (0xFFFE, False, True), (0, True, True)]
    KINDS = ["CONNECT", "CLOSE", "CONNECT_ACK", "CLOSE_ACK", "HEARTBEAT", "ACK", "REG_A", "OFF_A", "REG_B", "RCP_NOOPT", "BADMAGIC"]
    SECOND_PEER_KINDS = ["CLOSE", "REG_A"]
    LOOP_EVENTS = ("LOOP_STEP", "TIMER", "IDLE_70S", "IDLE_400S")

    def __init__(self, init):
        SEAMS.clock = CLOCK0
        super().__init__(init)
        self._init = init
        self._path = []
        self.loop = VLoop()
        with self.loop.running():
            self.task = self.loop.create_task(self.impl.periodic_maintenance())
        self.loop_sent = 0

    def clone(self):  # a live coroutine cannot be copied: re-build from the path on fresh objects
        c = type(self)(self._init)
        for ev in self._path:
            c.step(ev)
        return c

    def __del__(self):
        try:
            self.loop.shutdown([self.task])
        except Exception:  # noqa: BLE001
            pass

    def events(self):
        evs = list(self.KINDS) + [k + "@2" for k in self.SECOND_PEER_KINDS] + ["ENDPOINT_REPLACED"]
        if self.loop.ready_count():
            evs.append("LOOP_STEP")
        if self.loop.timer_count():
            evs.append("TIMER")
        if self.loop.ready_count() or self.loop.timer_count():
            evs += ["IDLE_70S", "IDLE_400S"]
        return evs

    def step(self, kind):
        self._path.append(kind)
        SEAMS.clock = CLOCK0 + self.loop.time()
        if kind not in self.LOOP_EVENTS:
            with self.loop.running():
                viol = super().step(kind)
            return viol
        viol = list(self.pending)
        self.pending = []
        self.tr.sent = []
        case = {"event": kind, "virtual_time": self.loop.time(), "connected_before": self.impl.hstrp_connected}
        ran = 0
        try:
            if kind == "LOOP_STEP":
                ran = 1 if self.loop.step() else 0
            elif kind == "TIMER":
                self.loop.advance()
            else:
                until = self.loop.time() + (70.0 if kind == "IDLE_70S" else 400.0)
                while ran < 2000:
                    if self.loop.ready_count():
                        SEAMS.clock = CLOCK0 + self.loop.time()
                        self.loop.step()
                        ran += 1
                        continue
                    nt = self.loop.next_timer()
                    if nt is None or nt > until:
                        break
                    self.loop.advance()
                self.loop._vt = max(self.loop._vt, until)
        except Exception as e:  # noqa: BLE001 - a callback's exception never leaves Handle._run; this would be the harness or the loop
            viol.append(("exception_out_of_the_event_loop:" + exc_sig(e), {**case, "exc": repr(e)}))
        SEAMS.clock = CLOCK0 + self.loop.time()
        outs = [o for o, _ in self.tr.sent]
        self.loop_sent += len(outs)
        case["sent"] = [o.hex() for o in outs[:6]]
        if any((parse_out(o) or {}).get("type", 0) & T_ACK for o in outs):
            viol.append(("acknowledgement_sent_by_the_event_loop_not_by_the_handling_of_a_message", case))
        if any(is_rrs_success_answer(o, ip) for o in outs for ip in (IP_A, IP_B)):
            # every registration request was answered once, in the call that handled it: an answer from a loop callback is a second one
            viol.append(("registration_answered_again_by_the_event_loop", case))
        if self.impl.hstrp_connected != self.m_connected:
            viol.append(("connected_flag_changed_without_a_connect_or_close", {**case, "flag": self.impl.hstrp_connected, "model": self.m_connected}))
            self.m_connected = self.impl.hstrp_connected
        if dict(registry_view(self.impl)) != self.m_registry:
            viol.append(("registry_changed_without_a_message", {**case, "registry": registry_view(self.impl), "model": self.m_registry}))
            self.m_registry = dict(registry_view(self.impl))
        if not (0 <= self.impl.sn <= 0xFFFF):
            viol.append(("own_sequence_number_out_of_16_bits", {**case, "sn": self.impl.sn}))
        self.obs = (kind, tuple((parse_out(o) or {}).get("type") for o in outs[:4]), len(outs) if len(outs) < 4 else "many", ran if ran < 4 else "many",
                    bool(self.loop.errors), self.task.done())
        return viol

    def key(self):
        now = self.loop.time()
        return (super().key(), now, self.loop.describe({self.task: "maintenance"}), self.task.done(), len(self.loop.errors))


# ------------------------------------------------------------------------------------------------
# 2. closed system of two handlers
# ------------------------------------------------------------------------------------------------
ADDR = {"A": ("192.0.2.1", 30001), "B": ("192.0.2.2", 30001)}
INJECT = ["CONNECT", "CLOSE", "CONNECT_ACK", "CLOSE_ACK", "ACK", "REG_A", "OFF_A", "RCP_NOOPT", "REJECT", "HEARTBEAT", "ACK_OPT", "UNKSVC"]
QUIET_BOUND = 8


class Closed(explore.System):
    INITS = [(False, False), (True, True), (True, False)]
    BUDGET = 2

    def __init__(self, init):
        self.h = {}
        self.tr = {}
        for name, conn in zip("AB", init):
            p = RRSDatagramProtocol(port=30001)
            t = RecDatagramTransport()
            p.connection_made(t)
            p.hstrp_connected = conn
            self.h[name] = p
            self.tr[name] = t
        self.m_reg = {"A": {}, "B": {}}  # per handler: registry implied by the datagrams *it* received
        self.inflight = []  # list of (dst_name, src_name, bytes), kept sorted (multiset)
        self.budget = self.BUDGET
        self.since_inject = 0
        self.hb_dropped = 0
        self.dead = False
        self.obs = None

    def events(self):
        if self.dead:
            return []
        evs = []
        if self.budget > 0:
            evs += [("inject", k, dst) for k in INJECT for dst in ("A",)]
        seen = set()
        for i, m in enumerate(self.inflight):
            if m not in seen:
                seen.add(m)
                evs.append(("deliver", i))
        return evs

    def step(self, ev):
        viol = []
        if ev[0] == "inject":
            _, kind, dst = ev
            src = "B" if dst == "A" else "A"
            data = DG[kind]
            self.budget -= 1
            self.since_inject = 0
        else:
            dst, src, data = self.inflight.pop(ev[1])
            self.since_inject += 1
        h, tr = self.h[dst], self.tr[dst]
        tr.sent = []
        try:
            h.datagram_received(data, ADDR[src])
        except Exception as e:  # noqa: BLE001
            viol.append(("exception:" + exc_sig(e), {"event": list(ev), "datagram": data.hex(), "exc": repr(e)}))
        eff = rrs_effect(data)
        if eff is not None:
            self.m_reg[dst][eff[0]] = eff[1]
        for n in "AB":
            if dict(registry_view(self.h[n])) != self.m_reg[n]:
                viol.append(("registry_of_a_handler_differs_from_its_own_history", {"event": list(ev), "handler": n, "registry": registry_view(self.h[n]),
                                                                                   "model": self.m_reg[n]}))
                self.m_reg[n] = dict(registry_view(self.h[n]))
        for o, a in tr.sent:
            p = parse_out(o)
            if p is not None and p["type"] == T_HB:
                # heartbeat echo between two connected peers is the one exchange the statement permits to continue:
                # it is counted, not re-delivered
                self.hb_dropped += 1
                continue
            to = "A" if a == ADDR["A"] else "B"
            self.inflight.append((to, dst, o))
        self.inflight.sort()
        if self.since_inject > QUIET_BOUND and self.inflight:
            viol.append(("handlers_keep_answering_each_other", {"event": list(ev), "inflight": [(d, s, b.hex()) for d, s, b in self.inflight],
                                                               "deliveries_since_last_injection": self.since_inject}))
            self.dead = True
        self.obs = (ev[0], ev[1] if ev[0] == "inject" else (parse_out(data) or {}).get("type"), len(self.inflight))
        return viol

    def key(self):
        return (
            tuple((n, self.h[n].hstrp_connected, self.h[n].sn, registry_view(self.h[n])) for n in "AB"),
            tuple(self.inflight), self.budget, self.since_inject, self.dead,
            tuple(repr(canon(self.h[n], skip=IMPL_SKIP)) for n in "AB"),
        )


class Closed3(Closed):
    BUDGET = 3


# ------------------------------------------------------------------------------------------------
# 3. malformed datagrams at depth 1 from several reachable states
# ------------------------------------------------------------------------------------------------
PRE_STATES = {"fresh": [], "connected": ["CONNECT"], "registered": ["CONNECT", "REG_A", "REG_B"], "closed": ["CONNECT", "REG_A", "CLOSE"]}


def corrupted_variants(two_bit=False):
    out = []
    for kind, d in DG.items():
        if kind in MALFORMED:
            continue
        for n in range(len(d)):
            out.append((kind, "trunc", n, d[:n]))
        for bit in range(len(d) * 8):
            b = bytearray(d)
            b[bit // 8] ^= 0x80 >> (bit % 8)
            out.append((kind, "flip", bit, bytes(b)))
        if two_bit:
            nb = len(d) * 8
            for b1 in range(nb):
                for b2 in range(b1 + 1, nb):
                    b = bytearray(d)
                    b[b1 // 8] ^= 0x80 >> (b1 % 8)
                    b[b2 // 8] ^= 0x80 >> (b2 % 8)
                    out.append((kind, "flip2", b1 * 1000 + b2, bytes(b)))
    return out


def grammar_variants():
    """message type x option chain x payload, composed by the harness's writer (the alphabet members fix one chain per type): every
    option type 1..7 (2 is not in the table) with value lengths 0/1/2/4 and value octets 00/01/02/FF - alone, after a DeviceID, and
    before a ChannelID - on every type octet the dispatch distinguishes, with every payload class.  The handler logs (repr) what it
    rejects and what it does not handle, so the rarely taken branches meet every chain."""
    chains = []
    for t in range(1, 8):
        for ln in (0, 1, 2, 4):
            for fill in (0x00, 0x01, 0x02, 0xFF):
                if ln == 0 and fill:
                    continue
                one = bytes([ln]) + bytes([fill]) * ln
                chains.append(("t%d_l%d_%02x" % (t, ln, fill), bytes([t]) + one))
                chains.append(("dev+t%d_l%d_%02x" % (t, ln, fill), bytes.fromhex("83040001869f") + bytes([t]) + one))
                chains.append(("t%d_l%d_%02x+chan" % (t, ln, fill), bytes([0x80 | t]) + one + bytes.fromhex("040102")))
    payloads = {"none": b"", "reg": rrs(0x03, IP_A), "off": rrs(0x01, IP_A), "status": rrs(0x02, IP_A), "rcp": RCP_CALL, "tmp_badtext": TMP_BADTEXT}
    types = {"data": 0x00, "reject": T_REJECT, "connect": T_CONNECT, "close": T_CLOSE, "heartbeat": T_HB, "ack": T_ACK, "reject_ack": T_REJECT | T_ACK}
    out = []
    n = 0
    for tname, tb in types.items():
        for pname, pl in payloads.items():
            if pl and tname in ("connect", "close", "heartbeat"):
                continue
            for cname, ch in chains:
                n += 1
                out.append(("%s/%s" % (tname, pname), "grammar:" + cname, n, hstrp(tb | T_OPT, 0x0101 + (n & 0xFF), ch, pl)))
    return out


def w_malformed(task):
    pre_name, lo, hi = task
    acc = Acc()
    variants = VARIANTS[lo:hi]
    base = Single((0, False, False))
    for k in PRE_STATES[pre_name]:
        base.step(k)
    for kind, how, n, data in variants:
        s = copy.deepcopy(base)
        s.tr.sent = []
        case = {"state": pre_name, "base": kind, "how": how, "at": n, "datagram": data.hex()}
        before = (s.impl.hstrp_connected, s.impl.sn, registry_view(s.impl))
        try:
            ret = s.impl.datagram_received(data, PEER)
        except Exception as e:  # noqa: BLE001
            acc.violation("exception:" + exc_sig(e), case, repr(e))
            acc.case()
            continue
        outs = [o for o, _ in s.tr.sent]
        if not (isinstance(ret, tuple) and len(ret) == 2 and isinstance(ret[0], bool)):
            acc.violation("return_value_shape", case)
        p = parse_out(data)
        # whatever the corruption: every ack sent carries the datagram's own sequence number, at most one ack, at most 2 datagrams
        acks = [o for o in outs if (parse_out(o) or {}).get("type", 0) & T_ACK]
        if len(acks) > 1 or len(outs) > 2:
            acc.violation("corrupted_datagram_answered_more_than_once", {**case, "sent": [o.hex() for o in outs]})
        for o in acks:
            if p is None or parse_out(o)["sn"] != p["sn"]:
                acc.violation("ack_with_foreign_sequence_number", {**case, "sent": [o.hex() for o in outs]})
        if p is None and outs:
            acc.violation("non_hstrp_datagram_answered", {**case, "sent": [o.hex() for o in outs]})
        # an ack-bearing datagram is never acknowledged (a service payload piggy-backed on it may still get its
        # application-level answer, which is a data message and not part of the ack discipline)
        if p is not None and (p["type"] & T_ACK) and acks:
            acc.violation("acknowledgement_answered", {**case, "sent": [o.hex() for o in outs]})
        if p is None and before != (s.impl.hstrp_connected, s.impl.sn, registry_view(s.impl)):
            acc.violation("non_hstrp_datagram_changed_state", case)
        acc.case(nontrivial=True, outcome=(how, len(outs), ret[0] if isinstance(ret, tuple) else None), sample=case if (n == 3) else None)
    return acc


VARIANTS = []

WHAT = {
    "acknowledgement_answered": "a datagram carrying the ACK bit was answered (two handlers can ping-pong)",
    "handlers_keep_answering_each_other": "two handlers wired back to back do not go quiet after the last injected datagram",
    "connected_flag_differs_from_history": "hstrp_connected is not 'last connect/close seen was a connect'",
    "registry_differs_from_history": "registry is not the state implied by each radio's last registration/offline message",
    "connected_flag_changed_without_a_connect_or_close": "the event loop (maintenance task / a timer), not a connect or close message, changed hstrp_connected",
    "registry_changed_without_a_message": "the event loop (maintenance task / a timer), not a radio's message, changed the registry",
    "acknowledgement_sent_by_the_event_loop_not_by_the_handling_of_a_message": "an acknowledgement was sent from a loop callback: every message is acknowledged once, in the call that handles it",
    "registration_answered_again_by_the_event_loop": "a registration success answer was sent from a loop callback: each registration request is answered by one success answer, in the call that handles it",
}


def run(only=None):
    rep = Report("C17")
    SEAMS.install()
    rep.explanation = (
        "Explicit-state BFS over the real RRSDatagramProtocol: one transition = one datagram_received call (or one delivery between two "
        "real handlers); outputs parsed by the harness's own HSTRP/HDAP parser and compared with a reference model; every discovered "
        "state rebuilt from its path on fresh objects. Plus complete enumeration of all truncations and single-bit corruptions of "
        "every alphabet datagram at depth 1 from 4 reachable states. Schedules: the handler(s) with the periodic_maintenance() coroutine(s) as stock asyncio.Tasks on a "
        "virtual event loop (mc/vloop.py) whose ready queue, timer heap and clock the explorer pops by hand - every order of datagram arrivals, loop callbacks and "
        "timer expiries to the stated depth; states rebuilt by replaying the schedule on a fresh loop (a live coroutine cannot be copied)."
    )
    rep.assumptions = [
        "datetime.now replaced by a constant clock (schedule searches: by the virtual loop's clock); no real transport (recording DatagramTransport)",
        "schedule searches: asyncio's stock BaseEventLoop / Task / sleep semantics (FIFO ready queue, timers by deadline); the maintenance CONNECT of the closed system is addressed to the peer",
        "a datagram with the connect (close) bit counts as 'a connect (close) seen' whether or not it also carries the ACK bit (CONNECT|ACK is how the side that opened the connection learns it is connected); plain ACKs leave the flag alone",
        "REJECT datagrams: the statement does not say whether they are acknowledged; only 'at most one answer, no exception' is required",
        "closed system: heartbeat echoes between two connected handlers are permitted by the statement and are counted, not re-delivered",
        "the registration answer is located by its trailing RRS frame (the library emits it with the option bit set but no option chain)",
    ]
    thorough = rep.thorough()
    if not only or "single_handler_bfs" in only:
        s = rep.sub("single_handler_bfs", rule=f"BFS, {len(DG)} datagram classes, inits sn in (0,0xFFFD,0xFFFE) x connected in (F,T), depth {12 if thorough else 5}; "
                                               "non-trivial = distinct (class, output types, return) observations")
        res = explore.bfs(Single, max_depth=12 if thorough else 5, log=rep.log)
        explore.feed(s, res, WHAT, name="single", rep=rep)
        s.extra["alphabet"] = {k: v.hex() for k, v in DG.items()}
        s.done()
        rep.bounds["single_handler_bfs"] = {"depth_completed": res.depth_completed, "states": res.states}
    if not only or "maintenance_task_schedules" in only:
        d = 7 if thorough else 5
        s = rep.sub("maintenance_task_schedules",
                    rule=f"the handler's periodic_maintenance() coroutine as a stock asyncio.Task on a virtual event loop (ready queue and timer heap popped by the explorer): "
                         f"all sequences to depth {d} over {len(Maint.KINDS) + len(Maint.SECOND_PEER_KINDS) + 1} datagram / endpoint events + LOOP_STEP + TIMER + two long-silence macro events, "
                         f"from {len(Maint.INITS)} initial states; states rebuilt by replay on a fresh loop; non-trivial = distinct observations")
        res = explore.bfs(Maint, max_depth=d, log=rep.log)
        explore.feed(s, res, WHAT, name="maint", rep=rep)
        s.extra["schedules"] = {"scheduling_points": "every loop callback boundary", "deviation_bound": "none (all orders to the depth)", "depth": res.depth_completed}
        s.done()
        rep.bounds["maintenance_task_schedules"] = {"depth_completed": res.depth_completed, "states": res.states}
    if not only or "closed_two_handlers_with_maintenance_tasks" in only:
        from checks.c17_sched import ClosedMaint
        d = 14 if thorough else 10
        s = rep.sub("closed_two_handlers_with_maintenance_tasks",
                    rule=f"two real handlers AND their two periodic_maintenance() tasks on one virtual event loop, wired back to back (the maintenance CONNECT goes to the peer), "
                         f"<= {ClosedMaint.BUDGET} injected datagram from {len(ClosedMaint.INJECT)} classes: all orders of deliveries, loop callbacks, timer expiries and the injection "
                         f"to depth {d} from 3 initial states; no exception, no answered acknowledgement, each flag / registry equals what that handler has seen, the exchange "
                         f"dies out within {8} deliveries after the last spontaneous send")
        res = explore.bfs(ClosedMaint, max_depth=d, log=rep.log)
        explore.feed(s, res, WHAT, name="closed_maint", rep=rep)
        s.done()
        rep.bounds["closed_two_handlers_with_maintenance_tasks"] = {"depth_completed": res.depth_completed, "states": res.states}
    if not only or "closed_two_handlers" in only:
        cls = Closed3 if thorough else Closed
        s = rep.sub("closed_two_handlers", rule=f"two real handlers back to back, <= {cls.BUDGET} injected datagrams from {len(INJECT)} classes, all delivery orders, "
                                                f"quiescence required within {QUIET_BOUND} deliveries after the last injection")
        res = explore.bfs(cls, max_depth=None, log=None)
        explore.feed(s, res, WHAT, name="closed", rep=rep)
        s.exhaustive = res.exhausted
        s.extra["runs_to_quiescence"] = True
        s.done()
        rep.bounds["closed_two_handlers"] = {"depth_completed": res.depth_completed, "states": res.states, "fixpoint": res.exhausted}
    if not only or "tla_model_conformance" in only:
        from checks import c17_tla
        b = 3 if thorough else 2
        s = rep.sub("tla_model_conformance",
                    rule=f"/verif/models/Hstrp.tla (the acknowledgement discipline for two handlers back to back, <= {b} injected messages of 8 classes, 3 initial flag pairs): TLC enumerates "
                         "every reachable model state (invariants: the exchange dies out, type bounds) and prints every transition; each transition is replayed on two fresh real "
                         "handlers from the breadth-first representative of its source state and the abstraction of the reached implementation state must be the model's successor")
        st = c17_tla.conformance(s, b)
        if isinstance(st, str):
            rep.log("tla_model_conformance skipped: " + st)
            s.extra["skipped"] = st
            s.exhaustive = False
        else:
            s.extra["tlc"] = st
            s.states = (s.states or 0) + st["model_states"]
            s.transitions = (s.transitions or 0) + st["model_transitions"]
            s.traces = (s.traces or 0) + st["transitions_replayed_against_the_implementation"]
        s.done()
    if not only or "malformed_depth1" in only:
        s = rep.sub("malformed_depth1", rule="every prefix truncation and every single-bit flip (thorough: and every two-bit flip) of every well-formed alphabet datagram, and every (type octet x payload class x option chain) "
                                             "composition of the harness's writer (7 x 6 x 3 placements of every option type 1..7 with lengths 0/1/2/4 and fills 00/01/02/FF), delivered in 4 reachable states; "
                                             "non-trivial: every variant (distinct bytes)")
        VARIANTS[:] = corrupted_variants(two_bit=thorough) + grammar_variants()
        tasks = [(pre, lo, hi) for pre in PRE_STATES for lo, hi in par.chunks(len(VARIANTS), 64 if thorough else 16)]
        s.declared = len(VARIANTS) * len(PRE_STATES)
        for acc in par.pmap(w_malformed, tasks):
            s.merge(acc)
        s.done()
    if not only or "many_radios" in only:
        s = rep.sub("many_radios",
                    "one linear history with the real handler: 1300 distinct radios register (one data message each, sequence numbers wrapping), every "
                    "third goes offline again, then the registry holds for each radio the state its last message implies; every message was "
                    "acknowledged once and every registration answered once")
        try:
            impl = RRSDatagramProtocol(port=30001)
            tr = RecDatagramTransport()
            impl.connection_made(tr)
            ips = [bytes([10, 20 + i // 250, i % 250, 1 + (i % 3)]) for i in range(1300)]
            want = {}
            for i, ip in enumerate(ips):
                for op_, state in ((0x03, "Online"),) + (((0x01, "Offline"),) if i % 3 == 0 else ()):
                    data = hstrp(T_OPT, (i * 2 + op_) & 0xFFFF, OPTS, rrs(op_, ip))
                    tr.sent = []
                    impl.datagram_received(data, PEER)
                    outs = [o for o, _ in tr.sent]
                    acks = [o for o in outs if is_ack_for(o, data)]
                    others = [o for o in outs if not is_ack_for(o, data)]
                    if len(acks) != 1:
                        s.violation("many_radios:data_not_acknowledged_exactly_once", {"radio_index": i, "acks": len(acks)})
                    if op_ == 0x03 and (len(others) != 1 or not is_rrs_success_answer(others[0], ip)):
                        s.violation("many_radios:registration_not_answered_by_one_success_answer", {"radio_index": i})
                    want[ip_str(ip)] = state
                s.case(nontrivial=True, calls=1, outcome="radio", sample={"radio": ip_str(ip)} if i == 0 else None)
            got = dict(registry_view(impl))
            if got != want:
                missing = [k for k in want if k not in got]
                wrong = [k for k in want if k in got and got[k] != want[k]]
                extra = [k for k in got if k not in want]
                s.violation("many_radios:registry_differs_from_history", {"missing": len(missing), "wrong_state": len(wrong), "unexpected": len(extra), "radios": len(want),
                                                                          "first_missing": missing[:2]},
                            "after many radios registered the registry no longer holds the state implied by each radio's last message")
        except Exception as e:  # noqa: BLE001
            s.violation("many_radios:exception:" + exc_sig(e), {}, repr(e))
        s.done()
    return rep.finish()


def replay(doc):
    SEAMS.install()
    bad = 0
    for c in doc.get("cases", []):
        if doc["check"] == "malformed_depth1":
            s = Single((0, False, False))
            for k in PRE_STATES[c["state"]]:
                s.step(k)
            try:
                r = s.impl.datagram_received(bytes.fromhex(c["datagram"]), PEER)
                print("  returned", r, "sent", [o.hex() for o, _ in s.tr.sent])
            except Exception as e:  # noqa: BLE001
                print("  raised", repr(e))
                bad += 1
            continue
        if doc["check"] == "closed_two_handlers_with_maintenance_tasks":
            from checks.c17_sched import ClosedMaint
        cls = {"single_handler_bfs": Single, "closed_two_handlers": Closed3, "maintenance_task_schedules": Maint,
               "closed_two_handlers_with_maintenance_tasks": globals().get("ClosedMaint") or locals().get("ClosedMaint")}[doc["check"]]
        init = c["init"]
        s = cls(tuple(init) if isinstance(init, list) else init)
        for ev in c["path"]:
            ev = tuple(ev) if isinstance(ev, list) else ev
            v = s.step(ev)
            print("  ", ev, "->", s.obs, ("VIOLATIONS: " + repr([x[0] for x in v])) if v else "")
            bad += len(v)
    print("replay:", "still fails" if bad else "does not reproduce")
    return 1 if bad else 0

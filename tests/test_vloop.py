"""mc/vloop.py: the virtual event loop the C17 schedule search stands on (plain pytest, no explorer).

run: cd /verif && /venv/bin/python -m pytest -q -p no:cacheprovider tests/test_vloop.py
"""
import asyncio
import os
import sys

sys.path.insert(0, os.path.dirname(os.path.dirname(os.path.abspath(__file__))))

from mc.vloop import VLoop  # noqa: E402


async def ticker(log, n, period):
    for i in range(n):
        log.append((asyncio.get_running_loop().time(), i))
        await asyncio.sleep(period)
    return "done"


def drive(schedule):
    """schedule: string of 's' (step) / 'a' (advance); returns the observation list"""
    loop = VLoop()
    log = []
    with loop.running():
        t1 = loop.create_task(ticker(log, 3, 5))
        t2 = loop.create_task(ticker(log, 2, 7))
    for ch in schedule:
        if ch == "s":
            loop.step()
        else:
            loop.advance()
    obs = (list(log), loop.time(), loop.ready_count(), loop.timer_count(), t1.done(), t2.done())
    loop.shutdown([t1, t2])
    return obs


def test_same_schedule_same_observations():
    sch = "ssasasssasssas"
    assert drive(sch) == drive(sch)


def test_time_only_moves_by_advance_and_tasks_only_by_step():
    loop = VLoop()
    log = []
    with loop.running():
        t = loop.create_task(ticker(log, 2, 5))
    assert log == [] and loop.ready_count() == 1          # nothing ran yet
    assert loop.step() and log == [(0.0, 0)]               # first task step, then it sleeps
    assert loop.ready_count() == 0 and loop.timer_count() == 1 and loop.time() == 0.0
    assert not loop.step()                                  # nothing ready: step does not move the clock
    assert loop.advance() and loop.time() == 5.0 and loop.ready_count() == 1
    loop.drain()
    assert log == [(0.0, 0), (5.0, 1)]
    loop.advance()
    loop.drain()
    assert t.done() and t.result() == "done" and not loop.errors
    loop.shutdown([t])


def test_task_exception_is_collected_not_raised():
    async def boom():
        await asyncio.sleep(1)
        raise ValueError("x")

    loop = VLoop()
    with loop.running():
        t = loop.create_task(boom())
    loop.step()
    loop.advance()
    loop.drain()
    assert t.done() and isinstance(t.exception(), ValueError)
    loop.shutdown([t])


def test_two_loops_do_not_see_each_other():
    a, b = VLoop(), VLoop()
    la, lb = [], []
    with a.running():
        ta = a.create_task(ticker(la, 2, 5))
    with b.running():
        tb = b.create_task(ticker(lb, 2, 5))
    a.step()
    a.advance()
    a.drain()
    assert la == [(0.0, 0), (5.0, 1)] and lb == [] and b.time() == 0.0
    a.shutdown([ta])
    b.shutdown([tb])

"""Standalone witnesses for the three C12 defects (run: PYTHONPATH=/repo /venv/bin/python C12_witnesses.py; prints FAIL lines on the pinned tree, ok lines with the C12_*.diff patches)."""
from datetime import date, time
from okdmr.dmrlib.hytera.pdu.hdap import HDAP
from okdmr.dmrlib.hytera.pdu.radio_ip import RadioIP
from okdmr.dmrlib.hytera.pdu.location_protocol import LocationProtocol, LocationProtocolSpecificService as S, GPSData
from okdmr.dmrlib.hytera.pdu.text_message_protocol import TextMessageProtocol, TMPService

# 1. GPS speed >= 10 kn overflows the 3-character speed field: 41-byte GPS block, direction is read from the wrong place
g = GPSData("A", time(18, 36, 48), date(2015, 10, 26), "N", 4718.8051, "E", 1854.4387, 12.5, 121)
lp = LocationProtocol(S.StandardReport, request_id=1, radio_ip=RadioIP(1001), gpsdata=g)
q = HDAP.from_bytes(lp.as_bytes())
print("gps block bytes:", len(g.as_bytes()), "| direction built 121 parsed", q.gpsdata.direction, "| round trip equal:", q.as_bytes() == lp.as_bytes())
print("FAIL speed field" if len(g.as_bytes()) != 40 or q.gpsdata.direction != 121 else "ok speed field")

# 2. LP StandardRequest loses the reliable flag when parsed
r = LocationProtocol(S.StandardRequest, request_id=1, radio_ip=RadioIP(1001), is_reliable=True)
q = HDAP.from_bytes(r.as_bytes())
print("request bytes", r.as_bytes().hex(), "-> parsed is_reliable", q.is_reliable, "re-serialised", q.as_bytes().hex())
print("FAIL reliable flag" if q.as_bytes() != r.as_bytes() else "ok reliable flag")

# 3. TMP with the option flag and zero-length option data cannot be serialised (after parsing its own bytes / when option_data is left None)
t = TextMessageProtocol(TMPService.SendPrivateMessage, RadioIP(1002), RadioIP(1001), has_option=True, option_data=b"", text_data="hi")
try:
    print("ok empty option" if HDAP.from_bytes(t.as_bytes()).as_bytes() == t.as_bytes() else "FAIL empty option: bytes differ")
except TypeError as e:
    print("FAIL empty option:", repr(e))

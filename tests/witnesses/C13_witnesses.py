"""Standalone witnesses for the C13 defects (run: PYTHONPATH=/repo /venv/bin/python C13_witnesses.py; prints FAIL lines on the pinned tree, ok lines with the C13_*.diff patches).
The frame is a CSBK capture from okdmr/tests/dmrlib/etsi/layer2/test_burst.py (cc 5, dst 2308092, src 2308094)."""
from okdmr.kaitai.hytera.ip_site_connect_protocol import IpSiteConnectProtocol
from okdmr.dmrlib.etsi.layer2.burst import Burst

frame = bytes.fromhex("5a5a5a5a570300004100050102000000222233335555000040f5c545f705e8bd0c26080850b4fd9457ff5dd7dcf5e6ae3877796501781fbb1a330046f7050000fc372300fe372300")
raw = Burst.from_hytera_ipsc(frame)
gen = Burst.from_hytera_ipsc(IpSiteConnectProtocol.from_bytes(frame))
for name, b in (("raw bytes", raw), ("generic parser", gen)):
    print(f"{name:15s} src={b.source_radio_id} dst={b.target_radio_id} frame colour={b.hytera_ipsc.color_code}")
print("FAIL raw path ids/colour" if (raw.source_radio_id, raw.target_radio_id, raw.hytera_ipsc.color_code) != (2308094, 2308092, 5) else "ok raw path")
for name, b in (("raw bytes", raw), ("generic parser", gen)):
    try:
        out = b.hytera_ipsc.as_ipsc_bytes()
        print(f"{name:15s} re-encode:", "ok" if out == frame else f"FAIL differs ({len(out)} bytes)")
    except Exception as e:
        print(f"{name:15s} re-encode: FAIL", repr(e))
# the 34th payload byte (offset 58) is dropped by both decoders: a captured wake-up frame (byte 58 = 0xef) cannot be reproduced
wake = bytes.fromhex("5a5a5a5a0000000042000501010000001111dddd555500004000000000000000000000000100020002000100000000000000000000000000ffffef082a00000000000000fb372300")
h = Burst.from_hytera_ipsc(IpSiteConnectProtocol.from_bytes(wake)).hytera_ipsc
print("payload bytes kept:", len(h.payload), "of 34 | attribute for byte 58:", hasattr(h, "payload_padding"))
try:
    print("ok filler byte" if h.as_ipsc_bytes() == wake else "FAIL filler byte not reproduced")
except Exception as e:
    print("FAIL filler byte (serialiser raises first):", repr(e))

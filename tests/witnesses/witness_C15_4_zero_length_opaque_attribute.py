# C15: token 0x37 (result, zero-length content, attribute result-code carried as uintvar): the writer emits the
# result code, the reader never reads it.  (Parse first: get_token() damages the class-level tables - C19's finding.)
from okdmr.dmrlib.motorola.mbxml import MBXML, MBXMLDocumentIdentifier as DI
from okdmr.dmrlib.motorola.lrrp import LRRP
x = bytes.fromhex("07023705")                # Immediate-Location-Report: <result result-code="5"/>
try:
    back = MBXML.from_bytes(x)[0]            # pinned tree: KeyError(5) - 0x05 is taken for the next element token
    ok = [a.value for a in back.parts[0].attributes if not isinstance(a, int)] == [5] and MBXML.as_bytes(back) == x
except KeyError as e:
    ok = False; print("from_bytes raised", repr(e))
doc = LRRP(document_id=DI.LRRP_ImmediateLocationReport_NCDT)
doc.parts.append(doc.get_token(name=0x37, value=b"", attributes={"result-code": 5}, is_request=False))
assert MBXML.as_bytes(doc) == x              # the library's own writer produces exactly these octets
assert ok, "octets produced by the library's writer for token 0x37 do not parse back"

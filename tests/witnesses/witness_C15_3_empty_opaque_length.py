# C15: a variable-length opaque element with empty content loses its length octet on serialisation
from okdmr.dmrlib.motorola.mbxml import MBXML
x = bytes.fromhex("0503" "2200" "62")      # request-id of length 0, then request-speed-hor
doc = MBXML.from_bytes(x)[0]
print([(hex(p.token_id), p.value) for p in doc.parts], MBXML.as_bytes(doc).hex())   # pinned: 05022262
assert MBXML.as_bytes(doc) == x

# C14: magnitudes whose leading septet has bit 6 set collide with the sign bit (64 -> 0x40 = "-0")
from okdmr.dmrlib.motorola.mbxml import MBXML
for v in (64, 100, -16383, 8191 + 1 + 8191):
    b = MBXML.write_sintvar(v)
    back, idx, sign = MBXML.read_sintvar(b + b"\xaa", 0)
    print(v, b.hex(), "->", back)
    assert back == v and idx == len(b), f"sintvar {v} written as {b.hex()} reads back {back}"

# C14: a fraction d/128^p with d < 128^(p-1) is written in fewer than p septets and read back 128x too large
from okdmr.dmrlib.motorola.mbxml import MBXML
v = 7 / 128**2                      # representable at precision 2
b = MBXML.write_ufloatvar(v, 2)     # pinned tree: 00 07  (should be 00 80 07)
back, idx = MBXML.read_ufloatvar(b + b"\xaa", 0)
print(b.hex(), back, "expected", v)
assert back == v and idx == len(b), "float fraction with leading zero septet does not round-trip"

# C16: TMS acknowledgement of sequence number 0 is written without the optional header and parses back as None
from okdmr.dmrlib.motorola.text_messaging_service import TextMessagingService, FirstHeader, TMSPDUType
m = TextMessagingService(first_header=FirstHeader(pdu_type=TMSPDUType.TMS_ACKNOWLEDGEMENT), address=b"", sequence_number=0)
b = m.as_bytes()
p = TextMessagingService.from_bytes(b)
print(b.hex(), p.sequence_number)            # pinned: 00021f00 None
assert p.sequence_number == 0

# C10: a 144-bit block supplied as bitarray(endian='little') does not survive encode/decode.
# Run: /venv/bin/python <this file>
from bitarray import bitarray
from okdmr.dmrlib.etsi.fec.trellis import Trellis34
s = "001" + "0" * 141
big, little = bitarray(s), bitarray(s, endian="little")
assert big == little and len(big) == 144               # the same 144-bit block
print(Trellis34.decode(Trellis34.encode(big)) == big)        # True
print(Trellis34.encode(big) == Trellis34.encode(little))     # False: equal inputs, different code words
assert Trellis34.decode(Trellis34.encode(little)) == little, "block comes back with every tribit bit-reversed (100 000 ...)"

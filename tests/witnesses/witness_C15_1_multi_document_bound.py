# C15: two well-formed documents in one buffer: the token loop of the first runs into the second
from okdmr.dmrlib.motorola.mbxml import MBXML
one = bytes.fromhex("0F0622042468ACE0")          # Triggered-Location-Stop-Request from test_lrrp.py
assert MBXML.as_bytes(MBXML.from_bytes(one)[0]) == one
docs = MBXML.from_bytes(one + one)                # pinned tree: KeyError(15)
assert len(docs) == 2 and b"".join(MBXML.as_bytes(d) for d in docs) == one + one

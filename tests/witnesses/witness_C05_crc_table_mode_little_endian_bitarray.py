# C05: table-driven CRC register disagrees with the bitwise one (and with M(x)*x^16 mod G) for a
# bitarray stored little-endian, although it is the same bit string.  Run: /venv/bin/python <this file>
from bitarray import bitarray
from okdmr.dmrlib.etsi.crc.crc import BitCrcCalculator, Crc16
big, little = bitarray("1000000011010001"), bitarray("1000000011010001", endian="little")
assert big == little                                   # the same 16-bit string
bitwise = BitCrcCalculator(Crc16.ETSI_DMR, table_based=False)
table = BitCrcCalculator(Crc16.ETSI_DMR, table_based=True)
print(bitwise.calculate_checksum(big), table.calculate_checksum(big))        # 1100000011000100 twice (= remainder)
print(bitwise.calculate_checksum(little), table.calculate_checksum(little))  # 1100000011000100 vs 0001001111010010
assert bitwise.calculate_checksum(little) == table.calculate_checksum(little), "table mode differs on little-endian storage"

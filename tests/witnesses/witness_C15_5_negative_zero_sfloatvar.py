# C15: a document value 40 00 (sfloatvar negative zero) does not serialise back to the same octets.
# Run: /venv/bin/python <this file>
from okdmr.dmrlib.motorola.mbxml import MBXML
value, end = MBXML.read_sfloatvar(b"\x40\x00", 0)
assert end == 2 and str(value) == "-0.0"
assert MBXML.write_sfloatvar(value, 1) == b"\x40\x00", "negative zero written back as 00 00"
print("ok")

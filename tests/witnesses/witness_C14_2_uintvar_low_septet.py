# C14: write_uintvar drops the final 0x00 septet of every multiple of 128
from okdmr.dmrlib.motorola.mbxml import MBXML
for v in (128, 256, 16384, 4294967168):
    b = MBXML.write_uintvar(v)
    back, idx = MBXML.read_uintvar(b + b"\xaa", 0)
    print(v, b.hex(), "->", back)
    assert back == v and idx == len(b), f"uintvar {v} written as {b.hex()} reads back {back}"

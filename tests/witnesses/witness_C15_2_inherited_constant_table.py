# C15: cdt_len 1 (= constant table of the previous document) is tested on the cursor, previous document never remembered,
# and never written back.  Shown on read_document so that the multi-document defect does not interfere.
from okdmr.dmrlib.motorola.mbxml import MBXML, MBXMLDocumentIdentifier as DI
a = bytes.fromhex("040E05054150434f22042468ACE05362")           # inline table 05 'APCO' (test_lrrp_cdt)
b = bytes.fromhex("0403" "01" "5362")                           # same id, cdt_len 1, tokens ret-info, request-speed-hor
prev = MBXML.from_bytes(a)[0]
doc = MBXML.read_document(doctype=DI.LRRP_ImmediateLocationRequest, data=b, idx=2, previous_doc=prev)
print([hex(p.token_id) for p in doc.parts], doc.constants_table)   # pinned: only 0x62, table b'S'
assert [p.token_id for p in doc.parts] == [0x53, 0x62] and doc.constants_table == prev.constants_table
assert MBXML.as_bytes(doc) == b

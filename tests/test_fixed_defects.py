"""Plain replays (no explorer) of the defects found by the checks and repaired by `fix:` commits in /repo.
Run: /venv/bin/python -m pytest -q /verif/tests  (each test fails on the pinned pre-fix tree)."""


def test_c17_ack_of_connect_is_not_answered():
    from asyncio import DatagramTransport
    from okdmr.dmrlib.protocols.hytera.rrs_datagram_protocol import RRSDatagramProtocol

    class T(DatagramTransport):
        def __init__(self):
            super().__init__()
            self.sent = []

        def sendto(self, data, addr=None):
            self.sent.append(bytes(data))

        def is_closing(self):
            return False

    p, t = RRSDatagramProtocol(port=1), T()
    p.connection_made(t)
    p.datagram_received(bytes.fromhex("324200050000"), ("192.0.2.1", 1))  # CONNECT|ACK
    assert t.sent == []
    p.datagram_received(bytes.fromhex("324200040000"), ("192.0.2.1", 1))  # CONNECT
    assert t.sent == [bytes.fromhex("324200050000")]
